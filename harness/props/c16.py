"""C16 -- class definition is a pure function of body, bases, arguments (no leaked state).

A case is a *scenario*: decorator objects created once from given arguments, shared containers (a `these`
dict, the dict/list/class_body/bases handed to `make_class`, shared counting attrs, a validator list, a
converter list, a hook list, a metadata dict), a history of steps and a target definition.  Steps are
definitions (a decorator object applied to a new class, or a `make_class` call over the shared containers)
and the user's own operations on the shared objects (`@ca.validator`, `@ca.default`, appends).  The scenario
is executed twice against the attrs working tree -- with every step, and with the definitions of the history
erased (fresh decorator objects and containers, only the user's operations replayed) -- and the target class is
fingerprinted in both universes.
"""
from __future__ import annotations

import copy
import itertools

import common
import c16_world as W

ID = "C16"
RULE = ("cases = scenario templates over a catalogue of 44 class specifications (frozen/mutable/hooked/exception/plain "
        "bases, own __hash__/__eq__/__lt__/__init__/__repr__/__setattr__, pre/post-init hooks, converter/validator/"
        "per-field on_setattr fields, annotated-only / field()-only / mixed / unannotated bodies, kw_only, default "
        "order errors, shared counting attrs, fields over shared validator/converter/hook lists and metadata dict) x "
        "30 decorator-argument sets (attr.s / define / mutable / frozen; auto_detect, hash, eq, order, init, repr, slots, "
        "frozen, cache_hash, kw_only, auto_attribs, auto_exc, on_setattr kinds, these=shared): (1) a block of ordered "
        "pairs (A,B) through ONE shared decorator object covering every (decorator, A) with four B's (quick) / every "
        "ordered pair for every decorator (thorough); (2) ordered triples; (3) two decorator objects sharing one "
        "`these` dict; (4) make_class histories over one shared attrs dict/list, class_body and bases tuple; "
        "(0) LAYOUT TWINS: classes with the same name, qualname, field names/order/options (optionally another module, "
        "optionally one flag of one field flipped) whose eq/order keys, converters, validators, factories, defaults, repr "
        "callables and hooks all differ and are tagged with their class, under 24 argument sets with and without a "
        "generated __hash__, with one shared or two separate decorator objects, histories AB / ABA / ABB / AAB; "
        "(0b) SIBLINGS: B0(P) plain, A(P) with class options (kw_only, field_transformer, eq/order/hash/frozen/init/repr "
        "flags), target B(P) plain, for ONE attrs base object P one or two levels deep (4 two-level base kinds), through "
        "define / mutable / frozen / attr.s(collect_by_mro=True) / legacy attr.s, B0 re-fingerprinted at the end; "
        "(0c) POOL: user objects (attr.Converter with takes_self/takes_field, pipe/optional results, attr.Factory, "
        "and_/or_ validator objects, eq-key/repr callables) wandering over DIFFERENT field names from class to class "
        "while the other names carry other converters; "
        "the KIND of every shared argument container varies (metadata: dict / MappingProxyType over a kept dict / "
        "OrderedDict / custom Mapping; validators/converters/hooks: list / tuple / prebuilt and_ / pipe object; these and "
        "make_class attrs: dict / OrderedDict, names list / tuple; class_body dict / OrderedDict) and the user's edits of "
        "the kept objects (new key + every old value changed, appends) sit between definitions; "
        "(0d) ENVIRONMENT: changes of the process environment (attrs.validators.set_disabled on/off) are steps of a "
        "history: a dedicated template (class defined while validators are off, used after) and every fifth scenario of "
        "any template gets switch operations inserted; the erased universe keeps the switch in its default state; "
        "every fingerprint is taken with validators enabled and its assignment/construction probes again with "
        "validators disabled; "
        "(0e) USE: read-only uses (fields, fields_dict, has, asdict, astuple, evolve, validate, repr/eq/hash, copy, pickle, "
        "a whole fingerprint) of any class of the universe -- bases, their roots, undecorated classes put BETWEEN an attrs "
        "base and the bodies (harness-only `plainMid`), earlier classes -- are steps of a history (define, look, define, "
        "observe), erased in the other universe; a dedicated template with frozen dict / MRO-collecting decorators and "
        "every fifth scenario of any template; "
        "(0f) THREADS: definitions run in the main thread, one worker thread per universe, or a fresh thread each, while "
        "the shared counting attrs are created in another fresh thread (classic counter-ordered bodies mixing both); "
        "(0g) MODULE + TRANSFORMERS: every body is executed in a synthetic module registered in sys.modules for the life of "
        "its universe; each definition binds and REBINDS names there (Base, field thunks, `Ann`, `Ann_<class>`), a third "
        "of the bodies annotate with those names as STRINGS; decorators and make_class calls over shared these/attrs "
        "dicts and shared counting attrs carry field_transformers that observe (alias None-ness, inherited, kw_only, "
        "default) or act on (alias) what they are handed; "
        "(0h) twins in ONE module with one qualname whose generated scripts have the same length but differ (one letter "
        "of a field name), inspect.getsource of every generated method in the fingerprint; a method with a __class__ "
        "cell written in A's body and the very function object re-used in the body of the same-qualname B (A.who() is "
        "A re-observed at the end); RETRY: a definition rejected late (cache_hash without hash / with init=False, frozen "
        "+ on_setattr, own __setattr__ + hooks) then a valid decorator on the SAME class object (harness-only `obj`), "
        "which must come out like a fresh class; "
        "(0i) ARGMUT: the caller's own LIST objects that a factory has already taken in -- attr.s(on_setattr=[..]) of a KEPT "
        "decorator object (classic front end only), attr.ib(validator=[..] / on_setattr=[..]) of shared counting attrs and "
        "`these` fields -- get another member appended BETWEEN creation / applications of the decorator object (a harness-only "
        "`mut` flavour of the use step, erased in the other universe like every use): dedicated template (create, [apply], "
        "mutate, apply; 11 argument sets), half of the attr.s(on_setattr=list) pairs, a fifth of all inserted use steps; "
        "(5) shared counting attrs (also re-declared base fields) with @ca.validator/@ca.default between definitions; (6) fields over shared "
        "argument containers with appends between definitions; (7) random mixtures with histories up to 6 steps. "
        "non-trivial = the history contains at least one definition that succeeded; distinct = distinct JSON case")
ASSUMPTIONS = [
    "the module a body is executed in belongs to the inputs of its definition: names an earlier definition left there are "
    "legitimately visible; what is demanded is that typing.get_type_hints of the generated __init__ resolves the body's "
    "string annotations to the objects bound when THIS class was defined (owner-tagged) and equally in both universes; "
    "globals of generated methods whose names the class's module also binds are the module's and are not walked",
    "no two classes of a universe may share one Attribute object (own fields and inherited copies alike): folded into "
    "foreignFree; what a field_transformer was handed is part of the fingerprint",
    "converters are closures of ONE factory (one __code__) whose annotations are owner-tagged marker types: the ownership "
    "oracle also covers every annotation found on generated methods, Converter.__call__ and pipe()/optional() results; the "
    "globals a generated method shares with its class's module are the module's, not attrs's, and are not walked",
    "non-attrs classes of the universe (plain bases, undecorated classes in between) must keep their own __dict__ unchanged "
    "by every step (CPython's own __slotnames__ cache written by copy/pickle is ignored); generic aliases (where attrs's "
    "fields() documents a cache write) and multiple inheritance are not generated; which thread runs what, which class a "
    "use step touches and `plainMid` are harness-only variation the model is independent of",
    "process environment: attr._config has one flag (_run_validators); it is the only environment dimension varied -- "
    "interpreter flags (-O, sys.flags) cannot be changed in-process and sys.modules/linecache belong to C17; T1 names every "
    "function of _make.py/_next_gen.py that reads `_config.<attr>` as code (not as text of a generated method)",
    "every user callable handed to attrs is a fresh object tagged with its owner (the class whose body created it, a base, "
    "or the shared arguments); a class that holds (fields(), globals/defaults/closures of its generated methods) or runs "
    "(hash/repr/eq/ne/lt../getstate/assignment/construction probes, on values two twins' keys classify differently) a "
    "callable of an unrelated class -- of this or the other universe, of this or an earlier case -- violates 'the outcome "
    "depends only on body, bases and arguments'; this oracle does not need a clean baseline, so it also sees "
    "library-global caches that contaminate both universes of the process alike",
    "the fingerprint (fields() structure, own-dict keys, generated-method kinds, sa_attrs of the generated __setattr__, "
    "signature, probes: hash/repr/eq/lt, assignment to every field with converter/validator/hook log, construction with "
    "pre/post-init log) is what 'behaviour of a class' means here; state that influences none of these is not seen",
    "the user's own operations on shared objects (@ca.validator, @ca.default, list.append, dict item assignment) are part "
    "of the scenario in both universes; only attrs's definition machinery is required to leave arguments alone",
    "a list handed to attr.s(on_setattr=[..]) or attr.ib(validator=[..] / on_setattr=[..]) is taken in when the factory is called "
    "(pipe / and_ built at once): what the caller appends to ITS list afterwards is no argument of any later definition and "
    "is erased with the uses; define()/mutable()/frozen() re-call attrs() per class and so read the caller's on_setattr list "
    "at every application on the unchanged source, and a `these` dict is read at every application by design: those shapes "
    "are not mutated (the `mut` step leaves them alone); the model treats the step as a use (no-op)",
    "closure cells are read through __closure__/co_freevars (CPython); a cell that no longer exists counts as unchanged; "
    "a rebinding of any closure variable of a decorator object between applications is reported even if it were "
    "behaviour-neutral (the property's anchor: per-decorator configuration must not change between applications)",
    "T1: the leak parameter of the model is read off the source syntactically (nonlocal/global declarations in closures "
    "nested in attrs()/define(); `x = attrs` in make_class); state kept elsewhere is only seen by the correspondence",
    "base classes come from 12 fixed kinds (one or two attrs levels), built per universe with their own fresh decorators and "
    "shared by all classes of a history; which pool object / key / repr callable / factory style / field_transformer a "
    "field or decorator uses, and the kind of each shared container (the model only counts members), is harness-only "
    "variation the model is independent of (it only sees conv / nValid / hasDefault / sizes)",
]
EXHAUSTIVE = {"quick": False, "thorough": False}
BUDGET_S = {"quick": 24, "thorough": 400}
TABLES = ["attrsKw", "defineKw", "frozenPartialKw", "attrsWrapRebinds", "defineWrapRebinds", "makeClassDictAliased",
          "configReaders"]
PARALLEL = True

LEVEL_TEXT = (
    "Lean theorems (Properties/C16.lean) about an executable model of attrs.wrap / define.wrap+do_it / make_class / "
    "_CountingAttr.validator+default in which everything that outlives a definition is an explicit World (closure cells "
    "of every decorator object, the caller's make_class dict, shared counting attrs, sizes of shared argument containers) "
    "and what a definition may write is a parameter read off the source by T1 (nonlocal/global names of the closures, "
    "whether make_class works on the caller's dict). For histories of ANY length mixing any decorator objects, make_class "
    "calls, failed definitions and user operations: C16_arguments_unchanged / C16_definitions_leave_world (world after the "
    "history = world after the user's operations alone / unchanged), C16_history_independent / C16_history_irrelevant "
    "(result of the target = result with every definition erased / as if first), C16_world_is_declared + "
    "C16_outcome_is_pure_function (the world a definition meets, and so its outcome, is an explicit function of arguments, "
    "class and counted user operations), C16_results_pointwise (every result of a history, order irrelevant), "
    "C16_environment_erasable (switch operations anywhere in a history can be erased together with the definitions) with "
    "C16_definitions_never_read_config (T1: every reader of _config is a known run-time function), "
    "C16_make_class_pure, C16_outcome_function_of_inputs, C16_decorators_independent and C16_leak_frame (for ANY leak "
    "parameter only the licensed cells can change), C16_source_has_no_rebinding (the extracted tables license nothing). "
    "About the ORIGINAL behaviour (allLeak; explicitly not the model of the code): C16_leaky_hash_needs_trigger, "
    "C16_leaky_hash_changes_iff (the trigger is exact), C16_leaky_onsetattr_needs_unset, C16_leaky_quiet_histories (it is history independent along every history without a "
    "trigger), and by `decide` C16_original_violates_F2/F3/F4 + C16_spec_rejects_leaks (history independence fails exactly "
    "as F2-F4 did and the specification rejects it). C16_model_meets_spec. "
    "The decision logic of the model (which methods are generated, which errors are raised, which fields are collected) "
    "is tied to /repo by the differential correspondence only; the deep behaviour fingerprint, the identity-level container "
    "snapshots around every definition, the re-fingerprinting of earlier classes and bases, and the closure-cell identity "
    "check and the ownership check of every callable a class holds or runs (foreignFree) are observed at runtime, not proved. Bounds of the correspondence: catalogue of 44 class specs plus random "
    "bodies, bases one or two levels deep (12 fixed kinds), histories <= 6 steps, <= 3 decorator objects; process-global state is only seen when it "
    "is keyed by something of the class or trips within one case (the erased universe runs first, under other class names).")

HOOKS = ["n", "noOp", "convert", "validate", "custom", "list"]
BASES = ["object", "plain", "frozenDefine", "frozenAttrS", "hookedDefine", "mutableDefine", "mutableAttrS", "exc",
         "deepDefine", "deepFrozen", "deepHooked", "deepAttrS"]
ATTRS_BASES = ["frozenDefine", "frozenAttrS", "hookedDefine", "mutableDefine", "mutableAttrS",
               "deepDefine", "deepFrozen", "deepHooked", "deepAttrS"]
POOL_SIZES = {"conv": 6, "factory": 2, "valid": 3, "eqKey": 2, "reprFn": 2}
NO_OWN = {"ownHash": "absent", "ownEq": False, "ownLt": False, "ownInit": False, "ownRepr": False, "ownSetattr": False}


# ------------------------------------------------------------------ building blocks
def F(name, annotated=True, src="inline", default=False, conv=False, nValid=0, hook="n", kwOnly=False, metaN=0, ca=0, x=None):
    f = {"name": name, "annotated": annotated, "src": src, "ca": ca, "hasDefault": default, "conv": conv,
         "nValid": nValid, "hook": hook, "kwOnly": kwOnly, "metaN": metaN}
    if x:
        f["x"] = dict(x)      # harness-only: eqKey / orderKey / reprFn / factory ("kw" | "obj")
    return f


def P(name, default=False):
    return F(name, True, "plain", default)


def C(fields=(), base="object", pre=False, post=False, **own):
    o = dict(NO_OWN)
    o.update(own)
    return {"base": base, "fields": list(fields), "own": o, "hasPre": pre, "hasPost": post}


def A(api="define", these=False, x=None, **kw):
    a = {"api": api, "these": these, "repr": None, "hash": None, "init": None, "eq": None, "order": None, "slots": None,
         "frozen": None, "autoAttribs": None, "kwOnly": None, "cacheHash": None, "autoExc": None, "autoDetect": None,
         "onSetattr": None}
    a.update(kw)
    if x:
        a["x"] = x
    return a


def CA(default=False, conv=False, nValid=0, hook="n", kwOnly=False, metaN=0):
    return {"hasDefault": default, "conv": conv, "nValid": nValid, "hook": hook, "kwOnly": kwOnly, "metaN": metaN}


def defDeco(i, c):
    return {"defDeco": {"i": i, "c": c}}


def defMk(args=None, useList=False, base="object", withBody=False):
    return {"defMk": {"m": {"useList": useList, "base": base, "withBody": withBody, "args": args or A("attrS")}}}


def is_def(step):
    return isinstance(step, dict) and ("defDeco" in step or "defMk" in step)


def rand_kinds(rng):
    """harness-only: which KIND each shared argument container is (dict / MappingProxyType over a kept dict /
    OrderedDict / custom Mapping; list / tuple / prebuilt and_ / pipe object; ...)"""
    return {k: rng.choice(v) for k, v in W.KINDS.items()}


def scenario(decos, steps, target, these=(), mkFields=(), mkHooks=(), mkBody=None, cas=(), valLen=2, convLen=1, hookLen=1,
             metaSize=1, tpl="?", kinds=None):
    if kinds:
        return dict(scenario(decos, steps, target, these, mkFields, mkHooks, mkBody, cas, valLen, convLen, hookLen,
                             metaSize, tpl), kinds=kinds)
    return {"decos": list(decos), "these": list(these), "mkFields": list(mkFields), "mkHooks": list(mkHooks),
            "mkBody": mkBody or dict(NO_OWN), "cas": list(cas), "valLen": valLen, "convLen": convLen, "hookLen": hookLen,
            "metaSize": metaSize, "steps": list(steps), "target": target, "tpl": tpl}


# ------------------------------------------------------------------ catalogue
CATALOGUE = {
    # bodies: annotated-only / field()-only / mixed / with an unannotated field() (auto_attribs fallback)
    "empty": C(),
    "annOnly": C([P("x"), P("y", True)]),
    "fieldOnly": C([F("x", False), F("y", False, default=True)]),
    "mixedAnn": C([F("x", conv=True), P("y", True)]),
    "mixedUnann": C([P("x"), F("y", False, conv=True, nValid=1)]),
    "convVal": C([F("x", conv=True, nValid=1), F("y", nValid=2, default=True)]),
    "convOnly": C([F("p", conv=True)]),
    "valOnly": C([F("q", nValid=1), F("r", default=True)]),
    "noConvVal": C([F("x"), F("y", default=True, metaN=2)]),
    # own methods
    "ownHash": C([F("x", conv=True)], ownHash="fn"),
    "ownEq": C([F("x")], ownEq=True),
    "ownHashNone": C([P("x")], ownHash="nul"),
    "ownEqHash": C([F("x", nValid=1)], ownEq=True, ownHash="fn"),
    "ownLt": C([F("x")], ownLt=True),
    "ownInit": C([F("p", conv=True), F("x")], ownInit=True),
    "ownRepr": C([P("x")], ownRepr=True),
    "ownSetattr": C([F("x")], ownSetattr=True),
    "ownSetattrConv": C([F("x", conv=True)], ownSetattr=True),
    "prePost": C([F("x", default=True)], pre=True, post=True),
    # bases
    "frozenBase": C([F("x", conv=True, nValid=1)], base="frozenDefine"),
    "frozenBasePlain": C([P("x")], base="frozenDefine"),
    "frozenBaseAttrS": C([F("x", False)], base="frozenAttrS"),
    "frozenBaseOwnSetattr": C([F("x")], base="frozenDefine", ownSetattr=True),
    "frozenBaseOwnHash": C([F("x")], base="frozenAttrS", ownHash="fn"),
    "hookedBase": C([P("x")], base="hookedDefine"),
    "hookedBaseOwnSetattr": C([F("x")], base="hookedDefine", ownSetattr=True),
    "mutableBase": C([F("q", conv=True)], base="mutableDefine"),
    "mutableBaseAttrS": C([F("x", False, nValid=1)], base="mutableAttrS"),
    "excBase": C([F("x", conv=True)], base="exc"),
    "excBaseOwnHash": C([P("x")], base="exc", ownHash="fn"),
    "plainBase": C([F("x", nValid=1), P("y", True)], base="plain"),
    # a field of the base re-declared in the body
    "redeclaresB": C([F("b", conv=True), F("x")], base="mutableDefine"),
    "redeclaresBFrozen": C([F("x"), F("b", default=True)], base="frozenAttrS"),
    "redeclaresBHooked": C([P("b")], base="hookedDefine"),
    # per-field hooks, kw_only, malformed bodies
    "fieldHookCustom": C([F("x", hook="custom"), F("y", conv=True)]),
    "fieldHookNoOp": C([F("x", conv=True, hook="noOp"), F("y", conv=True)]),
    "fieldHookList": C([F("x", conv=True, nValid=1, hook="list")]),
    "fieldHookValidate": C([F("x", nValid=1, hook="validate"), F("y", hook="convert")]),
    "kwOnlyField": C([F("x", default=True), F("y", kwOnly=True)]),
    "badOrder": C([F("x", default=True), F("y")]),
    "badOrderAnn": C([P("x", True), P("y")]),
    # shared containers
    "usesCa0": C([F("s", True, "shared", ca=0), F("x", conv=True)]),
    "usesCa0Unann": C([F("s", False, "shared", ca=0)]),
    "usesLists": C([F("l", True, "lists"), F("x")]),
}
CAT = list(CATALOGUE)
SENSITIVE_B = ["convVal", "frozenBase", "annOnly", "fieldOnly"]

DECOS = {
    "define": A("define"),
    "mutable": A("define", x={"alias": "mutable"}),
    "defineFrozen": A("define", frozen=True),
    "frozen": A("frozen"),
    "attrsAuto": A("attrS", autoDetect=True),
    "attrs": A("attrS"),
    "attrsSlots": A("attrS", slots=True, autoDetect=True),
    "defineCustom": A("define", onSetattr="custom"),
    "defineConvert": A("define", onSetattr="convert"),
    "defineValidate": A("define", onSetattr="validate"),
    "defineNoOp": A("define", onSetattr="noOp"),
    "defineList": A("define", onSetattr="list"),
    "attrsList": A("attrS", onSetattr="list", autoDetect=True),
    "attrsConvert": A("attrS", onSetattr="convert"),
    "attrsEqF": A("attrS", autoDetect=True, eq="f"),
    "attrsHashT": A("attrS", hash="t", x={"hashKw": "hash"}),
    "attrsHashF": A("attrS", hash="f", autoDetect=True),
    "defineDict": A("define", slots=False),
    "defineCache": A("define", cacheHash=True, hash="t"),
    "attrsCache": A("attrS", cacheHash=True, autoDetect=True),
    "defineKw": A("define", kwOnly=True),
    "attrsAutoAttribs": A("attrS", autoAttribs="t", autoDetect=True),
    "defineAutoT": A("define", autoAttribs="t"),
    "defineAutoF": A("define", autoAttribs="f"),
    "attrsFrozen": A("attrS", frozen=True),
    "defineInitF": A("define", init="f"),
    "defineOrder": A("define", order="t"),
    "attrsExc": A("attrS", autoExc=True, autoDetect=True, x={"collect_by_mro": True}),
    "defineNoDetect": A("define", autoDetect=False),
    "frozenHook": A("frozen", onSetattr="validate"),
}
DECO_NAMES = list(DECOS)
THESE_DECOS = {
    "attrsThese": A("attrS", these=True),
    "defineThese": A("define", these=True),
    "attrsTheseKw": A("attrS", these=True, kwOnly=True, autoDetect=True),
    "frozenThese": A("frozen", these=True),
}
THESE_SETS = [
    [F("tx", False, conv=True, nValid=1), F("ty", False, default=True)],
    [F("tx", False)],
    [F("tx", False, hook="custom"), F("ty", False, conv=True, metaN=1)],
    [],
]
MK_FIELDS = [
    [F("mx", False, conv=True), F("my", False, default=True, nValid=1)],
    [F("mx", False)],
    [F("mx", False, hook="convert", conv=True)],
]
MK_HOOKSETS = [[], ["__attrs_pre_init__"], ["__attrs_post_init__"], ["__init__"],
               ["__attrs_pre_init__", "__attrs_post_init__"], ["__attrs_pre_init__", "__attrs_post_init__", "__init__"]]
MK_ARGS = [A("attrS"), A("attrS", slots=True), A("attrS", frozen=True), A("attrS", autoDetect=True),
           A("attrS", init="f"), A("attrS", eq="f"), A("attrS", hash="t"), A("attrS", kwOnly=True),
           A("attrS", onSetattr="convert"), A("attrS", onSetattr="list", slots=True), A("attrS", order="f"),
           A("attrS", cacheHash=True, frozen=True), A("attrS", autoDetect=True, slots=True, repr="f")]
MK_BODIES = [dict(NO_OWN), dict(NO_OWN, ownRepr=True), dict(NO_OWN, ownHash="fn"), dict(NO_OWN, ownEq=True),
             dict(NO_OWN, ownSetattr=True), dict(NO_OWN, ownInit=True, ownLt=True)]
USER_OPS = ["valAppend", "convAppend", "hookAppend", "metaSet"]


def _named(c, name, rng=None):
    c = copy.deepcopy(c)
    c["x"] = {"name": name}
    if rng is not None:
        c["x"]["fieldApi"] = rng.choice(["ib", "field"])
    return c


def _cat(name, clsname, rng=None):
    return _named(CATALOGUE[name], clsname, rng)


def _names(rng, n):
    """class names of a history: sometimes all the same (same qualname), sometimes distinct"""
    if rng.random() < 0.4:
        return ["C"] * n
    return [chr(ord("A") + i) for i in range(n)]


def _rand_deco(rng):
    a = copy.deepcopy(DECOS[rng.choice(DECO_NAMES)])
    x = a.setdefault("x", {})
    if rng.random() < 0.3:
        x["weakref_slot"] = rng.random() < 0.5
    if rng.random() < 0.3:
        x["match_args"] = rng.random() < 0.5
    if rng.random() < 0.2:
        x["ft"] = rng.choice([True, "observe", "alias"])
    if rng.random() < 0.15:
        x["getstate_setstate"] = True
    if a["hash"] is not None and "hashKw" not in x:
        x["hashKw"] = rng.choice(["hash", "unsafe_hash"])
    return a


def _rand_args(rng):
    """a random argument set (beyond the named ones)"""
    api = rng.choice(["attrS", "attrS", "define", "define", "frozen"])
    a = A(api)
    for k in ("repr", "init", "eq", "hash"):
        if rng.random() < 0.2:
            a[k] = rng.choice(["t", "f", "n"])
    if rng.random() < 0.25:
        a["order"] = rng.choice(["t", "f", "n"])
    for k in ("slots", "kwOnly", "cacheHash", "autoExc", "autoDetect"):
        if rng.random() < 0.25:
            a[k] = rng.random() < 0.5
    if api != "frozen" and rng.random() < 0.2:
        a["frozen"] = rng.random() < 0.5
    if rng.random() < 0.25:
        a["autoAttribs"] = rng.choice(["t", "f", "n"])
    if rng.random() < 0.35:
        a["onSetattr"] = rng.choice(HOOKS)
    if a["hash"] is not None:
        a["x"] = {"hashKw": rng.choice(["hash", "unsafe_hash"])}
    if not _args_ok(a):
        a["order"] = None
        a["eq"] = None
    return a


def _args_ok(a, mk=False):
    eq = a["eq"] or "n"
    order = a["order"]
    if order is None:
        order = "n" if (a["api"] == "attrS" or mk) else "f"
    if mk and eq == "n":
        eq = "t"
    if order == "n":
        order = eq
    return not (eq == "f" and order == "t")


def _rand_class(rng, n_cas=0):
    """a random class specification outside the catalogue"""
    names = ["x", "y", "z", "w", "b"]
    rng.shuffle(names)
    fields = []
    if n_cas and rng.random() < 0.7:
        for j in sorted(rng.sample(range(n_cas), rng.randint(1, n_cas))):
            fields.append(F(f"s{j}", rng.random() < 0.6, "shared", ca=j))
    for n in names[:rng.choice([0, 1, 1, 2, 2, 3])]:
        r = rng.random()
        if r < 0.2:
            fields.append(P(n, rng.random() < 0.4))
        elif r < 0.3:
            fields.append(F(n, rng.random() < 0.7, "lists", default=rng.random() < 0.3, kwOnly=rng.random() < 0.15))
        else:
            fields.append(F(n, rng.random() < 0.65, "inline", default=rng.random() < 0.3, conv=rng.random() < 0.45,
                            nValid=rng.choice([0, 0, 1, 2]), hook=rng.choice(["n"] * 5 + HOOKS),
                            kwOnly=rng.random() < 0.12, metaN=rng.choice([0, 0, 1])))
    own = dict(NO_OWN)
    if rng.random() < 0.5:
        for k in ("ownEq", "ownLt", "ownInit", "ownRepr", "ownSetattr"):
            own[k] = rng.random() < 0.2
        own["ownHash"] = rng.choice(["absent", "absent", "nul", "fn"])
    return {"base": rng.choice(["object", "object"] + BASES), "fields": fields, "own": own,
            "hasPre": rng.random() < 0.12, "hasPost": rng.random() < 0.12}


# ------------------------------------------------------------------ scenario templates
def t_pair(rng, dname, aname, bname):
    na, nb = _names(rng, 2)
    d = copy.deepcopy(DECOS[dname])
    a, b = _cat(aname, na, rng), _cat(bname, nb, rng)
    if rng.random() < 0.25 and not any(f["name"] == "b" for f in b["fields"]):
        b["base"] = a["base"]          # both below the very same base class object
    steps = [defDeco(0, a)]
    if d["api"] == "attrS" and d["onSetattr"] == "list" and rng.random() < 0.5:
        steps.append(mut_step(rng))       # the caller goes on using the list it handed to attr.s(on_setattr=[..])
    return scenario([d], steps, defDeco(0, b), cas=[CA()], tpl="pair")


def t_triple(rng):
    ns = _names(rng, 3)
    d = _rand_deco(rng)
    a, b, c = (rng.choice(CAT) for _ in range(3))
    return scenario([d], [defDeco(0, _cat(a, ns[0], rng)), defDeco(0, _cat(b, ns[1], rng))], defDeco(0, _cat(c, ns[2], rng)),
                    cas=[CA(conv=rng.random() < 0.5)], tpl="triple")


def t_these(rng):
    """decorator objects sharing one these dict (and possibly different other arguments)"""
    k = rng.choice([1, 2, 2, 3])
    decos = [copy.deepcopy(rng.choice(list(THESE_DECOS.values()))) for _ in range(k)]
    if rng.random() < 0.4:
        decos[-1] = _rand_deco(rng)
    for d in decos:
        if rng.random() < 0.5:           # a field_transformer that observes / acts on what it is handed
            d.setdefault("x", {})["ft"] = rng.choice(["observe", "alias"])
    these = copy.deepcopy(rng.choice(THESE_SETS))
    n = rng.randint(1, 3)
    ns = _names(rng, n + 1)
    steps = [defDeco(rng.randrange(k), _cat(rng.choice(CAT), ns[i], rng)) for i in range(n)]
    return scenario(decos, steps, defDeco(rng.randrange(k), _cat(rng.choice(CAT), ns[n], rng)), these=these,
                    cas=[CA()], tpl="these", kinds=rand_kinds(rng))


def _mk_step(rng, hooks_present=True):
    a = copy.deepcopy(rng.choice(MK_ARGS))
    st = defMk(a, useList=rng.random() < 0.2, base=rng.choice(["object", "object", "plain", "mutableAttrS", "frozenAttrS", "exc"]),
               withBody=rng.random() < 0.5)
    st["defMk"]["m"]["x"] = {"name": rng.choice(["M", "M", "N"])}
    if rng.random() < 0.4:
        a.setdefault("x", {})["ft"] = rng.choice(["observe", "alias", True])
    return st


def t_mk(rng):
    n = rng.randint(1, 3)
    steps = [_mk_step(rng) for _ in range(n)]
    if rng.random() < 0.3:
        steps.insert(rng.randrange(len(steps) + 1), defDeco(0, _cat(rng.choice(CAT), "A", rng)))
    return scenario([_rand_deco(rng)], steps, _mk_step(rng), mkFields=copy.deepcopy(rng.choice(MK_FIELDS)),
                    mkHooks=list(rng.choice(MK_HOOKSETS)), mkBody=dict(rng.choice(MK_BODIES)), cas=[CA()], tpl="make_class",
                    kinds=rand_kinds(rng))


def t_ca(rng):
    """shared counting attrs used in several bodies, with @ca.validator / @ca.default in between"""
    n_cas = rng.choice([1, 1, 2])
    cas = [CA(default=rng.random() < 0.3, conv=rng.random() < 0.5, nValid=rng.choice([0, 0, 1, 2]),
              hook=rng.choice(["n", "n", "n", "custom", "convert", "noOp"]), kwOnly=rng.random() < 0.1,
              metaN=rng.choice([0, 1])) for _ in range(n_cas)]
    k = rng.choice([1, 1, 2])
    decos = [_rand_deco(rng) for _ in range(k)]
    steps = []
    n = rng.randint(1, 4)
    ns = _names(rng, n + 1)
    for i in range(n):
        r = rng.random()
        if r < 0.25:
            steps.append({"caValidator": {"j": rng.randrange(n_cas)}})
        elif r < 0.4:
            steps.append({"caDefault": {"j": rng.randrange(n_cas)}})
        else:
            steps.append(defDeco(rng.randrange(k), _named(_rand_class(rng, n_cas), ns[i], rng)))
    return scenario(decos, steps, defDeco(rng.randrange(k), _named(_rand_class(rng, n_cas), ns[n], rng)), cas=cas, tpl="shared_ca")


def t_lists(rng):
    """fields created from the shared validator/converter/hook lists and metadata dict, appends in between"""
    decos = [_rand_deco(rng)]
    steps = []
    n = rng.randint(1, 4)
    ns = _names(rng, n + 1)

    def cls(i):
        c = _rand_class(rng)
        c["fields"] = [F("l", rng.random() < 0.7, "lists", default=False)] + [f for f in c["fields"] if f["src"] != "lists"][:2]
        if rng.random() < 0.5:
            c["own"] = dict(NO_OWN)
        return _named(c, ns[i], rng)

    for i in range(n):
        if rng.random() < 0.4:
            steps.append(rng.choice(USER_OPS))
        else:
            steps.append(defDeco(0, cls(i)))
    if rng.random() < 0.6:
        # a class over the containers first, then the user edits every container (the next class is being prepared)
        burst = rng.sample(USER_OPS, rng.randint(1, 4))
        steps = [defDeco(0, cls(0))] + burst + steps[:2]
    kinds = rand_kinds(rng)
    if rng.random() < 0.5:
        kinds["M"] = rng.choice(["proxy", "mapping", "odict"])
    return scenario(decos, steps, defDeco(0, cls(n)), valLen=rng.choice([1, 2, 3]), convLen=rng.choice([1, 2]),
                    hookLen=rng.choice([1, 2]), metaSize=rng.choice([1, 1, 2, 0]), cas=[CA()], tpl="lists", kinds=kinds)


def t_mix(rng):
    k = rng.choice([1, 2, 3])
    decos = [(_rand_args(rng) if rng.random() < 0.6 else _rand_deco(rng)) for _ in range(k)]
    with_these = rng.random() < 0.3
    if with_these:
        decos[0]["these"] = True
    n_cas = rng.choice([0, 1, 2])
    cas = [CA(default=rng.random() < 0.3, conv=rng.random() < 0.5, nValid=rng.choice([0, 1]), metaN=rng.choice([0, 1]))
           for _ in range(max(n_cas, 1))]
    n = rng.randint(1, 6)
    ns = _names(rng, n + 1)

    def a_def(i):
        r = rng.random()
        if r < 0.2:
            return _mk_step(rng)
        c = _cat(rng.choice(CAT), ns[i], rng) if rng.random() < 0.5 else _named(_rand_class(rng, len(cas)), ns[i], rng)
        return defDeco(rng.randrange(k), c)

    steps = []
    for i in range(n):
        r = rng.random()
        if r < 0.12:
            steps.append(rng.choice(USER_OPS))
        elif r < 0.2:
            steps.append({rng.choice(["caValidator", "caDefault"]): {"j": rng.randrange(len(cas))}})
        else:
            steps.append(a_def(i))
    return scenario(decos, steps, a_def(n), these=copy.deepcopy(rng.choice(THESE_SETS)) if with_these else [],
                    mkFields=copy.deepcopy(rng.choice(MK_FIELDS)), mkHooks=list(rng.choice(MK_HOOKSETS)),
                    mkBody=dict(rng.choice(MK_BODIES)), cas=cas, valLen=rng.choice([1, 2]), convLen=1, hookLen=rng.choice([1, 2]),
                    metaSize=rng.choice([0, 1]), tpl="mix", kinds=rand_kinds(rng) if rng.random() < 0.7 else None)


TWIN_DECOS = [
    A("attrS"), A("attrS", autoDetect=True), A("attrS", slots=True), A("attrS", order="f"), A("attrS", eq="t", order="t"),
    A("attrS", hash="t"), A("attrS", frozen=True), A("attrS", cacheHash=True, hash="t"), A("attrS", kwOnly=True),
    A("attrS", repr="f"), A("attrS", init="f"), A("attrS", onSetattr="custom"), A("attrS", hash="f"),
    A("define"), A("define", order="t"), A("define", slots=False), A("define", hash="t"), A("define", frozen=True),
    A("define", onSetattr="validate"), A("define", eq="f"), A("define", order="t", slots=False, x={"getstate_setstate": True}),
    A("frozen"), A("frozen", order="t"), A("frozen", cacheHash=True),
]


def _twin_fields(rng):
    """a field layout in which every field carries user callables"""
    names = ["x", "y", "z", "w"][:rng.choice([1, 2, 2, 3, 4])]
    fields = []
    for i, n in enumerate(names):
        x = {}
        if rng.random() < 0.65:
            x["eqKey"] = True
        if rng.random() < 0.35:
            x["orderKey"] = True
        if rng.random() < 0.35:
            x["reprFn"] = True
        default = i > 0 and rng.random() < 0.5 or (i > 0 and fields[-1]["hasDefault"])
        if default and rng.random() < 0.7:
            x["factory"] = rng.choice(["kw", "obj"])
        fields.append(F(n, True, "inline", default=bool(default), conv=rng.random() < 0.5, nValid=rng.choice([0, 1, 1, 2]),
                        hook=rng.choice(["n", "n", "n", "custom", "custom", "validate"]), metaN=rng.choice([0, 0, 1]), x=x))
    if not any(f.get("x", {}).get("eqKey") for f in fields):
        fields[0]["x"] = dict(fields[0].get("x", {}), eqKey=True)
    return fields


def t_twin(rng):
    """layout twins: classes with the same name, qualname, field names, order and options whose user callables
    (eq/order keys, converters, validators, factories, repr callables, hooks, defaults) all differ and are tagged
    with their class; histories (A, A'), (A, A', A), (A', A, A'); near twins differ in one flag of one field"""
    fields = _twin_fields(rng)
    base = rng.choice(["object", "object", "object", "plain", "mutableAttrS", "frozenAttrS", "hookedDefine", "exc"])
    own = dict(NO_OWN)
    if rng.random() < 0.15:
        own[rng.choice(["ownEq", "ownLt", "ownRepr", "ownInit"])] = True

    rename = rng.random() < 0.35
    who = rng.choice([(None, None), ("def", "reuse"), ("def", "def"), ("def", "reuse")])

    def twin(variant, near=False):
        c = {"base": base, "fields": copy.deepcopy(fields), "own": dict(own), "hasPre": False, "hasPost": False,
             "x": {"name": "C", "variant": variant, "fieldApi": rng.choice(["ib", "field"])}}
        if rng.random() < 0.3:
            c["x"]["module"] = "c16mod" + str(variant)          # same qualname, another module
        if variant and rename:
            # same module, same qualname, scripts of the same LENGTH that differ (one letter of one field name)
            f = rng.choice(c["fields"])
            f["name"] = {"x": "p", "y": "q", "z": "r", "w": "v"}[f["name"]]
            c["x"].pop("module", None)
        c["x"]["who"] = who[0] if not variant else who[1]
        if near:
            f = rng.choice(c["fields"])
            what = rng.choice(["eqKey", "orderKey", "reprFn", "conv", "nValid", "hook"])
            if what in ("eqKey", "orderKey", "reprFn"):
                fx = dict(f.get("x", {}))
                fx[what] = not fx.get(what)
                f["x"] = fx
            elif what == "conv":
                f["conv"] = not f["conv"]
            elif what == "nValid":
                f["nValid"] = 0 if f["nValid"] else 1
            else:
                f["hook"] = "n" if f["hook"] != "n" else "custom"
        return c

    d = copy.deepcopy(rng.choice(TWIN_DECOS))
    if rng.random() < 0.5:
        decos, idx = [d], [0, 0, 0]                       # one decorator object for all of them
    else:
        decos, idx = [d, copy.deepcopy(d)], [0, 1, 0]     # no shared decorator, no shared container at all
        if rng.random() < 0.3:
            decos[1] = copy.deepcopy(rng.choice(TWIN_DECOS))
    shape = rng.choice(["AB", "AB", "ABA", "ABB", "AAB"])
    variants = {"A": 0, "B": rng.choice([1, 2])}
    near = rng.random() < 0.25
    seq = [twin(variants[ch], near and ch == "B") for ch in shape]
    steps = [defDeco(idx[i % 3], c) for i, c in enumerate(seq[:-1])]
    return scenario(decos, steps, defDeco(idx[(len(seq) - 1) % 3], seq[-1]), cas=[CA()], tpl="twin")


def t_pool(rng):
    """user OBJECTS (attr.Converter instances with takes_self/takes_field, pipe/optional results, attr.Factory
    objects, and_/or_ validator objects, eq-key and repr callables) used by several classes under DIFFERENT field
    names, while the later class also has a field with the earlier name carrying something else"""
    names = ["x", "y", "z"][:rng.choice([2, 2, 3])]
    n_cls = rng.choice([2, 2, 3, 4])
    k0 = rng.randrange(POOL_SIZES["conv"])          # the converter object that wanders over the field names

    def body(ci):
        fields = []
        wander = names[ci % len(names)]
        for i, n in enumerate(names):
            pool = {}
            conv, nvalid = False, 0
            if n == wander:
                pool["conv"], conv = k0, True
            else:
                r = rng.random()
                if r < 0.45:
                    conv = True                                   # its own converter
                elif r < 0.7:
                    pool["conv"], conv = rng.randrange(POOL_SIZES["conv"]), True
            r = rng.random()
            if r < 0.3:
                pool["valid"] = rng.randrange(POOL_SIZES["valid"])
                nvalid = W.POOL_NVALID[pool["valid"]]
            elif r < 0.5:
                nvalid = 1
            for k in ("eqKey", "reprFn"):
                if rng.random() < 0.3:
                    pool[k] = rng.randrange(POOL_SIZES[k])
            default = False
            x = {}
            if i == len(names) - 1 and rng.random() < 0.5:
                default = True
                if rng.random() < 0.6:
                    pool["factory"] = rng.randrange(POOL_SIZES["factory"])
                else:
                    x["factory"] = "kw"
            if rng.random() < 0.2:
                x["eqKey"] = True
            if pool:
                x["pool"] = pool
            fields.append(F(n, rng.random() < 0.8, "inline", default=default, conv=conv, nValid=nvalid,
                            hook=rng.choice(["n", "n", "n", "custom", "convert"]), x=x))
        c = C(fields, base=rng.choice(["object", "object", "object", "mutableAttrS", "deepDefine"]))
        c["x"] = {"name": rng.choice(["C", "D"]), "variant": ci % 3, "fieldApi": rng.choice(["ib", "field"])}
        return c

    d = copy.deepcopy(rng.choice(TWIN_DECOS))
    decos = [d] if rng.random() < 0.5 else [d, copy.deepcopy(rng.choice(TWIN_DECOS))]
    seq = [defDeco(rng.randrange(len(decos)), body(i)) for i in range(n_cls)]
    return scenario(decos, seq[:-1], seq[-1], cas=[CA()], tpl="pool")


SIBLING_OPTS = [dict(kwOnly=True), dict(kwOnly=True), dict(kwOnly=True, slots=False), dict(eq="f"), dict(order="t"),
                dict(hash="t"), dict(frozen=True), dict(init="f"), dict(repr="f"), dict(onSetattr="custom"),
                dict(cacheHash=True, hash="t"), dict(kwOnly=True, frozen=True), dict(x={"ft": True}),
                dict(kwOnly=True, x={"ft": True}), dict(autoDetect=False)]


def t_siblings(rng):
    """sibling subclasses of ONE attrs base object (one or two levels deep): B0(P) plain, A(P) with class options
    (kw_only, field_transformer, eq/order/hash/frozen flags...), then the target B(P) plain again; B0 is
    re-fingerprinted at the end.  MRO-collecting front ends and the legacy one."""
    base = rng.choice(ATTRS_BASES)
    fam = rng.choice(["define", "define", "mutable", "frozen", "attrsMro", "attrsMro", "attrs"])

    def deco(opts):
        o = copy.deepcopy(opts)
        x = o.pop("x", {})
        if fam in ("define", "mutable"):
            a = A("define", **o)
            if fam == "mutable":
                x["alias"] = "mutable"
        elif fam == "frozen":
            o.pop("frozen", None)
            if o.get("onSetattr"):
                o.pop("onSetattr")
            a = A("frozen", **o)
        else:
            a = A("attrS", **o)
            x["collect_by_mro"] = fam == "attrsMro"
            if rng.random() < 0.5:
                a["autoDetect"] = a["autoDetect"] if a["autoDetect"] is not None else True
        if x:
            a["x"] = x
        return a if _args_ok(a) else A("define")

    plain, opt = deco({}), deco(rng.choice(SIBLING_OPTS))
    decos = [plain, opt, deco(rng.choice(SIBLING_OPTS))]

    def body(name):
        r = rng.random()
        if r < 0.25:
            fields = []
        elif r < 0.5:
            fields = [F("x", fam != "attrs" and rng.random() < 0.8, default=rng.random() < 0.4)]
        elif r < 0.75:
            fields = [F("x", True, conv=rng.random() < 0.5, nValid=rng.choice([0, 1])), F("y", True, default=True)]
        else:
            fields = [F("b", True, conv=True), F("x", True, default=rng.random() < 0.3)]      # re-declares a base field
        if fam in ("attrs", "attrsMro"):
            for f in fields:
                f["annotated"] = rng.random() < 0.3
        c = C(fields, base=base)
        c["x"] = {"name": name, "fieldApi": rng.choice(["ib", "field"])}
        return c

    shape = rng.choice(["0A", "0A", "A", "0AA", "A0", "00A"])
    steps = []
    for i, ch in enumerate(shape):
        steps.append(defDeco(0 if ch == "0" else rng.choice([1, 1, 2]), body("S%d" % i if rng.random() < 0.6 else "S")))
    return scenario(decos, steps, defDeco(0, body("S")), cas=[CA()], tpl="siblings")


TEMPLATES = [t_triple, t_twin, t_siblings, t_these, t_pool, t_mk, t_twin, t_siblings, t_ca, t_pool, t_lists, t_mix]


def _fix_catalogue_for_case(case):
    """catalogue entries that use shared counting attr 0 need it to exist"""
    return case


ENV_TARGETS = ["valOnly", "convVal", "plainBase", "mutableBaseAttrS", "fieldHookValidate", "frozenBase", "hookedBase",
               "mixedUnann", "ownSetattr", "annOnly", "usesLists", "kwOnlyField"]


def with_env(case, rng):
    """put changes of the process environment (the global validator switch) into a history"""
    c = copy.deepcopy(case)
    steps = c["steps"]
    i = rng.randrange(len(steps) + 1)
    steps.insert(i, "validatorsOff")
    r = rng.random()
    if r < 0.35:
        steps.insert(rng.randrange(i + 1, len(steps) + 1), "validatorsOn")
    elif r < 0.45:
        steps.insert(rng.randrange(i + 1, len(steps) + 1), "validatorsOff")
    c["tpl"] = str(c.get("tpl")) + "+env"
    return c


FROZEN_DICT_DECOS = [A("define", slots=False, frozen=True), A("frozen", slots=False), A("attrS", frozen=True, x={"collect_by_mro": True}),
                     A("define", slots=False), A("define"), A("frozen"), A("attrS", x={"collect_by_mro": True}), A("attrS")]


def use_step(rng):
    if rng.random() < 0.2:
        return mut_step(rng)
    return {"use": {"k": rng.randrange(10000)}}


def mut_step(rng):
    """harness-only flavour of a use step: the caller appends to every list object of its own that a factory has
    already taken in (attr.s(on_setattr=[..]), attr.ib(validator=[..] / on_setattr=[..]) of shared fields)"""
    return {"use": {"k": rng.randrange(10000), "mut": True}}


def with_use(case, rng):
    """read-only uses (fields / asdict / evolve / validate / copy / ...) of classes of the universe inside a history"""
    c = copy.deepcopy(case)
    for _ in range(rng.choice([1, 2, 3])):
        c["steps"].insert(rng.randrange(len(c["steps"]) + 1), use_step(rng))
    c["tpl"] = str(c.get("tpl")) + "+use"
    return c


def with_threads(case, rng):
    """which thread creates the shared counting attrs and which one runs the definitions (harness-only)"""
    c = copy.deepcopy(case)
    c["threads"] = {"cas": rng.random() < 0.7, "defs": rng.choice(["worker", "worker", "fresh", "main"])}
    c["tpl"] = str(c.get("tpl")) + "+thr"
    return c


def t_use(rng):
    """define, look, define, observe: an undecorated class sits between an attrs base and the classes of the
    history; it (or the base, or an earlier class) is introspected / used before the target is defined"""
    base = rng.choice([b for b in ATTRS_BASES if b not in ("hookedDefine", "deepHooked")] + ["plain"])
    d = copy.deepcopy(rng.choice(FROZEN_DICT_DECOS))
    decos = [d] if rng.random() < 0.6 else [d, copy.deepcopy(rng.choice(FROZEN_DICT_DECOS))]

    def body(name):
        legacy = decos[0]["api"] == "attrS"
        fields = [F("x", not legacy or rng.random() < 0.3, default=rng.random() < 0.3)] if rng.random() < 0.8 else []
        c = C(fields, base=base)
        c["x"] = {"name": name, "plainMid": rng.random() < 0.8, "fieldApi": rng.choice(["ib", "field"])}
        return c

    steps = []
    if rng.random() < 0.5:
        steps.append(defDeco(0, body("A")))
    for _ in range(rng.choice([1, 2, 3, 6])):
        steps.append(use_step(rng))
    if rng.random() < 0.3:
        steps.insert(rng.randrange(len(steps) + 1), defDeco(len(decos) - 1, body("A2")))
    return scenario(decos, steps, defDeco(len(decos) - 1, body("B")), cas=[CA()], tpl="use")


def t_thread(rng):
    """classic (counter-ordered) bodies mixing shared counting attrs, created in another thread, with fresh fields;
    definitions run in one worker thread / a fresh thread each / the main thread"""
    n_cas = rng.choice([1, 2, 3])
    cas = [CA(default=False, conv=rng.random() < 0.4, nValid=rng.choice([0, 1])) for _ in range(n_cas)]
    d = copy.deepcopy(rng.choice([A("attrS"), A("attrS", autoDetect=True), A("define"), A("attrS", slots=True), A("define", slots=False)]))

    def body(name):
        js = sorted(rng.sample(range(n_cas), rng.randint(1, n_cas)))
        fields = [F(f"s{j}", False, "shared", ca=j) for j in js]
        for n in ["x", "y", "z"][:rng.choice([1, 1, 2, 3])]:
            fields.append(F(n, False, "inline", conv=rng.random() < 0.3))
        c = C(fields, base=rng.choice(["object", "object", "mutableAttrS"]))
        c["x"] = {"name": name, "fieldApi": "ib"}
        return c

    steps = [defDeco(0, body("A%d" % i)) for i in range(rng.choice([1, 2, 3]))]
    case = scenario([d], steps, defDeco(0, body("B")), cas=cas, tpl="thread")
    case["threads"] = {"cas": rng.random() < 0.8, "defs": rng.choice(["worker", "worker", "worker", "fresh", "main"])}
    return case


LATE_REJECTIONS = [      # (decorator arguments, class must have an own __setattr__) -- all raise after the builder exists
    (A("attrS", cacheHash=True), False), (A("attrS", frozen=True, onSetattr="convert"), False),
    (A("attrS", autoDetect=True, onSetattr="custom"), True), (A("attrS", init="f", cacheHash=True, hash="t"), False),
    (A("define", slots=False, cacheHash=True), False), (A("define", slots=False, frozen=True, onSetattr="validate"), False),
    (A("attrS", cacheHash=True, eq="f"), False), (A("define", onSetattr="custom"), True),
]
RETRY_DECOS = [A("attrS"), A("attrS"), A("define", slots=False), A("attrS", autoDetect=True), A("attrS", slots=True), A("define"),
               A("attrS", frozen=True), A("define", slots=False, kwOnly=True)]


def t_retry(rng):
    """a definition that is rejected LATE (cache_hash without hash, frozen + on_setattr, own __setattr__ + hooks,
    cache_hash with init=False), then a valid retry on the very same class object: it must come out like a fresh one"""
    bad, needs_setattr = copy.deepcopy(rng.choice(LATE_REJECTIONS))
    good = copy.deepcopy(rng.choice(RETRY_DECOS))
    legacy = good["api"] == "attrS" and rng.random() < 0.7
    fields = [F(n, not legacy, default=(i > 0 and rng.random() < 0.4), conv=rng.random() < 0.4, nValid=rng.choice([0, 1]))
              for i, n in enumerate(["x", "y", "z"][:rng.choice([1, 2, 3])])]
    for i in range(1, len(fields)):
        fields[i]["hasDefault"] = fields[i]["hasDefault"] or fields[i - 1]["hasDefault"]
    c = C(fields, base=rng.choice(["object", "object", "plain", "mutableAttrS"]), ownSetattr=needs_setattr)
    c["x"] = {"name": "R", "obj": "r", "fieldApi": "ib"}
    steps = [defDeco(0, copy.deepcopy(c))]
    if rng.random() < 0.3:
        steps.append(defDeco(0, copy.deepcopy(c)))          # rejected twice
    if rng.random() < 0.3:
        steps.append(rng.choice(USER_OPS))
    return scenario([bad, good], steps, defDeco(1, copy.deepcopy(c)), cas=[CA()], tpl="retry")


def t_env(rng):
    """a class defined while validators are switched off (and used after they are switched on again)"""
    d = _rand_deco(rng) if rng.random() < 0.7 else copy.deepcopy(rng.choice(TWIN_DECOS))
    steps = ["validatorsOff"]
    if rng.random() < 0.4:
        steps.append(defDeco(0, _cat(rng.choice(CAT), "A", rng)))
    if rng.random() < 0.3:
        steps.append("validatorsOn" if rng.random() < 0.5 else rng.choice(USER_OPS))
        if rng.random() < 0.5:
            steps.append("validatorsOff")
    tgt = rng.choice(ENV_TARGETS) if rng.random() < 0.7 else rng.choice(CAT)
    return scenario([d], steps, defDeco(0, _cat(tgt, "B", rng)), cas=[CA(nValid=1)], tpl="env")


ARGMUT_DECOS = [A("attrS", onSetattr="list"), A("attrS", onSetattr="list", autoDetect=True), A("attrS", onSetattr="list", slots=True),
                A("attrS", onSetattr="list", these=True), A("attrS", onSetattr="list", kwOnly=True, autoDetect=True),
                A("attrS", onSetattr="list", eq="f"), A("attrS", onSetattr="list", x={"collect_by_mro": True}),
                A("attrS", these=True), A("attrS", onSetattr="list", autoAttribs="t"), A("attrS"), A("define", these=True)]
ARGMUT_TARGETS = ["annOnly", "fieldOnly", "convVal", "noConvVal", "mixedAnn", "valOnly", "mutableBaseAttrS", "plainBase",
                  "usesCa0", "usesCa0Unann", "fieldHookNoOp", "kwOnlyField"]


def t_argmut(rng):
    """a KEPT decorator object created from the caller's own list objects (attr.s(on_setattr=[h..]), shared counting
    attrs and `these` fields made with validator=[..] / on_setattr=[..]); it is applied, the caller appends to its lists
    (they were taken in when the factory was called), it is applied again: create, [apply], mutate, apply"""
    k = rng.choice([1, 1, 2])
    decos = [copy.deepcopy(rng.choice(ARGMUT_DECOS)) for _ in range(k)]
    if not any(d["onSetattr"] == "list" for d in decos) or rng.random() < 0.5:
        decos[0] = copy.deepcopy(rng.choice(ARGMUT_DECOS[:7]))
    these = []
    if any(d["these"] for d in decos):
        these = [F("tx", False, nValid=rng.choice([0, 2, 3]), hook=rng.choice(["n", "list"]), conv=rng.random() < 0.3),
                 F("ty", False, default=True, nValid=rng.choice([0, 2]))][:rng.choice([1, 2])]
    cas = [CA(nValid=rng.choice([0, 2, 2, 3]), hook=rng.choice(["n", "list", "list"]), conv=rng.random() < 0.3)]
    n = rng.choice([1, 1, 2, 3])
    ns = _names(rng, n + 1)

    def cls(i, pool):
        return _cat(rng.choice(pool), ns[i], rng)

    steps = [defDeco(rng.randrange(k), cls(i, CAT if rng.random() < 0.5 else ARGMUT_TARGETS)) for i in range(n)]
    steps.insert(rng.choice([0, 1, 1, len(steps), len(steps)]), mut_step(rng))
    if rng.random() < 0.3:
        steps.insert(rng.randrange(len(steps) + 1), rng.choice(USER_OPS + ["caValidator"]))
        if steps and "caValidator" in steps:
            steps[steps.index("caValidator")] = {"caValidator": {"j": 0}}
    return scenario(decos, steps, defDeco(rng.randrange(k), cls(n, ARGMUT_TARGETS)), these=these, cas=cas, tpl="argmut")


TEMPLATES.insert(6, t_env)
TEMPLATES.insert(2, t_argmut)
TEMPLATES.insert(3, t_use)
TEMPLATES.insert(9, t_thread)
TEMPLATES.insert(5, t_retry)


def _gen_cases(tier, rng):
    # 0. layout twins first (library-global state keyed by field layout needs no shared decorator or container)
    for i in range(1000 if tier == "quick" else 40000):
        yield (t_twin, t_siblings, t_pool, t_lists, t_env, t_use, t_thread, t_retry, t_twin, t_argmut)[i % 10](rng)
    # 1. every (decorator, A) of the catalogue through one shared decorator object, B from the sensitive set
    if tier == "quick":
        order = [(d, a) for d in DECO_NAMES for a in CAT]
        rng.shuffle(order)
        for d, a in order[:950]:
            for b in (rng.choice(SENSITIVE_B), rng.choice(CAT)):
                yield t_pair(rng, d, a, b)
    else:
        for d in DECO_NAMES:
            for a in CAT:
                for b in CAT:
                    yield t_pair(rng, d, a, b)
    # 2. one of each other template, round robin, until the budget is used
    n = 2100 if tier == "quick" else 400000
    for i in range(n):
        yield TEMPLATES[i % len(TEMPLATES)](rng)


def gen_cases(tier, rng):
    """every fifth scenario additionally gets changes of the process environment somewhere in its history"""
    for i, c in enumerate(_gen_cases(tier, rng)):
        if i % 5 == 4:
            c = with_env(c, rng)
        elif i % 5 == 2:
            c = with_use(c, rng)
        elif i % 10 == 3:
            c = with_threads(c, rng)
        # string annotations naming what the module binds / rebinds right before each body (harness-only)
        by_obj = {}
        for st in list(c["steps"]) + [c["target"]]:
            if isinstance(st, dict) and "defDeco" in st:
                x = st["defDeco"]["c"].setdefault("x", {})
                if "strAnn" not in x:
                    if x.get("obj") is not None:                 # the same class object: one body
                        x["strAnn"] = by_obj.setdefault(x["obj"], rng.random() < 0.35)
                    elif rng.random() < 0.35:
                        x["strAnn"] = True
        yield c


# ------------------------------------------------------------------ observation
_N = [0]


def observe(case):
    import attr
    _N[0] += 1
    common.purge_linecache()
    attr.validators.set_disabled(False)
    try:
        return _observe(case)
    finally:
        attr.validators.set_disabled(False)      # the process environment is always handed back in its default state
        del W.LOG[:]


def _run(world, steps, target, erase):
    hist, made, snaps_ok = [], [], True
    for st in steps:
        if is_def(st):
            if erase:
                continue
            s0 = world.snapshot()
            r, cls = world.define(st)
            snaps_ok = snaps_ok and s0 == world.snapshot()
            hist.append(r)
            if cls is not None:
                made.append((cls, W.deep_of(cls, world.allowed_of(cls))))
        elif erase and (st in W.ENV_OPS or (isinstance(st, dict) and "use" in st)):
            continue            # the erased universe keeps the process environment in its default state, nothing is used
        else:
            hist.append(world.user_op(st))
    s0 = world.snapshot()
    r, cls = world.define(target)
    snaps_ok = snaps_ok and s0 == world.snapshot()
    deep = W.deep_of(cls, world.allowed_of(cls)) if cls is not None else r
    return r, deep, hist, made, snaps_ok


def _observe(case):
    worlds = []
    try:
        return _observe2(case, worlds)
    finally:
        for w in worlds:
            w.close()


def _observe2(case, worlds):
    # the universe without the history's definitions runs first: state leaked through process globals by
    # this case's history cannot reach it
    wb = W.World(case, "b", fp_bases=False)
    worlds.append(wb)
    alone, deep_b, _, _, _ = _run(wb, case["steps"], case["target"], erase=True)
    import attr
    attr.validators.set_disabled(False)
    wa = W.World(case, "a")
    worlds.append(wa)
    after, deep_a, hist, made, snaps_ok = _run(wa, case["steps"], case["target"], erase=False)
    run_after = not attr.validators.get_disabled()      # only the history's own switch operations moved it
    attr.validators.set_disabled(False)
    again = [(W.deep_of(c, wa.allowed_of(c)), d) for c, d in made]
    def _b(k):
        return wa.roots[k[5:]] if k.startswith("root:") else wa.bases[k]

    bases_again = [(W.deep_of(_b(k), wa.allowed_of(_b(k))), fp) for k, fp in wa.base_fp.items()]
    # ... and no class attrs never decorated (plain bases, undecorated classes in between) has anything left behind on it
    residue_free = all(W.plain_snapshot(c) == snap for c, snap in wa.plain_dicts)
    earlier = all(x == d for x, d in again + bases_again) and residue_free
    # no class of either universe ever holds or runs a callable of another class (of any universe, of any case)
    fps = [deep_a, deep_b] + [x for x, _ in again + bases_again] + [d for _, d in again + bases_again] + list(wb.base_fp.values())
    foreign_free = all(not (isinstance(f, dict) and f.get("foreign")) for f in fps)
    # ... and no two classes of the universe share one Attribute object (each class owns its fields, copies included)
    seen_attrs = {}
    for c in list(wa.made) + [b for b in list(wa.bases.values()) + list(wa.roots.values()) if isinstance(b, type)]:
        for a in c.__dict__.get("__attrs_attrs__", ()):
            if seen_attrs.setdefault(id(a), c) is not c:
                foreign_free = False
    return {
        "after": after, "alone": alone, "hist": hist,
        "cellsAfter": wa.final_cells(),
        "mkHooksAfter": [k for k in wa.mk_dict if k in W.HOOK_KEYS],
        "casAfter": [W.ca_state(c) for c in wa.cas],
        "sizesAfter": wa.sizes(),
        "deepSame": W.normalised(wa, deep_a) == W.normalised(wb, deep_b), "earlierSame": bool(earlier), "containersSame": bool(snaps_ok),
        "cellsSame": wa.cells_same(), "foreignFree": bool(foreign_free),
        "runAfter": bool(run_after),
    }


# ------------------------------------------------------------------ reporting helpers
def _is_ok(r):
    return isinstance(r, dict) and "ok" in r


def nontrivial(case, model):
    if not isinstance(model, dict):
        return False
    return any(is_def(s) and _is_ok(r) for s, r in zip(case["steps"], model.get("hist", [])))


def _kind(r):
    if r == "done":
        return "done"
    if _is_ok(r):
        return "ok"
    if isinstance(r, dict) and "err" in r:
        return r["err"]["e"]
    return "?"


def dist(case, obs):
    t = case["target"]
    if "defDeco" in t:
        i = t["defDeco"]["i"]
        api = case["decos"][i]["api"] if i < len(case["decos"]) else "?"
        base = t["defDeco"]["c"]["base"]
    else:
        api, base = "make_class", t["defMk"]["m"]["base"]
    defs = [s for s in case["steps"] if is_def(s)]
    return {
        "template": case.get("tpl"), "target_api": api, "target_base": base, "n_steps": len(case["steps"]),
        "n_defs": len(defs), "n_user_ops": len(case["steps"]) - len(defs), "n_decos": len(case["decos"]),
        "target_outcome": _kind(obs.get("after")) if isinstance(obs, dict) else "?",
        "hist_outcomes": ",".join(sorted({_kind(r) for r in obs.get("hist", [])})) if isinstance(obs, dict) else "?",
        "these": any(a.get("these") for a in case["decos"]), "mk_hooks": len(case["mkHooks"]),
    }


def _simplify_class(c):
    for i in range(len(c["fields"])):
        d = copy.deepcopy(c)
        del d["fields"][i]
        yield d
    for k, v in NO_OWN.items():
        if c["own"][k] != v:
            d = copy.deepcopy(c)
            d["own"][k] = v
            yield d
    for k in ("hasPre", "hasPost"):
        if c[k]:
            yield dict(c, **{k: False})
    if c["base"] != "object":
        yield dict(c, base="object")
    for i, f in enumerate(c["fields"]):
        for k, v in (("conv", False), ("nValid", 0), ("hook", "n"), ("kwOnly", False), ("metaN", 0), ("hasDefault", False)):
            if f[k] != v and f["src"] == "inline":
                d = copy.deepcopy(c)
                d["fields"][i][k] = v
                yield d


def _step_variants(st):
    if isinstance(st, dict) and "defDeco" in st:
        for c in _simplify_class(st["defDeco"]["c"]):
            yield {"defDeco": {"i": st["defDeco"]["i"], "c": c}}
    elif isinstance(st, dict) and "defMk" in st:
        m = st["defMk"]["m"]
        for k, v in (("useList", False), ("withBody", False), ("base", "object")):
            if m[k] != v:
                yield {"defMk": {"m": dict(m, **{k: v})}}
        for k, v in m["args"].items():
            if v is not None and k not in ("api", "these", "x") and v is not False:
                yield {"defMk": {"m": dict(m, args=dict(m["args"], **{k: None}))}}


def shrink(case):
    steps = case["steps"]
    for i in range(len(steps)):
        yield dict(case, steps=steps[:i] + steps[i + 1:])
    for i, st in enumerate(steps):
        for v in _step_variants(st):
            yield dict(case, steps=steps[:i] + [v] + steps[i + 1:])
    for v in _step_variants(case["target"]):
        yield dict(case, target=v)
    for i, a in enumerate(case["decos"]):
        for k, v in a.items():
            if k in ("api", "x") or v is None or v is False:
                continue
            if k == "these":
                continue
            b = dict(a, **{k: None})
            if _args_ok(b):
                yield dict(case, decos=case["decos"][:i] + [b] + case["decos"][i + 1:])
        if "x" in a:
            yield dict(case, decos=case["decos"][:i] + [{k: v for k, v in a.items() if k != "x"}] + case["decos"][i + 1:])
    for k in ("these", "mkFields", "mkHooks"):
        for i in range(len(case[k])):
            if k == "these" or k == "mkHooks" or len(case[k]) > 0:
                yield dict(case, **{k: case[k][:i] + case[k][i + 1:]})
    if case["mkBody"] != NO_OWN:
        yield dict(case, mkBody=dict(NO_OWN))


def neighbours(case, rng):
    """same decorator objects and containers, other classes before / as the target"""
    steps = case["steps"]
    for _ in range(40):
        c = copy.deepcopy(case)
        defs = [i for i, s in enumerate(steps) if isinstance(s, dict) and "defDeco" in s]
        if defs and rng.random() < 0.7:
            i = rng.choice(defs)
            c["steps"][i]["defDeco"]["c"] = _cat(rng.choice(CAT), "A", rng)
        if "defDeco" in c["target"] and rng.random() < 0.7:
            c["target"]["defDeco"]["c"] = _cat(rng.choice(SENSITIVE_B + CAT), "B", rng)
        if not c["cas"]:
            c["cas"] = [CA()]
        yield c
    yield from shrink(case)
