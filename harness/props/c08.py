"""C08 -- the slotted build is a faithful replacement and agrees with the dict build.

Three kinds of cases (the Lean side dispatches on `kind`):
  struct -- one class body x bases x decorator arguments through `_create_slots_class`; observes the new class
  isub   -- chains of dict / slotted / plain classes with `__attrs_init_subclass__` definitions
  meta   -- one initbuild class specification built twice (slots on / off), everything observable compared
"""
from __future__ import annotations

import copy
import itertools

import attr

import common
import c08_meta as cm
import c08_struct as cs
import initbuild as ib

ID = "C08"
RULE = ("struct: class bodies = items {function, classmethod, staticmethod, property(getter/setter/deleter), "
        "cached_property, wrapped function / foreign descriptor, plain attribute, user __getattr__/__setattr__/"
        "__attrs_init_subclass__}, each wrapper optionally an instance of a SUBCLASS of cached_property / property / classmethod / "
        "staticmethod x user callbacks that run DURING class construction and change the class {a field_transformer that "
        "sets new class attributes / helpers, deletes or replaces existing ones; __init_subclass__ of a plain base, the custom "
        "metaclass's __init__, __set_name__ of a foreign descriptor and the inherited __attrs_init_subclass__ each annotating the "
        "class they are given} x member naming {public key, name-mangled private key (`__q` in class C = `_C__q`), dunder-like "
        "key; function __name__ = key, an alias (assignment style `total = cached_property(_impl)`), `<lambda>`, or the name of "
        "another member / field} x closure use {__class__, super(), none} x cell sharing {compiler cell shared by all "
        "methods, private cell, the old class captured under another name, empty cell, cells holding OTHER objects of many kinds: "
        "another class, a class equal to every class, an always-equal object, unittest.mock.ANY, a never-equal object, objects "
        "whose __eq__ raises TypeError / ValueError / a BaseException-only exception, a plain value -- each must be left holding "
        "the very same object, checked by identity, and decoration must not raise} x metaclass {type, custom, ABCMeta} x api "
        "{attr.s, define, these=} x weakref_slot x cache_hash x {mutable, frozen, hooks} x base chains (<=3 + a plain mixin as second direct base, BEFORE or "
        "after the chain's class: multiple inheritance where the attrs base is direct but not __base__; plus a targeted family "
        "mixin x (un)hooked dict/slotted attrs base) of "
        "{slotted attrs, dict attrs, plain __slots__, plain, plain __slots__=('__weakref__',), Exception} with hooks, cached "
        "properties, __attrs_init_subclass__ in bases x own fields overlapping base fields / base slot names x body keys "
        "shadowing inherited fields x a body-level __slots__ x histories of cached-property reads on two instances; every inherited "
        "__attrs_init_subclass__ hook probes the class it receives AT THE TIME OF THE CALL (invokes every method / classmethod / "
        "staticmethod / property accessor / cached property that uses __class__ or super(), snapshots __slots__, dict keys, "
        "fields()); the same class object is afterwards built as a dict class and every field is assigned on both builds (hook "
        "log, outcome, value); every struct case may be preceded by 1-2 EARLIER classes (slotted or dict) built from the very same "
        "body objects (function objects, classmethod/property/cached_property wrappers, user __getattr__, attr.ib()s) -- a "
        "history the model does not see; on the class under test a failed lookup must be exactly AttributeError, hasattr False, "
        "getattr-with-default the default, copy.copy / copy.deepcopy work; base classes / the mixin (plain or attrs, slotted or not) "
        "may carry a cooperative __getattr__ fallback answering every name containing 'gq': public, underscore-led, name-mangled "
        "and dunder-like probe names must get the same answer from the slotted build as from the dict build of the same class "
        "object (lookupDiff 'fallback:<name>'); the class docstring's VALUE varies {text, '', 0, False, explicit None} and plain "
        "body attributes (also under mangled / dunder-like keys) take falsy values {0, None, '', False}: each must be carried "
        "over as the identical object. "
        "isub: every chain of <=3 (quick) / <=5 (thorough) levels over {plain, dict attrs, slotted attrs} x defines-hook, "
        "random longer ones. meta: initbuild class chains (C01/C02/C12 space) built with leaf slots on and off x call "
        "shapes (malformed included) x single-fault positions x operations x FIELD names (dunder-like `__z__`, underscore-led, machinery-sounding names, renamed "
        "consistently over the chain; struct fields include `__f__` and `_u`), incl. the history hash -> copy / deepcopy / pickle -> hash on an instance one of whose "
        "fields holds an identity-hashed object, and single-class specifications with getstate_setstate=False (x cache_hash). Non-trivial: struct = a function uses the class, "
        "a base exists or a cached property is read; isub = some level defines the hook; meta = the class has a field; "
        "distinct = distinct JSON case")
ASSUMPTIONS = [
    "CPython's class creation `type(cls)(name, bases, cd)` (name, qualname, module, doc, bases, metaclass, one member "
    "descriptor per __slots__ entry, which __dict__/__weakref__ descriptors a class with secondary bases gets) is observed on "
    "every struct case, not proved; ABCMeta's own bookkeeping keys (__abstractmethods__, _abc_impl) are not part of the body",
    "base classes are summarised by facts read from the real classes (own __slots__, __dict__/__weakref__ entries, "
    "__attrs_own_setattr__, __attrs_init_subclass__); which fields are inherited is computed from the specification (C07 "
    "checks collection); a case below an attrs-built base that already has two slots for one name is dropped (that base is "
    "itself reported when it is the class under test)",
    "functions are made from compiled templates with hand-made closure cells (and, in 'natural' cases, by a real class "
    "statement whose methods share the compiler's __class__ cell); what a function sees is read both from the cell and from "
    "calling it (super() failing with TypeError = still bound to the original class)",
    "a class definition that attrs itself refuses (exception raised from inside the attr package) for a specification the "
    "harness can otherwise define is observed as 'no class' and fails the specification; an exception from the harness's own "
    "class statements is a generator bug (tool failure)",
    "struct: the assignment comparison with the dict twin is skipped for frozen leaves (everything raises; the frozen dict twin "
    "may hit K3), for a body-level __slots__ and for body keys shadowing inherited fields; multiple inheritance is exercised in "
    "the struct and isub parts only (initbuild's chains, used by the meta part, are single-inheritance); __set_name__ of foreign "
    "descriptors being re-run for the new class is observed as a runtime fact; ABCMeta abstract-method bookkeeping is not probed",
    "struct: the Lean `body` is the class dict as the builder copies it, i.e. after the field_transformer ran (the harness "
    "predicts it by applying the hook's operations to a copy of the original class dict); what the hook deleted must stay "
    "deleted, the inherited hook's mark must be on the returned class, and every callback-made attribute must be the same "
    "object on the slotted class and on the dict build of the same class object (callbackDiff, observed)",
    "struct: wrapper subclasses are harness-only variation (the build special-cases by isinstance, the model by item kind); "
    "subclasses of attrs's own _CountingAttr are NOT exercised: attrs recognises fields by exact type on purpose",
    "meta: getstate_setstate=False is generated only for single, non-frozen, hook-free, non-exception classes and pickled with "
    "protocols >= 2 -- elsewhere the option by itself makes the builds differ (K11 of C10: protocols 0/1 refuse __slots__ "
    "without __getstate__, frozen slotted instances cannot be restored, default restoring runs setattr hooks, an inherited pair "
    "loses fields)",
    "struct: member naming (mangled / dunder-like keys, function __name__ different from the key) is harness-only variation: the "
    "model is a function of the body's keys and item kinds and never sees a function's __name__",
    "struct: what an 'other' closure cell holds is harness-only variation: the model (and C08_cells_exact) says every cell not "
    "holding the original class is untouched whatever it holds, so the object kinds need no counterpart in the Lean CellVal",
    "struct: the base-class __getattr__ fallback and the docstring's value are harness-only variation: the model never sees "
    "them (it says lookupDiff = [] and every non-special class-dict entry is the same object, whatever its value); the fallback "
    "comparison is an observed relation between the slotted class and the dict build of the same class object",
    "struct: the earlier classes of a case's history are context only (their own defects are reported when they are the class "
    "under test); the Lean model is a function of the class under test alone, so any influence of the history is a violation or a "
    "disagreement; hasattr / getattr-default / copy / deepcopy are observed consequences of 'unknown attribute -> AttributeError'",
    "meta: construction is compared with the shared initializer model (C08_metamorphic is proved about it); ==, hash pattern, "
    "ordering, repr, assignment and deletion (hook traces), evolve, asdict/astuple, copy/deepcopy/pickle (protocols 0-5) are "
    "compared between the two builds directly: an observed relation (their models live in C03/C04/C06/C09-C13)",
    "meta: the two builds differ only in the leaf's `slots`. Not compared: serialization of instances with unset fields "
    "(C10's precondition) and of exception classes (BaseException.__reduce__, not attrs, copies them); hash and "
    "serialization when the dict build is a frozen caching class below a slotted caching class (K2 of C04/C10); evolve on "
    "a leaf with init=False (cls(...) then runs an inherited __init__; out of scope as in C12). The "
    "'slotted confused' shape (hooked attrs class <- plain class <- leaf) IS generated: it is known finding K6 here, recognised "
    "from the __attrs_own_setattr__ flags along the leaf's MRO. getstate_setstate=False on "
    "slotted classes (K11 of C10) is not generated there",
]
EXHAUSTIVE = {"quick": False, "thorough": False}
BUDGET_S = {"quick": 26, "thorough": 380}
PARALLEL = True
LEVEL_TEXT = "see below"

FIELD_POOL = ["x", "y", "z", "w", "__f__", "_u"]
OTHER_KINDS = ["class", "class", "anyeq", "anyeq", "mock_any", "nevereq", "eq_typeerror", "eq_valueerror", "eq_baseexc",
               "eqclass", "value"]
SLOT_POOL = ["x", "y", "s1", "s2"]


# ------------------------------------------------------------------------------------------ struct generator
def _fnspec(rng, natural, cell_pool, role, p_use=0.65):
    uses = rng.random() < p_use
    use = None
    if uses:
        use = "cls" if role == "sm" else rng.choice(["cls", "super"])
    if natural:
        return {"cells": [0] if uses else [], "uses": uses, "use": use}
    olds = [i for i, v in cell_pool if v == "old"]
    cells = []
    if uses:
        cells.append(rng.choice([0, 0, 0] + olds))
    if rng.random() < 0.4:
        ids = [i for i, _ in cell_pool]
        extra = rng.sample(ids, min(len(ids), rng.choice([1, 1, 2, 3])))
        cells += [i for i in extra if i not in cells]
    return {"cells": cells, "uses": uses, "use": use}


def gen_struct(rng):
    hs = {"name": rng.choice(["C", "Klass"])}
    hs["meta"] = rng.choice(["type", "type", "custom", "abc"])
    hs["api"] = rng.choice(["attr.s", "attr.s", "define", "these"])
    natural = hs["natural"] = rng.random() < 0.35
    mode = rng.choice(["none", "none", "none", "frozen", "hooks"])
    hs["frozen"] = mode == "frozen"
    hs["hook"] = mode == "hooks"
    hs["weakref_slot"] = rng.random() < 0.6
    hs["cache_hash"] = rng.random() < 0.15
    hs["doc"] = rng.random() < 0.5
    # the docstring's VALUE (harness-only): text, the empty string, other falsy objects, an explicit None
    hs["doc_kind"] = rng.choice(["text", "text", "empty", "empty", "zero", "false", "none"])
    hs["qualname"] = rng.choice([None, None, "Outer.<locals>.Inner"])
    # ---- bases
    bases = []
    nb = rng.choice([0, 1, 1, 2, 2, 3])
    weak = False           # instances of the chain so far are weak-referenceable
    slotted_names = set()  # names that already have a slot somewhere in the chain
    attrs_fields = []      # fields of attrs bases so far
    any_attrs_field = False
    for i in range(nb):
        kind = rng.choice(["sattrs", "sattrs", "dattrs", "pslots", "pdict", "pweak"] + (["exc"] if i == 0 else []))
        bs = {"kind": kind}
        if kind == "exc":
            bases.append(bs)
            continue
        if kind == "pweak" and weak:
            kind = bs["kind"] = "pslots"
        if kind in ("sattrs", "dattrs"):
            bs["fields"] = rng.sample(FIELD_POOL, rng.choice([0, 1, 1, 2]))
            bs["weakref_slot"] = rng.random() < 0.5
            bs["cache_hash"] = rng.random() < 0.1
            if rng.random() < 0.3:
                bs["cprops"] = [f"bcp{i}"]
            if rng.random() < 0.3 and (bs["fields"] or attrs_fields):
                bs["hook"] = True       # class-level on_setattr: an attrs-made __setattr__ the subclass must reset
            for f in bs["fields"]:
                if f not in attrs_fields:
                    attrs_fields.append(f)
            if kind == "sattrs":
                slotted_names.update(bs["fields"])
                if bs["weakref_slot"]:
                    weak = True
            else:
                weak = True
        elif kind == "pslots":
            cand = [n for n in SLOT_POOL if n not in slotted_names]
            bs["slots"] = rng.sample(cand, min(len(cand), rng.choice([0, 1, 1, 2])))
            slotted_names.update(bs["slots"])
        elif kind == "pweak":
            weak = True
        elif kind == "pdict":
            weak = True
        if rng.random() < 0.25:
            bs["isub"] = True
        if rng.random() < 0.2:
            bs["isc"] = True        # an __init_subclass__ that annotates every subclass (original and replacement)
        if rng.random() < 0.3:
            bs["getattr"] = True    # a cooperative __getattr__ fallback answering names that contain 'gq'
        bases.append(bs)
    if bases and bases[0]["kind"] == "exc":        # hash caching is refused on exception classes
        hs["cache_hash"] = False
        for bs in bases:
            bs["cache_hash"] = False
    hs["bases"] = bases
    hs["mixin"] = None
    if rng.random() < 0.25:
        # a second direct base, before or after the chain's last class (multiple inheritance: the attrs base is
        # then a direct base without being `__base__`)
        hs["mixin"] = {"kind": rng.choice(["pempty", "pdict"]), "isub": rng.random() < 0.4,
                       "first": rng.random() < 0.5}
        if rng.random() < 0.25:
            hs["mixin"]["getattr"] = True
        if hs["mixin"]["kind"] == "pdict":
            weak = True
    # class-level hooks in a base are written with attr.s(on_setattr=...): realised in build_bases through a field hook
    # ---- own fields
    nf = rng.choice([0, 1, 1, 2, 3])
    pool = list(FIELD_POOL)
    # bias towards overlaps with base fields / base slot names
    own = []
    for _ in range(nf):
        cands = [n for n in pool if n not in own]
        pref = [n for n in cands if n in slotted_names or n in attrs_fields]
        own.append(rng.choice(pref) if pref and rng.random() < 0.6 else rng.choice(cands))
    if hs["hook"] and not own:
        own = [rng.choice(pool)]
    hs["fields"] = own
    inherited = [f for f in cs.inherited_names({"fields": own, "bases": bases})]
    # ---- body-level __slots__
    hs["body_slots"] = None
    if not bases and not hs["mixin"] and rng.random() < 0.12:
        hs["body_slots"] = rng.choice([[], ["__weakref__"]])
    # ---- cells
    if natural:
        cell_pool = [[0, "old"]]
    else:
        cell_pool = [[0, "old"], [1, "old"], [2, "other"], [3, "empty"], [4, "old"], [5, "other"], [6, "other"]]
        rng.shuffle(cell_pool)
        cell_pool = cell_pool[: rng.choice([1, 3, 5, 7])]
        if not any(i == 0 for i, _ in cell_pool):
            cell_pool.append([0, "old"])
    # ---- items
    items = []
    n_items = rng.choice([0, 1, 2, 3, 4, 5])
    names = [f"m{i}" for i in range(8)]
    shadow = [n for n in inherited]     # body keys equal to inherited field names are dropped by the build
    cp_count = 0
    for j in range(n_items):
        kind = rng.choice(["fn", "fn", "cm", "sm", "prop", "prop", "cprop", "opaque", "plain"])
        key = names[j]
        if shadow and rng.random() < 0.12 and kind in ("fn", "plain", "prop"):
            key = shadow.pop()
        if kind == "plain":
            items.append([key, {"k": "plain", "value": rng.choice([0, "s", None, "", False])}])
        elif kind == "prop":
            spec = {"k": "prop"}
            spec["fget"] = _fnspec(rng, natural, cell_pool, "fget", 0.5) if rng.random() < 0.85 else None
            spec["fset"] = _fnspec(rng, natural, cell_pool, "fset", 0.5) if rng.random() < 0.6 else None
            spec["fdel"] = _fnspec(rng, natural, cell_pool, "fdel", 0.5) if rng.random() < 0.35 else None
            items.append([key, spec])
        elif kind == "cprop":
            if cp_count >= 2:
                continue
            key = f"cp{cp_count}"
            cp_count += 1
            items.append([key, {"k": "cprop", "f": _fnspec(rng, natural, cell_pool, "cprop", 0.5)}])
        elif kind == "opaque":
            items.append([key, {"k": "opaque", "opq": rng.choice(["wraps", "descr"]),
                                "f": _fnspec(rng, natural, cell_pool, "opaque", 0.7)}])
        else:
            items.append([key, {"k": kind, "f": _fnspec(rng, natural, cell_pool, kind)}])
    # unusual member names (harness-only: the model sees body keys, never function names): name-mangled private
    # and dunder-like keys; functions whose __name__ is not the key they are bound to (alias / assignment style,
    # lambda, or the name of ANOTHER member or field)
    renamed = {}
    for j, (key, spec) in enumerate(items):
        if key in inherited:
            continue
        r = rng.random()
        if r < 0.15:
            renamed[key] = f"_{hs['name']}__q{j}"
        elif r < 0.25:
            renamed[key] = f"__d{j}__"
    items = [[renamed.get(k, k), sp] for k, sp in items]
    taken = [k for k, _ in items] + own + inherited
    for key, spec in items:
        if spec["k"] == "plain":
            continue
        # the member object may be an instance of a SUBCLASS of the type the build special-cases
        if spec["k"] in ("cprop", "prop", "cm", "sm") and rng.random() < 0.3:
            spec["sub"] = True
        r = rng.random()
        if r < 0.25:
            spec["fname"] = "alias"
        elif r < 0.31:
            spec["fname"] = "lambda"
        elif r < 0.40 and any(t != key for t in taken):
            spec["fname"] = "collide:" + rng.choice([t for t in taken if t != key])
    user_getattr = rng.random() < 0.25
    if user_getattr:
        items.append(["__getattr__", {"k": "fn", "f": _fnspec(rng, natural, cell_pool, "getattr", 0.5)}])
    if rng.random() < 0.15:
        items.append(["__attrs_init_subclass__", {"k": "cm", "f": _fnspec(rng, natural, cell_pool, "cm", 0.5)}])
    hs["custom_setattr"] = False
    if mode == "none" and rng.random() < 0.15:
        hs["custom_setattr"] = True
        items.append(["__setattr__", {"k": "fn", "f": {"cells": [], "uses": False, "use": None}}])
    if hs["api"] == "these" and own and rng.random() < 0.5:
        items.append([own[0], {"k": "plain", "value": 5}])
    rng.shuffle(items)
    hs["items"] = items
    used = set()
    for _, spec in items:
        for _, _, fs in cs._parts(spec):
            used.update(fs["cells"])
    if natural:
        hs["cells"] = [[0, "old"]] if 0 in used else []
    else:
        hs["cells"] = sorted([c for c in cell_pool if c[0] in used or rng.random() < 0.5])
    # what the "other" cells hold (harness-only: the build must leave every such cell holding that very object,
    # whatever its __eq__ says or raises)
    hs["cell_objs"] = {str(c[0]): rng.choice(OTHER_KINDS) for c in hs["cells"] if c[1] == "other"}
    # ---- cached-property history
    avail = [k for k, s in items if s["k"] == "cprop" and k not in inherited and k not in own]
    for bs in bases:
        if bs.get("cprops") and (bs["kind"] == "dattrs" or not user_getattr):
            avail += bs["cprops"]
    acc = []
    if avail:
        for _ in range(rng.choice([0, 1, 2, 3, 4, 6])):
            acc.append([rng.choice([0, 0, 1]), rng.choice(avail)])
    hs["accesses"] = acc
    # a field_transformer that annotates the class it is handed: sets new class attributes / helpers, deletes or
    # replaces existing ones (the builder copies the class dict after it ran, so this is part of the body)
    hs["ft"] = []
    if rng.random() < 0.25:
        special = {"__getattr__", "__setattr__", "__attrs_init_subclass__"}
        elig = [k for k, sp in items if sp["k"] in ("fn", "cm", "sm", "plain", "opaque") and k not in special
                and k not in own and k not in inherited]
        for j in range(rng.choice([1, 2, 3])):
            r = rng.random()
            if r < 0.55 or not elig:
                hs["ft"].append(["set", f"ft{j}", rng.choice(["plain", "fn", "cm"])])
            else:
                k = elig.pop(rng.randrange(len(elig)))
                hs["ft"].append(["del", k] if r < 0.8 else ["over", k, rng.choice(["plain", "fn"])])
    # earlier classes built from the same body objects (harness-only: the model does not see them)
    p_hist = 0.6 if cp_count else 0.3
    hs["history"] = [rng.choice(["slots", "slots", "dict"]) for _ in range(rng.choice([1, 1, 2]))] if rng.random() < p_hist else []
    return hs


def gen_struct_mi(rng):
    """targeted: two direct bases = a plain mixin and a (hooked or not) attrs class, either order; the leaf writes
    no __setattr__ of its own, so whether the inherited attrs-made one is reset decides what an assignment does"""
    hs = gen_struct(rng)
    kind = rng.choice(["dattrs", "dattrs", "sattrs"])
    fields = rng.sample(FIELD_POOL, rng.choice([1, 1, 2]))
    base = {"kind": kind, "fields": fields, "weakref_slot": rng.random() < 0.5, "cache_hash": False,
            "hook": rng.random() < 0.75}
    if rng.random() < 0.3:
        base["isub"] = True
    pre = []
    if rng.random() < 0.3:
        pre = [{"kind": rng.choice(["pdict", "dattrs"]), "fields": [], "weakref_slot": True, "cache_hash": False}]
        if pre[0]["kind"] == "pdict":
            pre[0].pop("fields")
    hs["bases"] = pre + [base]
    hs["mixin"] = {"kind": rng.choice(["pempty", "pdict"]), "isub": rng.random() < 0.3, "first": rng.random() < 0.65}
    hs["frozen"] = False
    hs["hook"] = rng.random() < 0.15
    hs["cache_hash"] = False
    hs["body_slots"] = None
    hs["fields"] = [f for f in hs["fields"] if f not in fields][:2]
    if hs["hook"] and not hs["fields"]:
        hs["fields"] = [next(f for f in FIELD_POOL if f not in fields)]
    inherited = set(fields)
    hs["items"] = [[k, sp] for k, sp in hs["items"] if k not in inherited and k not in hs["fields"]]
    hs["custom_setattr"] = any(k == "__setattr__" for k, _ in hs["items"])
    if hs["custom_setattr"]:
        hs["hook"] = False
    _repair(hs)
    return hs


def struct_case(hs):
    case = cs.lean_case(hs)
    case["kind"] = "struct"
    case["hs"] = hs
    return case


EMPTY_STRUCT = {"kind": "struct", "body": [], "cells": [], "own": [], "inherited": [], "mro": [], "bodySlots": None,
                "weakrefSlot": True, "cacheHash": False, "setattrMode": "none", "customSetattr": False, "accesses": []}


def bases_consistent(case):
    """the well-formedness condition that depends on classes built by the code under test: no two classes of
    the MRO declare a slot for the same own field.  An attrs-built base that violates it is itself reported
    when it is the class under test; a case *below* such a base is dropped instead of being a tool failure."""
    for f in case["own"]:
        if sum(1 for b in case["mro"] if b["slots"] is not None and f in b["slots"]) > 1:
            return False
    return True


# ------------------------------------------------------------------------------------------ isub
LEVELS = [{"attrs": a, "slots": s, "defines": d} for a, s in ((False, False), (True, False), (True, True)) for d in (False, True)]


def isub_case(chain, rng):
    return {"kind": "isub", "chain": [dict(l) for l in chain],
            "cfg": {"api": rng.choice(["attr.s", "define"]), "fields": rng.random() < 0.6, "frozen": rng.random() < 0.2}}


ISUB_LOG: list = []
_ISUB_SRC: dict = {}


def _isub_hook_body(k, cls):
    """runs INSIDE the hook: is the class it received finished?  (methods bound to it, dict final)"""
    ok = True
    try:
        inst = cls()
        if inst.who() is not cls:            # __class__ of a method of the received class
            ok = False
        cls.sup()                            # zero-argument super() in a classmethod
        inst.sup_i()                         # ... and in a method
        if cls.stat() is not cls:            # __class__ in a staticmethod
            ok = False
        if inst.prop is not cls:
            ok = False
        cls.prop.fset(inst, 1)               # the setter uses super()
    except BaseException:  # noqa: BLE001
        ok = False
    if "__attrs_attrs__" not in cls.__dict__:
        ok = False
    ISUB_LOG.append((k, cls, ok, ("__slots__" in cls.__dict__)))


def _isub_class(k, base, defines, fields):
    key = (k, defines, fields)
    code = _ISUB_SRC.get(key)
    if code is None:
        src = [f"class L{k}(_base):"]
        if fields:
            src.append(f"    f{k} = attr.ib(default={k})")
        src += ["    def who(self): return __class__",
                "    @classmethod",
                "    def sup(cls): super(); return True",
                "    def sup_i(self): super(); return True",
                "    @staticmethod",
                "    def stat(): return __class__",
                "    @property",
                "    def prop(self): return __class__",
                "    @prop.setter",
                "    def prop(self, v): super()"]
        if defines:
            src += ["    @classmethod", f"    def __attrs_init_subclass__(cls): _HOOK({k}, cls)"]
        code = _ISUB_SRC[key] = compile("\n".join(src), f"<c08 isub L{k}>", "exec")
    ns = {"_base": base, "attr": attr, "_HOOK": _isub_hook_body, "__name__": "verif_c08"}
    exec(code, ns)
    return ns[f"L{k}"]


def observe_isub(case):
    del ISUB_LOG[:]
    finals = []
    base = object
    cfg = case.get("cfg", {})
    for k, lvl in enumerate(case["chain"]):
        cls = _isub_class(k, base, bool(lvl["defines"]), bool(lvl["attrs"] and cfg.get("fields")))
        if lvl["attrs"]:
            kw = {"slots": bool(lvl["slots"])}
            if cfg.get("frozen"):
                kw["frozen"] = True
            try:
                if cfg.get("api") == "define":
                    import attrs
                    cls = attrs.define(**kw)(cls)
                else:
                    cls = attr.s(**kw)(cls)
            except Exception as e:  # noqa: BLE001
                if not cs.attrs_caused(e):
                    raise
                del ISUB_LOG[:]
                return {"calls": [{"definer": 999, "received": 999, "final": False, "probe": False}]}    # no class at all
        finals.append(cls)
        base = cls
    calls = []
    for d, got, ok, has_slots in ISUB_LOG:
        rec = None
        for j, f in enumerate(finals):
            if got is f:
                ok = ok and has_slots == bool(case["chain"][j]["attrs"] and case["chain"][j]["slots"])
                rec = {"definer": d, "received": j, "final": True, "probe": bool(ok)}
        if rec is None:
            name = getattr(got, "__name__", "")
            j = int(name[1:]) if name[:1] == "L" and name[1:].isdigit() else 999
            rec = {"definer": d, "received": j, "final": False, "probe": bool(ok)}
        calls.append(rec)
    del ISUB_LOG[:]
    return {"calls": calls}


# ------------------------------------------------------------------------------------------ meta
def gen_ops(rng, h):
    fields = ib.expected_fields(h)
    calls = [ib.gen_call(rng, h, malformed=0.0) for _ in range(rng.choice([1, 2, 2, 3]))]
    if len(calls) > 1 and rng.random() < 0.5:
        calls[1] = copy.deepcopy(calls[0])       # an equal twin
    assign = [[f["name"], 0] for f in fields if rng.random() < 0.7][:3]
    init_fields = [f for f in fields if f.get("init", True)]
    evolve = []
    if init_fields and rng.random() < 0.8:
        f = rng.choice(init_fields)
        evolve.append([0, [[f.get("alias") or ib.default_alias(f["name"]), "n1"]]])
    if rng.random() < 0.3:
        evolve.append([0, []])
    return {"calls": calls, "assign": assign, "evolve": evolve,
            "protocols": rng.choice([[2], [0, 2], [1, 4], [5], [0, 1, 2, 3, 4, 5]])}


UNUSUAL_FIELD_NAMES = ["__z__", "__v__", "_q", "__state__", "_slots", "__x_y__"]


def rename_fields(h, rng):
    """FIELD names as a dimension: dunder-like, underscore-led, machinery-sounding names (consistently over the
    whole chain, so inherited / re-declared fields stay the same fields).  A merely private `__z` is left out: its
    slot name is mangled by type() and the slotted class cannot be instantiated on any tree."""
    names = []
    for c in h["classes"]:
        for f in c.get("fields", []):
            if f["name"] not in names and f["name"] not in ("_p", "p"):
                names.append(f["name"])
    if not names:
        return
    mapping = {}
    pool = list(UNUSUAL_FIELD_NAMES)
    rng.shuffle(pool)
    for old in rng.sample(names, min(len(names), rng.choice([1, 1, 2]))):
        mapping[old] = pool.pop()
    for c in h["classes"]:
        for f in c.get("fields", []):
            if f["name"] in mapping:
                f["name"] = mapping[f["name"]]
                if f.get("conv_prime") in mapping:
                    f["conv_prime"] = mapping[f["conv_prime"]]


def gen_meta(rng, n_faults=2):
    h = ib.gen_hspec(rng)
    if rng.random() < 0.3:
        rename_fields(h, rng)
    for c in h["classes"]:
        if c["kind"] == "attrs" and not c.get("cache_hash") and rng.random() < 0.4:
            c["unsafe_hash"] = True
    # the generated pickle pair switched off (both builds then use the default protocol): only where that option does
    # not by itself make the builds differ (K11 of C10: protocols 0/1 refuse __slots__ without __getstate__, frozen
    # slotted instances cannot be restored, default restoring goes through setattr and would run hooks)
    leaf = h["classes"][-1]
    gs_off = False
    if (len(h["classes"]) == 1 and rng.random() < 0.4 and not leaf.get("exc_base") and not ib.leaf_frozen(h)
            and leaf.get("api") in ("attr.s", "these", "make_class")
            and leaf.get("cls_on_setattr", "unset") in ("unset", "noop")
            and all(f.get("on_setattr", "unset") in ("unset", "noop") for f in leaf.get("fields", []))):
        leaf["getstate_setstate"] = False
        gs_off = True
        if rng.random() < 0.6 and leaf.get("init") is not False:
            leaf["cache_hash"] = True          # the cached hash is then part of what the default protocol copies
            leaf["unsafe_hash"] = True
    try:
        ib.build(cm.toggled(h, False))
    except Exception:  # noqa: BLE001 -- the specification itself does not define: not a case
        return
    ops = gen_ops(rng, h)
    if gs_off:
        ops["protocols"] = [p for p in ops["protocols"] if p >= 2] or [2]
    call = ib.gen_call(rng, h, malformed=0.2)
    yield cm.make_case(h, call, None, ops)
    # single faults at positions of the fault-free trace (only for well-formed calls)
    _, obs = ib.construct(cm.toggled(h, False), call, None, True)
    if obs["exc"] is None and obs["trace"]:
        evs = obs["trace"]
        for e in rng.sample(evs, min(n_faults, len(evs))):
            i = e["id"]
            yield cm.make_case(h, call, [i["kind"], i["field"], i["idx"]], ops)
    if rng.random() < 0.15 and obs["exc"] is None:
        h2 = dict(h, validators_enabled=False)
        yield cm.make_case(h2, call, None, ops)


# ------------------------------------------------------------------------------------------ API
def gen_cases(tier, rng):
    quick = tier == "quick"
    # isub: exhaustive small chains, then random longer ones
    kmax = 3 if quick else 5
    for k in range(1, kmax + 1):
        for chain in itertools.product(LEVELS, repeat=k):
            yield isub_case(chain, rng)
    for _ in range(300 if quick else 20000):
        yield isub_case([rng.choice(LEVELS) for _ in range(rng.choice([4, 5, 6, 7]))], rng)
    # struct and meta interleaved so that a budget cut keeps both
    n = 2600 if quick else 120000
    for i in range(n):
        for j in range(3):
            hs = gen_struct_mi(rng) if (j == 2 and i % 3 == 0) else gen_struct(rng)
            try:
                case = struct_case(hs)
            except Exception as e:  # noqa: BLE001 -- the generator emits only definable classes
                if cs.attrs_caused(e):
                    # attrs refused to build one of the *bases*: reported through a minimal case whose
                    # observation is "no class"
                    yield dict(EMPTY_STRUCT, hs=hs)
                else:
                    yield {"kind": "struct", "__gen_error__": f"{type(e).__name__}: {e}", "hs": hs}
                continue
            if bases_consistent(case):
                yield case
        yield from gen_meta(rng)
        if i % 500 == 499:
            common.purge_linecache()


def observe(case):
    if "__gen_error__" in case:
        raise RuntimeError("class spec did not define: " + case["__gen_error__"])
    k = case["kind"]
    if k == "struct":
        return cs.observe(case["hs"])
    if k == "isub":
        return observe_isub(case)
    return cm.observe(case)


def nontrivial(case, model):
    k = case["kind"]
    if k == "struct":
        hs = case["hs"]
        return bool(hs["bases"]) or bool(hs["accesses"]) or any(
            fs["uses"] for _, s in hs["items"] for _, _, fs in cs._parts(s))
    if k == "isub":
        return any(l["defines"] for l in case["chain"])
    return bool(case["on"]["run"]["attrs"])


def dist(case, obs):
    k = case["kind"]
    d = {"kind": k}
    if k == "struct":
        hs = case["hs"]
        d.update({
            "s.meta": hs["meta"], "s.api": hs["api"], "s.natural": hs["natural"],
            "s.mode": "frozen" if hs["frozen"] else "hooks" if hs["hook"] else "none",
            "s.bases": "+".join(b["kind"] for b in hs["bases"]) or "-",
            "s.mixin": ((hs["mixin"] or {}).get("kind") or "-") + ("/first" if (hs["mixin"] or {}).get("first") else ""),
            "s.assignAgree": obs.get("assignAgree") if isinstance(obs, dict) else "?",
            "s.history": "+".join(hs.get("history", [])) or "-",
            "s.ft": "+".join(op[0] for op in hs.get("ft") or []) or "-",
            "s.other_cells": "+".join(sorted(set((hs.get("cell_objs") or {}).values()))) or "-",
            "s.hookCalls": len(obs.get("hookCalls", [])) if isinstance(obs, dict) else "?",
            "s.n_items": len(hs["items"]), "s.n_fields": len(hs["fields"]),
            "s.item_kinds": "+".join(sorted({s["k"] for _, s in hs["items"]})) or "-",
            "s.weakref_slot": hs["weakref_slot"], "s.cache_hash": hs["cache_hash"],
            "s.body_slots": str(hs["body_slots"]),
            "s.cprops": sum(1 for _, s in hs["items"] if s["k"] == "cprop"),
            "s.user_getattr": any(k2 == "__getattr__" for k2, _ in hs["items"]),
            "s.accesses": len(hs["accesses"]),
            "s.reused": len(obs.get("reused", [])) if isinstance(obs, dict) else "?",
            "s.stale_calls": sum(1 for _l, v in obs.get("calls", []) if v != "new") if isinstance(obs, dict) else "?",
            "s.hasDict": obs.get("hasDict") if isinstance(obs, dict) else "?",
            "s.weakrefable": obs.get("weakrefable") if isinstance(obs, dict) else "?",
            "s.reset": obs.get("setattrReset") if isinstance(obs, dict) else "?",
            "s.isub": len(obs.get("initSubclass", [])) if isinstance(obs, dict) else "?",
        })
    elif k == "isub":
        d.update({"i.len": len(case["chain"]), "i.calls": len(obs.get("calls", [])) if isinstance(obs, dict) else "?"})
    else:
        r = case["on"]["run"]
        leaf = case["h"]["classes"][-1]
        d.update({
            "m.depth": len(case["h"]["classes"]), "m.api": leaf.get("api"), "m.n_fields": len(r["attrs"]),
            "m.frozen": r["cfg"]["frozen"], "m.cache_hash": r["cfg"]["cacheHash"], "m.is_exc": r["cfg"]["isExc"],
            "m.fault": (case.get("fault") or ["none"])[0],
            "m.getstate_setstate": str(leaf.get("getstate_setstate")),
            "m.exc": obs.get("on", {}).get("exc") if isinstance(obs, dict) else "?",
            "m.base_kinds": "+".join(("S" if ib.leaf_slots(c) else "D") if c["kind"] == "attrs" else "P"
                                     for c in case["h"]["classes"][:-1]) or "-",
            "m.diff": "+".join(obs.get("diff", [])) if isinstance(obs, dict) else "?",
        })
    return d


def _restruct(hs):
    try:
        case = struct_case(hs)
    except Exception:  # noqa: BLE001
        return None
    return case if bases_consistent(case) else None


def shrink(case):
    k = case["kind"]
    if k == "struct":
        hs = case["hs"]
        cands = []
        for i in range(len(hs["items"])):
            h2 = copy.deepcopy(hs)
            del h2["items"][i]
            cands.append(h2)
        for i in range(len(hs["bases"])):
            h2 = copy.deepcopy(hs)
            del h2["bases"][i]
            cands.append(h2)
        for i in range(len(hs["fields"])):
            h2 = copy.deepcopy(hs)
            del h2["fields"][i]
            cands.append(h2)
        for key, v in (("mixin", None), ("meta", "type"), ("api", "attr.s"), ("natural", False), ("frozen", False),
                       ("hook", False), ("cache_hash", False), ("doc", False), ("qualname", None), ("accesses", []),
                       ("weakref_slot", True), ("body_slots", None), ("history", []), ("ft", []), ("doc_kind", "text")):
            if hs.get(key) != v:
                h2 = copy.deepcopy(hs)
                h2[key] = v
                cands.append(h2)
        for i, bs in enumerate(hs["bases"]):
            for key in ("isub", "hook", "cprops", "cache_hash", "getattr", "isc"):
                if bs.get(key):
                    h2 = copy.deepcopy(hs)
                    h2["bases"][i].pop(key)
                    cands.append(h2)
        used_cells = {c for _, spec in hs["items"] for _, _, fs in cs._parts(spec) for c in fs["cells"]}
        if any(c[0] not in used_cells for c in hs["cells"]):
            h2 = copy.deepcopy(hs)
            h2["cells"] = [c for c in hs["cells"] if c[0] in used_cells]
            cands.append(h2)
        if len(hs.get("ft") or []) > 1:
            for i in range(len(hs["ft"])):
                h2 = copy.deepcopy(hs)
                del h2["ft"][i]
                cands.append(h2)
        for i, (_k, sp) in enumerate(hs["items"]):
            if sp.get("sub"):
                h2 = copy.deepcopy(hs)
                h2["items"][i][1].pop("sub")
                cands.append(h2)
        for i, (_k, sp) in enumerate(hs["items"]):
            if sp.get("fname"):
                h2 = copy.deepcopy(hs)
                h2["items"][i][1].pop("fname")
                cands.append(h2)
        for cid, kind in (hs.get("cell_objs") or {}).items():
            if kind != "class":
                h2 = copy.deepcopy(hs)
                h2["cell_objs"][cid] = "class"
                cands.append(h2)
        if len(hs.get("history", [])) > 1:
            for i in range(len(hs["history"])):
                h2 = copy.deepcopy(hs)
                del h2["history"][i]
                cands.append(h2)
        if len(hs["accesses"]) > 1:
            for i in range(len(hs["accesses"])):
                h2 = copy.deepcopy(hs)
                del h2["accesses"][i]
                cands.append(h2)
        for h2 in cands:
            _repair(h2)
            c2 = _restruct(h2)
            if c2 is not None:
                yield c2
    elif k == "isub":
        ch = case["chain"]
        for i in range(len(ch)):
            if len(ch) > 1:
                yield dict(case, chain=ch[:i] + ch[i + 1:])
        for i, l in enumerate(ch):
            for key in ("slots", "defines"):
                if l[key]:
                    yield dict(case, chain=ch[:i] + [dict(l, **{key: False})] + ch[i + 1:])
    else:
        h = case["h"]
        ops = case["ops"]
        for key in ("assign", "evolve"):
            if ops.get(key):
                yield from _remeta(h, case, dict(ops, **{key: []}))
        if len(ops["calls"]) > 1:
            yield from _remeta(h, case, dict(ops, calls=ops["calls"][:1]))
        if ops.get("protocols") != [2]:
            yield from _remeta(h, case, dict(ops, protocols=[2]))
        for ci, c in enumerate(h["classes"]):
            for fi in range(len(c.get("fields", []))):
                h2 = copy.deepcopy(h)
                del h2["classes"][ci]["fields"][fi]
                yield from _remeta(h2, case, ops)
        if len(h["classes"]) > 1:
            for ci in range(len(h["classes"]) - 1):
                h2 = copy.deepcopy(h)
                eb = h2["classes"][0].get("exc_base")
                del h2["classes"][ci]
                h2["classes"][0]["exc_base"] = eb
                yield from _remeta(h2, case, ops)
        for ci, c in enumerate(h["classes"]):
            if c["kind"] != "attrs":
                continue
            for key, v in (("kw_only", False), ("cache_hash", False), ("pre", "none"), ("post", False),
                           ("cls_on_setattr", "unset"), ("api", "attr.s"), ("frozen", False)):
                if c.get(key) != v:
                    h2 = copy.deepcopy(h)
                    h2["classes"][ci][key] = v
                    if key == "cache_hash":
                        h2["classes"][ci].pop("unsafe_hash", None)
                    yield from _remeta(h2, case, ops)
            for fi, f in enumerate(c.get("fields", [])):
                for key, v in (("converter", None), ("validators", 0), ("alias", None), ("on_setattr", "unset"),
                               ("kw_only", False), ("type", None), ("default", "value")):
                    if f.get(key) != v:
                        h2 = copy.deepcopy(h)
                        h2["classes"][ci]["fields"][fi][key] = v
                        yield from _remeta(h2, case, ops)


def _remeta(h2, case, ops):
    try:
        ib.build(cm.toggled(h2, False))
        call = case["on"]["call"]
        names = {f.get("alias") or ib.default_alias(f["name"]) for f in ib.expected_fields(h2) if f.get("init", True)}
        call = {"pos": call["pos"], "kw": [kv for kv in call["kw"] if kv[0] in names or kv[0] == "nope"]}
        ops2 = dict(ops, assign=[a for a in ops.get("assign", []) if a[0] in {f["name"] for f in ib.expected_fields(h2)}],
                    evolve=[e for e in ops.get("evolve", []) if all(kv[0] in names for kv in e[1])])
        c2 = cm.make_case(h2, call, case.get("fault"), ops2)
    except Exception:  # noqa: BLE001
        return
    yield c2
    if case.get("fault"):
        try:
            yield cm.make_case(h2, call, None, ops2)
        except Exception:  # noqa: BLE001
            return


def _repair(hs):
    """keep a shrunk struct spec inside the generator's invariants"""
    own = set(hs["fields"])
    if hs.get("hook") and not hs["fields"]:
        hs["hook"] = False
    if hs.get("bases") or hs.get("mixin"):
        hs["body_slots"] = None
    if hs.get("bases") and any(b["kind"] == "exc" for b in hs["bases"][1:]):
        hs["bases"] = [b for i, b in enumerate(hs["bases"]) if b["kind"] != "exc" or i == 0]
    used = set()
    for _, spec in hs["items"]:
        for _, _, fs in cs._parts(spec):
            used.update(fs["cells"])
    have = {c[0] for c in hs["cells"]}
    for u in sorted(used - have):
        hs["cells"].append([u, "old"])
    if hs.get("natural"):
        hs["cells"] = [[0, "old"]] if 0 in used else []
    hs["cell_objs"] = {str(c[0]): (hs.get("cell_objs") or {}).get(str(c[0]), "class") for c in hs["cells"] if c[1] == "other"}
    keys_now = {k for k, _ in hs["items"]}
    hs["ft"] = [op for op in (hs.get("ft") or []) if op[0] == "set" or op[1] in keys_now]
    inherited = set(cs.inherited_names(hs))
    user_getattr = any(k == "__getattr__" for k, _ in hs["items"])
    avail = {k for k, s in hs["items"] if s["k"] == "cprop" and k not in inherited and k not in own}
    for bs in hs["bases"]:
        if bs.get("cprops") and (bs["kind"] == "dattrs" or not user_getattr):
            avail.update(bs["cprops"])
    hs["accesses"] = [a for a in hs["accesses"] if a[1] in avail]
    hs["custom_setattr"] = any(k == "__setattr__" for k, _ in hs["items"])
    if hs.get("api") == "these":
        hs["items"] = [[k, s] for k, s in hs["items"] if not (s["k"] == "plain" and s.get("value") == 5 and k not in own)]


def neighbours(case, rng):
    k = case["kind"]
    if k == "struct":
        hs = case["hs"]
        for key, vals in (("meta", ["type", "custom", "abc"]), ("api", ["attr.s", "define", "these"]),
                          ("weakref_slot", [True, False]), ("cache_hash", [True, False]), ("natural", [True, False])):
            for v in vals:
                if hs.get(key) != v and not (key == "natural" and v and len(hs["cells"]) > 1):
                    h2 = copy.deepcopy(hs)
                    h2[key] = v
                    _repair(h2)
                    c2 = _restruct(h2)
                    if c2 is not None:
                        yield c2
    elif k == "meta":
        h = case["h"]
        for _ in range(6):
            try:
                yield cm.make_case(h, ib.gen_call(rng, h), None, gen_ops(rng, h))
            except Exception:  # noqa: BLE001
                continue
    yield from shrink(case)


LEVEL_TEXT = (
    "Lean theorems (Properties/C08.lean) about an executable model of _create_slots_class, "
    "_make_cached_property_getattr and build_class, for arbitrary class-dict sizes, MRO lengths, field lists, cell stores, "
    "access histories and chains: C08_dict_preserved (every class attribute that is not a field name, __dict__, __weakref__, "
    "__slots__, a cached property or a shadowed __getattr__ is the identical object in the new dict), C08_slots_exact, "
    "C08_reused_sound, C08_one_slot, C08_weakref_iff, C08_no_dict_iff, C08_unknown_attr_rejected, C08_cells_rebound / "
    "C08_cells_rebound_kinds / C08_cells_exact (exactly the cells of plain functions, class/staticmethod __func__, property "
    "getters, setters and deleters (after the K08a repair), the generated __getattr__, cached-property functions and the "
    "shadowed __getattr__ are rewritten, only if they held the original class), C08_calls_new, "
    "C08_cached_once (two-state machine over arbitrary read histories), C08_init_subclass_once, "
    "C08_init_subclass_sees_final_class (the hook runs after the cell rewrite: whatever it invokes on the class sees the final "
    "class), C08_init_subclass_chain (dict "
    "and slotted builds, subclasses of subclasses), C08_setattr_reset (the inherited-hook reset as a decision and when it "
    "agrees with the dict build; K6 otherwise), C08_metamorphic (the initializer model's signature, annotations, outcome, "
    "values, callback trace and exception args do not depend on `slots` under slot-belief = slot-truth, malformed calls and "
    "single faults included; K3 can only hit the dict build: C08_slotted_never_misplaces), C08_meta_reset (writing an own __setattr__ does not depend on `slots`; K6 for pairs exactly when direct-base flag != MRO-resolved flag), C08_model_meets_spec, witnesses "
    "for K6 (struct and meta) and K3, regression theorems for the repaired K08a / K08b (C08_fixed_*). Tied to /repo by differential correspondence: structural cases observing "
    "type/name/qualname/module/doc/bases (CPython's class creation: observed, not proved), identity of every class attribute, "
    "__slots__, re-used base descriptors, number of slots per own field, __dict__ / weakref / unknown-attribute behaviour, every "
    "closure cell and the result of calling every function, cached-property histories on two instances, "
    "__attrs_init_subclass__ calls, the __setattr__ reset; chains for __attrs_init_subclass__; and metamorphic cases building "
    "each specification with slots on and off, comparing construction against the model and ==, hash pattern, ordering, repr, "
    "assignment hooks, evolve, asdict/astuple, copy/deepcopy/pickle between the builds (observed relation, not proved).")
