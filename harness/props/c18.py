"""C18 -- validators accept exactly their documented predicate, compositionally.

A case = a validator *expression* (the Lean `Attrs.C18.V`: every public constructor, lists/tuples where the
API takes them, scripted user validators `probe`, non-callable junk) over per-case parameter tables
(descriptors of types, option containers, bounds, regexes ...), a root value descriptor, a second expression
`tree2` for the `==`/hash clause, and the *oracle*: the result of every primitive test the evaluation can
reach (isinstance, `in`, operator, len, re function, callable, iteration, value[key]) computed in
c18_world.py from the documented definition with plain Python.  `observe` builds the real validators
through attr.validators and calls them.
"""
from __future__ import annotations

import copy
import itertools
import json
import re

import attr
import attrs
from attr import validators as AV

import c18_world as W

ID = "C18"
RULE = ("cases = validator expression (random trees to depth 4 over instance_of, matches_re x {default, fullmatch, search, "
        "match, invalid} x flags x {str, bytes, precompiled, invalid} regex, optional (single / list / tuple), in_ over "
        "list/tuple/set/frozenset/dict/str/bytes/range/Enum/hostile __contains__/non-containers, is_callable, deep_iterable "
        "(single / list members, with/without iterable validator), deep_mapping, lt/le/ge/gt over comparable, incomparable "
        "and hostile bounds, max_len/min_len over int and non-int bounds, not_ over exc_types forms, or_, and_, scripted user "
        "validators raising any class of a 13-class exception universe, non-callable junk) x root value from a heterogeneous "
        "pool (scalars incl. nan, containers, callables, classes, hostile objects scripting __eq__/__contains__/__len__/"
        "__lt__../__iter__/__getitem__/__hash__) steered towards the parameters x second expression (rebuilt, reordered "
        "set/dict, re cache purged, parameter or shape changed, unrelated) x HISTORY: 0..4 further calls of the same validator object or of "
        "one freshly built from the same expression, on the same object again, on siblings (same class in another state; equal "
        "value of another class) and on unrelated values, with changes of the world in between (ABC.register, instance attribute "
        "set/deleted, list grown) -- types whose isinstance answer depends on the instance or changes over time are in the type pool "
        "(fresh ABC, runtime_checkable Protocol with a data member, value-dependent __instancecheck__), the oracle is evaluated at "
        "the time of each call; regexes include anchors under alternation (^ab|cd, ab$|cd, ^\\d+|N/A, ^$|x ...) as text, bytes and "
        "precompiled, with values derived from what the regex matches (at offset 0, at an offset > 0, before junk, on another line, "
        "other case); deterministic blocks: the regex pool x flags x func x form, each over the derived values, and scripted "
        "histories x type pool x wrappers; value domains with EQUAL BUT DISTINGUISHABLE members (1, 1.0, True, Decimal(1), Fraction(1), "
        "int subclass, 1+0j; 0 / 0.0 / -0.0 / False; 'a' vs a str subclass; tuple vs tuple subclass) placed in lists, tuples, dict "
        "values and the keys of scripted mappings in every order of 2 and 3, for deep_iterable (single / list members), deep_mapping "
        "(key and value side) and nestings, with member validators that tell them apart (exact types, numeric ABCs, not_, in_, "
        "bounds, scripted probes); objects whose ATTRIBUTE PROTOCOL LIES (dunders stored on the instance, catch-all __getattr__ "
        "answering or raising, a __class__ property naming another class, SimpleNamespace / module with dunder attributes, "
        "metaclasses scripting __instancecheck__ or only __subclasscheck__) as values for every leaf validator and as options / "
        "bounds parameters; in_ OPTIONS whose membership is not item equality: bytearray / str / bytes (subsequence), range, "
        "interval classes with value membership (with and without __eq__, __hash__, __iter__; iterating the ends, every int, or "
        "something not contained), scripted containers whose __contains__ and __iter__ disagree or raise, plus look-alikes "
        "(deque, UserList, OrderedDict, array), each with values inside / on the edge / outside / incomparable -- the oracle is "
        "`value in options` on the container itself except for the documented list/dict/set -> tuple conversion; "
        "thorough additionally enumerates every "
        "expression of depth <= 2 over a reduced leaf pool x a reduced value pool; non-trivial = the constructor "
        "succeeded (a call was made); distinct = distinct JSON case")
ASSUMPTIONS = [
    "the primitive tests are taken from plain Python (isinstance, in, operator.*, len, re.*, callable, iter, []) on the same "
    "objects; for in_ the documented predicate is read with the documented list/dict/set -> tuple transformation",
    "values and parameters have benign __repr__/__str__ (error messages format them) and are not one-shot iterators",
    "scripted objects are deterministic and side-effect free, so precomputing a primitive does not disturb the run",
    "the trace of calls is observed for scripted user validators only (shipped leaves are observed through their outcome)",
    "hash equality is compared only between validators that compare equal; unequal validators are not required to differ",
    "histories: whether a later call uses the same validator object or a freshly built equal one is harness-only variation (the "
    "model has no state); a changed world is represented as a new value id with its own oracle rows, evaluated by plain Python at "
    "the time of that call on the oracle side and replayed identically on the observing side; classes whose isinstance answers "
    "can change are created afresh per case",
    "exceptions are compared by exact class within a 13-class universe (TypeError, NotCallableError, ValueError, KeyError, "
    "IndexError, AttributeError, ZeroDivisionError, RuntimeError, re.error and user subclasses of TypeError / ValueError / "
    "Exception / BaseException); anything else is reported as `other` and never matches the model; a generated case in which a "
    "plain-Python primitive itself raises outside this universe (e.g. decimal.InvalidOperation from Decimal < nan) is not used",
    "constructor calls outside the documented argument domain (invalid func, flags with a compiled pattern, non-callable "
    "validators, exc_types that are no Exception subclasses) are modelled exactly but the spec demands nothing of them",
]
EXHAUSTIVE = {"quick": False, "thorough": False}
BUDGET_S = {"quick": 34, "thorough": 400}
TABLES = ["matchesReFuncs"]
PARALLEL = True

# ------------------------------------------------------------------ pools (descriptors)
I = lambda n: ["int", n]  # noqa: E731
S = lambda s: ["str", s]  # noqa: E731
NONE = ["none"]


def H(name, **m):
    return ["H", {"name": name, "m": m}]


K_SOME = ["typeError", "valueError", "userTypeErr", "userValErr", "keyError", "userExc", "userBase", "zeroDiv",
          "notCallable", "indexError", "attributeError", "runtimeError"]

VALUES_PLAIN = [
    I(0), I(1), I(-1), I(2), I(3), I(7), I(10 ** 6), ["bool", True], ["bool", False],
    ["float", (0.5).hex()], ["float", (3.0).hex()], ["nan"], ["inf"],
    S(""), S("a"), S("ab"), S("abc"), S("A"), S("a\nb"), S("42"), S("b"),
    ["bytes", ""], ["bytes", "ab"], NONE,
    ["list", []], ["list", [I(1), I(2)]], ["list", [I(1), S("a"), NONE]], ["list", [["list", [I(1)]], ["list", [I(2), I(3)]]]],
    ["list", [S("ab"), S("c")]], ["list", [I(5), I(6)]], ["list", [NONE, NONE]], ["list", [I(3), I(1), I(2)]],
    ["list", [S("b"), S("a")]], ["dict", [[I(2), I(1)], [I(1), I(2)]]],
    ["tuple", []], ["tuple", [I(1), I(2)]], ["tuple", [NONE]], ["tuple", [S("a"), S("b"), S("c")]],
    ["dict", []], ["dict", [[I(1), I(2)]]], ["dict", [[S("a"), I(1)], [S("b"), ["list", [I(1)]]]]],
    ["dict", [[I(1), S("a")], [I(2), NONE]]], ["dict", [[["tuple", [I(1), I(2)]], S("ab")]]],
    ["set", []], ["set", [I(1), I(2)]], ["frozenset", [I(3)]], ["range", 0, 3],
    ["fn", "len"], ["fn", "a_function"], ["lambda"], ["cls", "int"], ["cls", "UserClass"], ["cls", "Color"],
    ["enum", "RED"], ["enum", "GREEN"],
]


# equal (== and hash-equal) but distinguishable values: "equal" is not "interchangeable"
TWINS = [
    [I(1), ["float", (1.0).hex()], ["bool", True], ["decimal", "1"], ["fraction", 1, 1], ["intsub", 1], ["complex", 1]],
    [I(0), ["float", (0.0).hex()], ["bool", False], ["decimal", "0"], ["float", (-0.0).hex()]],
    [I(2), ["float", (2.0).hex()], ["decimal", "2"], ["fraction", 4, 2]],
    [S("a"), ["strsub", "a"]], [S("ab"), ["strsub", "ab"]], [S(""), ["strsub", ""]],
    [["tuple", [I(1)]], ["tuplesub", [I(1)]], ["tuple", [["bool", True]]]],
    [["frozenset", [I(1)]], ["frozenset", [["bool", True]]]],
]
_TWIN_OF = {json.dumps(m): g for g in TWINS for m in g}


def twins_of(d):
    return _TWIN_OF.get(json.dumps(d))


def twin_members(rng, d=None, k=None):
    """a permutation of 2..4 members of a twin group (the group of d, or any)"""
    g = (twins_of(d) if d is not None else None) or rng.choice(TWINS)
    k = k or rng.choice([2, 2, 3, 3, 4])
    ms = rng.sample(g, min(k, len(g)))
    if d is not None and d in g and d not in ms:
        ms[rng.randrange(len(ms))] = d
    return ms


_LIAR_DUNDERS = ["__call__", "__len__", "__contains__", "__iter__", "__getitem__", "__lt__", "__le__", "__gt__", "__ge__", "__eq__",
                 "__hash__", "__instancecheck__", "__bool__"]


def liar_values(rng, want=None):
    """objects whose attribute protocol lies (see c18_world._liar), SimpleNamespace / module with dunder attributes"""
    n = rng.randrange(10 ** 6)
    c = rng.randrange(8)
    inst = [want] if want else []
    if c == 0:
        return ["liar", {"name": f"i{n}", "inst": sorted(set(inst + rng.sample(_LIAR_DUNDERS, rng.choice([1, 2, 3]))))}]
    if c == 1:
        return ["liar", {"name": f"g{n}", "getattr": "all"}]
    if c == 2:
        return ["liar", {"name": f"r{n}", "getattr": ["raise", rng.choice(K_SOME)]}]
    if c == 3:
        return ["liar", {"name": f"c{n}", "cls": rng.choice(["int", "str", "list", "bool", "NoneType", "Callable", "float"])}]
    if c == 4:
        return ["ns", [[want or rng.choice(_LIAR_DUNDERS), ["fn", "len"]]]]
    if c == 5:
        return ["module", "plugin", [[want or "__call__", ["fn", "len"]]]]
    if c == 6:
        return ["liar", {"name": f"a{n}", "inst": sorted(_LIAR_DUNDERS)}]
    return ["liar", {"name": f"m{n}", "inst": sorted(set(inst + ["__call__"])), "cls": rng.choice(["int", "Callable", "str"]),
                     "getattr": rng.choice([None, "all"])}]


def hostile_values(rng):
    """a freshly drawn scripted object"""
    if rng.random() < 0.3:
        return liar_values(rng)
    k = rng.choice(K_SOME)
    k2 = rng.choice(K_SOME)
    n = rng.randrange(10 ** 6)
    mem = [rng.choice(VALUES_PLAIN[:24]) for _ in range(rng.choice([0, 1, 2, 3]))]
    choice = rng.randrange(16)
    if choice == 0:
        return H(f"eqT{n}", eq=["ret", ["bool", True]])
    if choice == 1:
        return H(f"eqR{n}", eq=["raise", k])
    if choice == 2:
        return H(f"len{n}", len=["ret", I(rng.choice([0, 1, 2, 3, 5]))])
    if choice == 3:
        return H(f"lenR{n}", len=["raise", k])
    if choice == 4:
        return H(f"lenBad{n}", len=["ret", rng.choice([I(-1), S("a"), NONE])])
    if choice == 5:
        b = rng.choice([["ret", ["bool", True]], ["ret", ["bool", False]], ["raise", k], ["ret", "NotImplemented"]])
        return H(f"ord{n}", lt=b, le=b, gt=b, ge=b)
    if choice == 6:
        return H(f"iter{n}", iter=["yield", mem, rng.choice([None, k])])
    if choice == 7:
        return H(f"iterR{n}", iter=["raise", k])
    if choice == 8:
        keys = mem[:2]
        mp = [[kd, rng.choice([rng.choice(VALUES_PLAIN[:24]), ["!raise", k2]])] for kd in keys]
        return H(f"map{n}", iter=["yield", keys + ([I(99)] if rng.random() < 0.3 else []), rng.choice([None, None, k])],
                 getitem=["map", mp, rng.choice(["keyError", "indexError", k2])], len=["ret", I(len(keys))])
    if choice == 9:
        return H(f"hash{n}", hash=["raise", k], eq=["ret", ["bool", rng.random() < 0.5]])
    if choice == 10:
        return H(f"call{n}", call=["x"])
    if choice == 11:
        return H(f"cont{n}", contains=["ret", ["bool", True]], len=["ret", I(1)])
    if choice == 12:
        return H(f"all{n}", eq=["raise", k], len=["raise", k2], lt=["raise", k], le=["raise", k], gt=["raise", k],
                 ge=["raise", k], iter=["raise", k2], call=["x"])
    if choice == 13:
        return H(f"eqF{n}", eq=["ret", ["bool", False]], hash=["ret", I(1)])
    if choice == 14:
        return H(f"sized{n}", len=["ret", I(len(mem))], iter=["yield", mem, None])
    return H(f"bool{n}", eq=["ret", H(f"bb{n}", bool=["raise", k])])


TYPES = [
    ["cls", "int"], ["cls", "str"], ["cls", "float"], ["cls", "bool"], ["cls", "list"], ["cls", "dict"], ["cls", "tuple"],
    ["cls", "object"], ["cls", "NoneType"], ["cls", "bytes"], ["cls", "type"], ["cls", "Sized"], ["cls", "Callable"],
    ["cls", "Iterable"], ["cls", "Mapping"], ["cls", "Hashable"], ["cls", "Number"], ["cls", "Color"], ["cls", "UserClass"],
    ["tuple", [["cls", "int"], ["cls", "str"]]], ["tuple", [["cls", "list"], ["cls", "tuple"], ["cls", "dict"]]], ["tuple", []],
    ["tuple", [["cls", "int"], ["tuple", [["cls", "float"], ["cls", "NoneType"]]]]],
    ["union", ["int", "str"]], ["generic"], I(5), S("int"), NONE,
    ["cls", "Decimal"], ["cls", "Fraction"], ["cls", "StrSub"], ["cls", "IntSub"], ["cls", "Real"], ["cls", "Integral"],
    ["cls", "complex"], ["cls", "Sequence"], ["cls", "Container"], ["cls", "SimpleNamespace"], ["cls", "TupleSub"],
    ["tuple", [["cls", "float"], ["cls", "Decimal"]]], ["Hsubtype", "T", True], ["Hsubtype", "F", False],
    ["Htype", {"name": "T", "instancecheck": ["ret", ["bool", True]]}],
    ["Htype", {"name": "F", "instancecheck": ["ret", ["bool", False]]}],
]


WORLD_TYPES = [
    # (type descriptor, value descriptors whose isinstance answer differs / can change, kind)
    (["wabc", "Shape"], [["winst", "Circle", []], ["winst", "Circle", [["r", I(1)]]], ["winst", "Square", []]], "abc"),
    (["wproto", "HasX", "x"], [["winst", "Bag", [["x", I(1)]]], ["winst", "Bag", []], ["winst", "Bag", [["y", I(2)]]]], "proto"),
    (["wtype", "Positive", ["positive"]], [I(-5), I(7), I(0), ["bool", True], I(3)], "value"),
    (["wtype", "HasA", ["hasattr", "a"]], [["winst", "Bag", [["a", I(1)]]], ["winst", "Bag", []]], "attr"),
    (["wtype", "NonEmpty", ["truthy_len"]], [["list", []], ["list", [I(1)]], S(""), S("a")], "value"),
    (["tuple", [["cls", "str"], ["wtype", "Positive", ["positive"]]]], [I(-3), I(3), S("s")], "value"),
    (["tuple", [["wabc", "Shape"], ["cls", "int"]]], [["winst", "Circle", []], I(1)], "abc"),
]


def hostile_type(rng):
    k = rng.choice(K_SOME)
    t = ["Htype", {"name": "R" + k, "instancecheck": ["raise", k]}]
    return rng.choice([t, ["tuple", [["cls", "int"], t]], ["tuple", [t, ["cls", "int"]]]])


OPTS = [
    ["list", [I(1), I(2), I(3)]], ["tuple", [S("a"), S("b")]], ["set", [I(1), I(2)]], ["set", [I(8), I(0)]],
    ["frozenset", [S("a"), I(1)]], ["dict", [[I(1), S("x")], [S("a"), I(2)]]], S("abc"), ["range", 0, 5], ["cls", "Color"],
    ["bytes", "ab"], I(5), NONE, ["list", []], ["tuple", []], ["list", [NONE]], ["list", [["nan"], ["list", [I(1)]]]],
    ["tuple", [["bool", True], ["float", (2.0).hex()]]], ["dict", []], ["set", []], ["list", [S("ab"), S("")]],
    ["list", [["enum", "RED"]]], ["tuple", [["tuple", [I(1), I(2)]], NONE]],
]


# option containers whose membership is NOT "equal to one of the iterated items": subsequence tests, value ranges,
# containers whose __contains__ and __iter__ disagree -- unhashable and hashable, iterable and not.  Each with values
# inside / on the edge / outside / of an incomparable type.
def _iv(lo, hi, **f):
    return ["interval", lo, hi, f]


_IV_VALUES = [I(1), I(0), I(10), I(5), I(11), I(-1), ["float", (0.5).hex()], ["float", (9.5).hex()], S("a"), NONE, ["bool", True], I(15)]
SPECIAL_OPTS = [
    (["bytearray", "abc"], [["bytes", "a"], ["bytes", "ab"], ["bytes", "bc"], ["bytes", "ac"], ["bytes", ""], I(97), I(1), S("a"), ["bytes", "abc"]]),
    (["bytearray", ""], [["bytes", ""], I(0), ["bytes", "a"]]),
    (_iv(0, 10, eq=True, iter="ends"), _IV_VALUES), (_iv(0, 10, eq=True, iter="ints"), _IV_VALUES),
    (_iv(0, 10, eq=True, iter="outside"), _IV_VALUES), (_iv(0, 10, eq=True), _IV_VALUES),
    (_iv(0, 10, eq=True, hashable=True, iter="ends"), _IV_VALUES), (_iv(0, 10, iter="ends"), _IV_VALUES),
    (_iv(0, 10, hashable=True, iter="ends"), _IV_VALUES), (_iv(0, 10, hashable=True), _IV_VALUES), (_iv(3, 3, eq=True, iter="ints"), [I(3), I(4), ["float", (3.0).hex()]]),
    (S("abc"), [S("a"), S("ab"), S("bc"), S("ac"), S(""), S("abc"), I(1), ["bytes", "a"]]),
    (["bytes", "abc"], [["bytes", "ab"], ["bytes", "ac"], I(97), I(1), S("a")]),
    (["range", 0, 5], [I(0), I(4), I(5), ["float", (2.0).hex()], ["float", (2.5).hex()], ["bool", True], S("a")]),
    (["deque", [I(1), S("a")]], [I(1), S("a"), I(2), ["bool", True]]), (["userlist", [I(1), S("a")]], [I(1), S("a"), I(2)]),
    (["ordereddict", [[I(1), S("x")], [S("a"), I(2)]]], [I(1), S("a"), S("x"), I(2)]), (["array", [1, 2]], [I(1), I(3), S("a")]),
    (H("ctrue_iter", contains=["ret", ["bool", True]], iter=["yield", [I(1)], None], eq=["ret", ["bool", False]]), [I(1), I(2), S("a")]),
    (H("cfalse_iter", contains=["ret", ["bool", False]], iter=["yield", [I(1), S("a")], None], eq=["ret", ["bool", False]]), [I(1), S("a"), I(2)]),
    (H("craise_iter", contains=["raise", "userTypeErr"], iter=["yield", [I(1)], None], eq=["ret", ["bool", False]]), [I(1), I(2)]),
    (H("cval_iter", contains=["raise", "keyError"], iter=["yield", [I(1)], "zeroDiv"], eq=["ret", ["bool", False]]), [I(1), I(2)]),
    (H("ctrue_iter_hashable", contains=["ret", ["bool", True]], iter=["yield", [I(1)], None]), [I(1), I(2)]),
    (H("ctrue_iterraise", contains=["ret", ["bool", True]], iter=["raise", "typeError"], eq=["ret", ["bool", False]]), [I(1), I(2)]),
]


LIAR_OPTS = [["liar", {"name": "optc", "inst": ["__contains__", "__iter__", "__getitem__"]}], ["ns", [["__contains__", ["fn", "len"]]]],
             ["liar", {"name": "optg", "getattr": "all"}]]
LIAR_BOUNDS = [["liar", {"name": "bnd", "inst": ["__gt__", "__ge__", "__lt__", "__le__"]}], ["liar", {"name": "bndg", "getattr": "all"}],
               ["decimal", "1"], ["fraction", 1, 1], ["strsub", "b"]]


def hostile_opts(rng):
    if rng.random() < 0.25:
        return rng.choice(LIAR_OPTS)
    if rng.random() < 0.2:
        lo = rng.choice([0, 1, -2])
        return _iv(lo, lo + rng.choice([0, 3, 10]), eq=rng.random() < 0.6, hashable=rng.random() < 0.4,
                   iter=rng.choice([None, "ends", "ints", "outside"]))
    k = rng.choice(K_SOME)
    n = rng.randrange(10 ** 6)
    c = rng.randrange(5)
    if c == 0:
        return H(f"oc{n}", contains=["raise", k])
    if c == 1:
        return H(f"ot{n}", contains=["ret", ["bool", rng.random() < 0.5]])
    if c == 2:
        return ["list", [I(1), H(f"oe{n}", eq=["raise", k])]]
    if c == 3:
        return ["tuple", [H(f"oq{n}", eq=["ret", ["bool", True]])]]
    return H(f"ob{n}", contains=["ret", H(f"obb{n}", bool=["raise", k])])


BOUNDS = [I(0), I(3), I(-1), I(1), ["float", (2.5).hex()], ["nan"], S("b"), NONE, ["tuple", [I(1), I(2)]], ["list", [I(1)]],
          ["bool", True], ["inf"], ["bytes", "a"], ["set", [I(1)]]]


def hostile_bound(rng):
    if rng.random() < 0.3:
        return rng.choice(LIAR_BOUNDS)
    k = rng.choice(K_SOME)
    n = rng.randrange(10 ** 6)
    b = rng.choice([["ret", ["bool", True]], ["ret", ["bool", False]], ["raise", k], ["ret", "NotImplemented"]])
    return H(f"b{n}", lt=b, le=b, gt=b, ge=b)


LBOUND_INTS = [-1, 0, 1, 2, 3, 5]
LBOUNDS_OPAQUE = [["float", (2.5).hex()], ["nan"], S("a"), NONE, ["inf"], ["list", []], ["tuple", [I(1)]]]  # none of them == an int
# regex text -> strings it matches (the generators derive neighbours: prefixed, suffixed, on another line, other case)
REGEX_SAMPLES = {
    "a+": ["a", "aa"], "ab": ["ab"], "": [""], ".*": ["x"], "^a": ["a", "ab"], "b$": ["b", "ab"], "[0-9]+": ["7", "42"],
    "A": ["A"], "a.b": ["axb", "a\nb"], "a|b": ["a", "b"],
    # anchors and alternations: a leading ^ / trailing $ binds to ONE alternative only
    "^ab|cd": ["ab", "cd"], "^\\d+|N/A": ["12", "N/A"], "^$|x": ["", "x"], "ab|^cd": ["ab", "cd"], "^(ab|cd)": ["ab", "cd"],
    "^ab|^cd": ["ab", "cd"], "ab|cd$": ["ab", "cd"], "ab$|cd": ["ab", "cd"], "(?m)^b": ["b"], "x*": ["", "xx"],
    "\\Aab|cd": ["ab", "cd"], "(?:^ab)|cd": ["ab", "cd"], "^a|b|c$": ["a", "b", "c"],
}
REGEX_TEXTS = list(REGEX_SAMPLES)
REGEX = ([S(t) for t in REGEX_TEXTS] + [S("("), I(5), NONE, ["bytes", "a"], ["bytes", "^ab|cd"], ["bytes", "ab|cd$"],
         ["pat", "a+", 0], ["pat", "A", 2], ["pat", "^ab|cd", 0], ["pat", "^ab|cd", 8], ["pat", "ab$|cd", 0], ["bpat", "^ab|cd", 0]])
FLAGS = [0, 0, 0, 2, 16, 8, 18]


def regex_text(d):
    return d[1] if d[0] in ("str", "pat", "bytes", "bpat") and isinstance(d[1], str) else None


def derived_values(d, rng=None, limit=None):
    """values around a regex: what it matches, shifted to an offset > 0, followed by junk, on a second line, other case"""
    t = regex_text(d)
    if t is None:
        return [S("a")]
    out = []
    for m in REGEX_SAMPLES.get(t, ["a"]):
        for v in (m, "x" + m, m + "x", "x\n" + m, m + "\nx", m.swapcase(), "id: " + m):
            if v not in out:
                out.append(v)
    if rng is not None and limit is not None and len(out) > limit:
        out = rng.sample(out, limit)
    tag = "bytes" if d[0] in ("bytes", "bpat") else "str"
    return [[tag, v] for v in out]
FUNCS = ["dflt", "dflt", "dflt", {"named": {"s": "fullmatch"}}, {"named": {"s": "fullmatch"}}, {"named": {"s": "search"}},
         {"named": {"s": "search"}}, {"named": {"s": "search"}}, {"named": {"s": "match"}}, {"named": {"s": "match"}},
         {"named": {"s": "match"}}, {"named": {"s": "findall"}}, {"named": {"s": "compile"}}, {"named": {"s": "sub"}}]
EXC_VALID = ["exception", "typeError", "notCallable", "userTypeErr", "valueError", "userValErr", "lookupError", "keyError",
             "indexError", "attributeError", "arithmeticError", "zeroDiv", "runtimeError", "userExc", "reError"]
EXC_INVALID = ["baseException", "userBase", "notExc", "nonClass"]

# ------------------------------------------------------------------ the real thing
_HOSTS: dict = {}


def _host(api):
    got = _HOSTS.get(api)
    if got is None:
        if api == "define":
            @attrs.define
            class Host:
                x: object = attrs.field(default=None)
        else:
            @attr.s
            class Host:
                x = attr.ib(default=None)
        got = _HOSTS[api] = (Host(), attr.fields(Host).x)
    return got


LOG: list = []
CTX: list = [None, None]     # the (inst, attr) the outermost validator was called with


def _make_probe(pid, spec, salt, retv):
    choices = spec["choices"]

    def probe(inst, attr_, value):
        f = W.fp(value)
        # sub-validators must be handed the same instance and attribute as the outermost one
        LOG.append([pid, f if (inst is CTX[0] and attr_ is CTX[1]) else f + " !other-inst-or-attr"])
        r = W.probe_result(salt, pid, choices, f)
        if r != "pass":
            raise W.mk_exc(r)
        return 42 if retv else None
    probe.__name__ = f"probe{pid}"
    return probe


class Builder:
    """expression -> real validator objects (arguments evaluated left to right like the Python call)"""

    def __init__(self, params, objs, probes, cfg):
        self.P, self.objs, self.probes, self.cfg = params, objs, probes, cfg

    def probe(self, pid, retv):
        key = (pid, retv)
        if key not in self.probes:
            self.probes[key] = _make_probe(pid, self.P["probes"][str(pid)], self.P["salt"], retv)
        return self.probes[key]

    def seq(self, is_tuple, nodes):
        xs = [self.mk(n) for n in nodes]
        return tuple(xs) if is_tuple else xs

    def mk(self, node):
        if node == "isCallable":
            return AV.is_callable()
        if node == "junk":
            return 5
        if node == "noneV":
            return None
        (tag, a), = node.items()
        o = self.objs
        if tag == "instOf":
            return AV.instance_of(o["types"][a["t"]])
        if tag == "matchesRe":
            fn = a["func"]
            rx = o["regex"][a["r"]]
            if fn == "dflt":
                if self.cfg.get("explicit_none"):
                    return AV.matches_re(rx, a["flags"], None)
                if a["flags"] == 0:
                    return AV.matches_re(rx)
                return AV.matches_re(rx, flags=a["flags"])
            return AV.matches_re(rx, a["flags"], func=W.RE_NAMES[fn["named"]["s"]])
        if tag == "optional":
            return AV.optional(self.mk(a["v"]))
        if tag == "optionalSeq":
            return AV.optional(self.seq(a["isTuple"], a["vs"]))
        if tag == "in_":
            return AV.in_(o["opts"][a["o"]])
        if tag in ("deepIter", "deepIterSeq"):
            m = self.mk(a["m"]) if tag == "deepIter" else self.seq(a["isTuple"], a["ms"])
            if a["it"] == "noneV" and not self.cfg.get("explicit_none"):
                return AV.deep_iterable(m)
            it = self.mk(a["it"])
            return AV.deep_iterable(member_validator=m, iterable_validator=it)
        if tag == "deepMap":
            k = self.mk(a["k"])
            v = self.mk(a["v"])
            if a["m"] == "noneV" and not self.cfg.get("explicit_none"):
                return AV.deep_mapping(k, v)
            return AV.deep_mapping(k, v, self.mk(a["m"]))
        if tag == "num":
            return getattr(AV, a["op"])(o["bounds"][a["b"]])
        if tag in ("maxLen", "minLen"):
            b = a["b"]
            bound = b["int"]["n"] if "int" in b else o["lbounds"][b["opaque"]["id"]]
            return (AV.max_len if tag == "maxLen" else AV.min_len)(bound)
        if tag == "not_":
            child = self.mk(a["v"])
            kw = {}
            if a["msg"]:
                kw["msg"] = self.P["msgs"][a["msg"]]
            elif self.cfg.get("explicit_none"):
                kw["msg"] = None
            e = a["exc"]
            if e != "dflt":
                if "single" in e:
                    kw["exc_types"] = W.EXC_CLASS[e["single"]["c"]]
                else:
                    cs = [W.EXC_CLASS[c] for c in e["seq"]["cs"]]
                    kw["exc_types"] = cs if e["seq"]["isList"] else tuple(cs)
            return AV.not_(child, **kw)
        if tag == "or_":
            return AV.or_(*[self.mk(c) for c in a["vs"]])
        if tag == "and_":
            return AV.and_(*[self.mk(c) for c in a["vs"]])
        if tag == "probe":
            return self.probe(a["p"], a["retv"])
        raise ValueError(tag)


def make_objs(params):
    return {k: [W.mk(d) for d in params[k]] for k in ("types", "opts", "bounds", "lbounds", "regex")}


_BLANK = {"outcome": None, "retNone": True, "unchanged": True, "trace": [], "build2": None, "eq": "f",
          "hash1": None, "hash2": None, "hashAgree": True, "more": []}


def _hash_of(v):
    try:
        return None, hash(v)
    except BaseException as e:  # noqa: BLE001
        return W.kind(e), None


def observe(case):
    P = case["params"]
    cfg = case.get("cfg", {})
    was_disabled = AV.get_disabled()
    AV.set_disabled(False)
    try:
        inst, attribute = _host(cfg.get("api", "attr.s"))
        if cfg.get("inst_none"):
            inst = None
        probes: dict = {}
        W.new_world()
        objs1 = make_objs(P)
        value = W.mk(P["value"])
        try:
            v1 = Builder(P, objs1, probes, cfg).mk(case["tree"])
        except BaseException as e:  # noqa: BLE001
            return dict(_BLANK, build=W.kind(e))
        CTX[0], CTX[1] = inst, attribute

        def call(v, x):
            before = W.fp(x)
            step = {"outcome": None, "retNone": True}
            del LOG[:]
            try:
                ret = v(inst, attribute, x)
            except BaseException as e:  # noqa: BLE001
                step["outcome"] = W.kind(e)
            else:
                step["retNone"] = ret is None
            step["trace"] = [list(e) for e in LOG]
            del LOG[:]
            step["unchanged"] = W.fp(x) == before
            return step

        obs = dict(_BLANK, build=None, more=[])
        obs.update(call(v1, value))
        # the rest of the history: the world may change between calls; the same validator object or one
        # freshly built from the same expression and parameter objects
        hist = [value]
        for st in P.get("history", []):
            for op in st.get("ops", []):
                W.apply_op(op, hist)
            x = hist[st["ref"]] if "ref" in st else W.mk(st["value"])
            hist.append(x)
            v = Builder(P, objs1, probes, cfg).mk(case["tree"]) if st.get("fresh") else v1
            obs["more"].append(call(v, x))
        if case.get("purge"):
            re.purge()
        try:
            objs2 = make_objs(P)
            v2 = Builder(P, objs2, probes, cfg).mk(case["tree2"])
        except BaseException as e:  # noqa: BLE001
            obs["build2"] = W.kind(e)
            return obs
        obs["eq"] = W.prim(lambda: v1 == v2)
        obs["hash1"], h1 = _hash_of(v1)
        obs["hash2"], h2 = _hash_of(v2)
        if obs["eq"] == "t" and obs["hash1"] is None and obs["hash2"] is None:
            obs["hashAgree"] = h1 == h2
        return obs
    finally:
        del LOG[:]
        CTX[0] = CTX[1] = None
        AV.set_disabled(was_disabled)


# ------------------------------------------------------------------ completing a case: the oracle
CHILD = {"optional": (("v",), None), "not_": (("v",), None), "deepIter": (("m", "it"), None),
         "deepIterSeq": (("it",), "ms"), "deepMap": (("k", "v", "m"), None), "optionalSeq": ((), "vs"),
         "or_": ((), "vs"), "and_": ((), "vs"), "andRaw": ((), "vs")}


def _children(node):
    """sub-expressions in evaluation order"""
    if isinstance(node, str):
        return []
    (tag, a), = node.items()
    if tag not in CHILD:
        return []
    single, lst = CHILD[tag]
    out = list(a[lst]) if lst else []
    if tag == "deepIterSeq":
        return out + [a["it"]]
    return [a[k] for k in single] + out


def _map_children(node, f):
    """copy with f applied to every direct sub-expression"""
    if isinstance(node, str):
        return node
    (tag, a), = node.items()
    if tag not in CHILD:
        return copy.deepcopy(node)
    single, lst = CHILD[tag]
    b = dict(a)
    for k in single:
        b[k] = f(a[k])
    if lst:
        b[lst] = [f(c) for c in a[lst]]
    return {tag: b}


def _is_leaf(node):
    return isinstance(node, str) or next(iter(node)) not in CHILD


def _walk(node, f):
    """pre-order over expression nodes"""
    f(node)
    for c in _children(node):
        _walk(c, f)


def _uses(tree):
    """parameter ids used, per sort, and (regex, flags) pairs"""
    uses = {0: set(), 1: set(), 3: set(), 4: set(), 5: set()}
    res = set()

    def f(node):
        if isinstance(node, str):
            return
        (tag, a), = node.items()
        if tag == "instOf":
            uses[0].add(a["t"])
        elif tag == "in_":
            uses[1].add(a["o"])
        elif tag == "num":
            uses[3].add(a["b"])
        elif tag in ("maxLen", "minLen") and "opaque" in a["b"]:
            uses[4].add(a["b"]["opaque"]["id"])
        elif tag == "matchesRe":
            uses[5].add(a["r"])
            res.add((a["r"], a["flags"]))
    _walk(tree, f)
    return uses, res


class Unrepresentable(Exception):
    """a primitive raised an exception outside the modelled exception universe (e.g. decimal.InvalidOperation):
    its place in the class hierarchy is unknown to the model, so the case is not used"""


def complete(spec):
    """spec (tree, tree2, purge, params, cfg) -> full case with value table and oracle rows"""
    P = spec["params"]
    W.new_world()
    objs1 = make_objs(P)
    objs2 = make_objs(P)
    orc = W.Oracle(P, objs1)
    root_obj = W.mk(P["value"])
    root = orc.reg(root_obj)
    assert root == 0
    orc.fill(spec["tree"], 0)
    # later calls: the primitives are evaluated when the call is made, after the world changes before it
    hist, more = [root_obj], []
    for st in P.get("history", []):
        for op in st.get("ops", []):
            W.apply_op(op, hist)
        x = hist[st["ref"]] if "ref" in st else W.mk(st["value"])
        hist.append(x)
        vid = orc.reg(x)
        more.append(vid)
        orc.fill(spec["tree"], vid)
    u1, re1 = _uses(spec["tree"])
    u2, re2 = _uses(spec["tree2"])
    W.build_rows(orc.put, objs1, re1 | re2)
    W.eq_rows(orc.put, objs1, objs2, u1, u2, re1, re2)
    case = dict(spec)
    case["more"] = more
    case["vals"] = orc.vrows
    case["prim"] = orc.rows_json()
    if '"other"' in json.dumps([case["vals"], case["prim"]]):
        raise Unrepresentable
    case["info"] = {"in_literal_differs": orc.in_literal_differs}
    return case


def spec_of(case):
    return {k: copy.deepcopy(case[k]) for k in ("tree", "tree2", "purge", "params", "cfg") if k in case}


# ------------------------------------------------------------------ generators
class Ctx:
    """per-case parameter tables under construction"""

    def __init__(self, rng):
        self.rng = rng
        self.P = {"types": [], "opts": [], "bounds": [], "lbounds": [], "regex": [], "msgs": [None, "custom", "{validator!r} {exc_types!r}"],
                  "probes": {}, "salt": rng.randrange(1 << 30), "value": NONE}
        self.suggest = []   # value descriptors likely to satisfy some leaf
        self.world = []     # world types used: (type, values, kind) -- drives the histories

    def add(self, table, d):
        t = self.P[table]
        for i, e in enumerate(t):
            if e == d and d[0] not in ("H",):
                return i
        t.append(d)
        return len(t) - 1

    def probe(self):
        rng = self.rng
        pid = len(self.P["probes"])
        if pid >= 3 and rng.random() < 0.5:
            return rng.randrange(pid)
        c = rng.random()
        if c < 0.55:
            choices = ["pass"]
        elif c < 0.72:
            choices = [rng.choice(W.RAISABLE)]
        else:
            choices = ["pass", "pass", rng.choice(W.RAISABLE), rng.choice(K_SOME)]
        self.P["probes"][str(pid)] = {"choices": choices}
        return pid


_SAMPLE_OF_TYPE = {"int": I(3), "str": S("ab"), "float": ["float", (0.5).hex()], "bool": ["bool", True], "list": ["list", [I(1), I(2)]],
                   "dict": ["dict", [[I(1), I(2)]]], "tuple": ["tuple", [I(1), I(2)]], "NoneType": NONE, "bytes": ["bytes", "ab"],
                   "Color": ["enum", "RED"], "Sized": ["list", []], "Callable": ["fn", "len"], "Mapping": ["dict", []],
                   "Number": I(1), "type": ["cls", "int"], "UserClass": ["cls", "UserClass"],
                   "Decimal": ["decimal", "1"], "Fraction": ["fraction", 1, 1], "StrSub": ["strsub", "a"], "IntSub": ["intsub", 1],
                   "Real": ["float", (1.0).hex()], "Integral": ["bool", True], "complex": ["complex", 1], "Sequence": ["tuplesub", [I(1)]],
                   "TupleSub": ["tuplesub", [I(1)]]}


_SAMPLES_OF_TYPE = {"int": [I(3), I(1), I(0), I(2)], "float": [["float", (0.5).hex()], ["float", (1.0).hex()], ["float", (2.0).hex()]],
                    "bool": [["bool", True], ["bool", False]], "str": [S("ab"), S("a"), S("")], "tuple": [["tuple", [I(1), I(2)]], ["tuple", [I(1)]]],
                    "Number": [I(1), ["decimal", "2"]], "Real": [["float", (1.0).hex()], ["fraction", 1, 1]], "Integral": [["bool", True], I(2)]}


def _with_twins(rng, ds):
    """one of the descriptors that has equal-but-different twins, if any"""
    tw = [d for d in ds if twins_of(d)]
    return rng.choice(tw) if tw else (rng.choice(ds) if ds else None)


def gen_leaf(ctx, allow_junk=True):
    rng = ctx.rng
    c = rng.random()
    if c < 0.16:
        if rng.random() < 0.14:
            d, vals, kind = rng.choice(WORLD_TYPES)
            ctx.suggest += vals
            ctx.world.append((d, vals, kind))
            return {"instOf": {"t": ctx.add("types", d)}}
        d = hostile_type(rng) if rng.random() < 0.12 else rng.choice(TYPES)
        if d[0] == "cls" and d[1] in _SAMPLE_OF_TYPE:
            ctx.suggest.append(rng.choice(_SAMPLES_OF_TYPE.get(d[1], [_SAMPLE_OF_TYPE[d[1]]])))
        if rng.random() < 0.3:
            ctx.suggest.append(liar_values(rng, "__instancecheck__"))
        return {"instOf": {"t": ctx.add("types", d)}}
    if c < 0.30:
        if rng.random() < 0.22:
            d, vals = rng.choice(SPECIAL_OPTS)
            ctx.suggest += rng.sample(vals, min(4, len(vals)))
            return {"in_": {"o": ctx.add("opts", d)}}
        d = hostile_opts(rng) if rng.random() < 0.2 else rng.choice(OPTS)
        if d[0] == "interval":
            ctx.suggest += [I(d[1]), I(d[2]), I(d[2] + 1), I(d[1] - 1), ["float", (d[1] + 0.5).hex()], S("a")]
        if d[0] in ("list", "tuple", "set", "frozenset") and d[1]:
            ctx.suggest.append(rng.choice(d[1]))
        elif d[0] == "dict" and d[1]:
            ctx.suggest.append(rng.choice(d[1])[0])
        elif d[0] == "str":
            ctx.suggest.append(S(d[1][:1]))
        return {"in_": {"o": ctx.add("opts", d)}}
    if c < 0.42:
        d = hostile_bound(rng) if rng.random() < 0.15 else rng.choice(BOUNDS)
        if d[0] == "int":
            ctx.suggest += [I(d[1] - 1), I(d[1]), I(d[1] + 1)]
        if rng.random() < 0.25:
            ctx.suggest.append(liar_values(rng, rng.choice(["__lt__", "__ge__"])))
        return {"num": {"op": rng.choice(["lt", "le", "ge", "gt"]), "b": ctx.add("bounds", d)}}
    if c < 0.54:
        if rng.random() < 0.8:
            n = rng.choice(LBOUND_INTS)
            b = {"int": {"n": n}}
            ctx.suggest.append(["list", [I(1)] * max(0, n)])
            ctx.suggest.append(S("x" * max(0, n + rng.choice([-1, 1]))))
            if rng.random() < 0.3:
                ctx.suggest.append(liar_values(rng, "__len__"))
        else:
            b = {"opaque": {"id": ctx.add("lbounds", rng.choice(LBOUNDS_OPAQUE))}}
        return {rng.choice(["maxLen", "minLen"]): {"b": b}}
    if c < 0.66:
        d = rng.choice(REGEX)
        fl = rng.choice(FLAGS)
        if d[0] in ("pat", "bpat") and rng.random() < 0.8:
            fl = 0
        ctx.suggest += derived_values(d, rng, 6) + [S("aa"), S("xab")]
        return {"matchesRe": {"r": ctx.add("regex", d), "flags": fl, "func": rng.choice(FUNCS)}}
    if c < 0.72:
        ctx.suggest += [["fn", "len"], liar_values(rng, "__call__"), liar_values(rng, "__call__")]
        return "isCallable"
    if c < 0.97 or not allow_junk:
        return {"probe": {"p": ctx.probe(), "retv": rng.random() < 0.25}}
    return rng.choice(["junk", "noneV"])


def gen_exc_arg(rng):
    c = rng.random()
    if c < 0.35:
        return "dflt"
    bad = rng.random() < 0.12
    pool = EXC_VALID + (EXC_INVALID if bad else [])
    if c < 0.5:
        return {"single": {"c": rng.choice(pool)}}
    cs = [rng.choice(pool) for _ in range(rng.choice([0, 1, 1, 2, 2, 3]))]
    if bad and cs:
        cs[rng.randrange(len(cs))] = rng.choice(EXC_INVALID)
    return {"seq": {"isList": rng.random() < 0.3, "cs": cs}}


def gen_tree(ctx, depth, allow_junk=True):
    rng = ctx.rng
    if depth <= 1 or rng.random() < 0.10:
        return gen_leaf(ctx, allow_junk)
    sub = lambda: gen_tree(ctx, depth - 1, allow_junk)  # noqa: E731
    subs = lambda: [sub() for _ in range(rng.choice([0, 1, 1, 2, 2, 2, 2, 3, 3, 3, 4, 1, 2, 3]))]  # noqa: E731
    c = rng.random()
    if c < 0.12:
        return {"optional": {"v": sub()}}
    if c < 0.19:
        return {"optionalSeq": {"isTuple": rng.random() < 0.5, "vs": subs()}}
    if c < 0.36:
        return {"and_": {"vs": subs()}}
    if c < 0.53:
        return {"or_": {"vs": subs()}}
    if c < 0.68:
        return {"not_": {"v": sub(), "msg": rng.choice([0, 0, 1, 2]), "exc": gen_exc_arg(rng)}}
    container = lambda: ("noneV" if rng.random() < 0.5 else (rng.choice(["junk"]) if rng.random() < 0.04 and allow_junk else sub()))  # noqa: E731
    if c < 0.80:
        mark = len(ctx.suggest)
        m = sub()
        inner = ctx.suggest[mark:]
        del ctx.suggest[mark:]
        ctx.suggest.append(["list", [rng.choice(inner) for _ in range(rng.choice([1, 2, 3]))] if inner else []])
        if inner and rng.random() < 0.5:
            ctx.suggest.append(["tuple", [inner[0], rng.choice(VALUES_PLAIN)]])
        # members that are equal but distinguishable, in some order
        ctx.suggest.append([rng.choice(["list", "tuple"]), twin_members(rng, _with_twins(rng, inner))])
        return {"deepIter": {"m": m, "it": container()}}
    if c < 0.87:
        mark = len(ctx.suggest)
        ms = subs()
        inner = ctx.suggest[mark:]
        del ctx.suggest[mark:]
        ctx.suggest.append(["list", [rng.choice(inner) for _ in range(rng.choice([1, 2]))] if inner else []])
        ctx.suggest.append(["list", twin_members(rng, _with_twins(rng, inner))])
        return {"deepIterSeq": {"isTuple": rng.random() < 0.5, "ms": ms, "it": container()}}
    mark = len(ctx.suggest)
    k = sub()
    ki = ctx.suggest[mark:]
    del ctx.suggest[mark:]
    v = sub()
    vi = ctx.suggest[mark:]
    del ctx.suggest[mark:]
    hashable = [d for d in ki if d[0] in ("int", "str", "bool", "none", "float", "bytes", "enum", "fn", "cls")]
    items = []
    for _ in range(rng.choice([1, 2])):
        kd = rng.choice(hashable) if hashable else rng.choice([I(1), S("a"), I(2)])
        if all(kd != e[0] for e in items):
            items.append([kd, rng.choice(vi) if vi else rng.choice(VALUES_PLAIN)])
    ctx.suggest.append(["dict", items])
    # equal but distinguishable values under distinct keys, in some order; the same for keys (a scripted mapping
    # can yield equal keys, a dict cannot)
    tv = twin_members(rng, _with_twins(rng, vi))
    keys = [kd for kd in hashable[:1]] + [S(x) for x in "pqrs"]
    ctx.suggest += [["dict", [[keys[i], m] for i, m in enumerate(tv)]]] * 2
    if rng.random() < 0.5:
        tk = twin_members(rng, _with_twins(rng, ki))
        ctx.suggest.append(H(f"tw{rng.randrange(10 ** 6)}", iter=["yield", tk, None],
                             getitem=["map", [[kd, rng.choice(tv)] for kd in tk[:1]], "keyError"] if rng.random() < 0.5
                             else ["raise", rng.choice(["keyError", "indexError"])]))
    kk, vv = k, v
    if allow_junk and rng.random() < 0.03:
        kk = rng.choice(["junk", "noneV"])
    return {"deepMap": {"k": kk, "v": vv, "m": container()}}


def pick_value(ctx):
    rng = ctx.rng
    c = rng.random()
    if c < 0.5:
        if ctx.suggest:
            return rng.choice(ctx.suggest)
        c = 0.5 + c
    if c < 0.64:
        return hostile_values(rng)
    if c < 0.70:
        return NONE
    if c < 0.77:
        # container of mixed members incl. a scripted one
        ms = [rng.choice(VALUES_PLAIN) for _ in range(rng.choice([1, 2, 3]))] + [hostile_values(rng)]
        rng.shuffle(ms)
        return [rng.choice(["list", "tuple"]), ms]
    return rng.choice(VALUES_PLAIN)


def _map_leaves(node, f):
    """copy of the expression with f applied to every leaf node"""
    if _is_leaf(node):
        return f(node)
    return _map_children(node, lambda c: _map_leaves(c, f))


def variant(ctx, tree):
    """second expression for the ==/hash clause; returns (tree2, purge, label)"""
    rng = ctx.rng
    P = ctx.P
    c = rng.random()
    if c < 0.42:
        return copy.deepcopy(tree), False, "same"
    if c < 0.52:
        return copy.deepcopy(tree), True, "purge"
    if c < 0.66:
        # same parameters, set/dict options rebuilt in another insertion order
        done = []
        has_setlike = []
        _walk(tree, lambda n: has_setlike.append(1) if isinstance(n, dict) and "in_" in n and P["opts"][n["in_"]["o"]][0] in ("set", "dict") and len(P["opts"][n["in_"]["o"]][1]) >= 2 else None)
        if not has_setlike:
            # give one in_ leaf (if any) set/dict options -- in place, both expressions see it
            def g(n):
                if isinstance(n, dict) and "in_" in n and not has_setlike:
                    has_setlike.append(1)
                    n["in_"]["o"] = ctx.add("opts", rng.choice([["set", [I(8), I(0), I(16)]], ["dict", [[I(1), S("x")], [S("a"), I(2)]]],
                                                               ["set", [I(1), I(2)]], ["dict", [[S("b"), NONE], [S("a"), NONE], [I(3), I(3)]]]]))
            _walk(tree, g)

        def f(leaf):
            if isinstance(leaf, dict) and "in_" in leaf:
                d = P["opts"][leaf["in_"]["o"]]
                if d[0] in ("set", "dict") and len(d[1]) >= 2:
                    done.append(1)
                    return {"in_": {"o": ctx.add("opts", [d[0], list(reversed(d[1]))])}}
            return copy.deepcopy(leaf)
        t2 = _map_leaves(tree, f)
        return t2, False, "reorder" if done else "same"
    if c < 0.84:
        # one parameter replaced (by an equal-valued one of another type, or a different one)
        leaves = []
        _map_leaves(tree, lambda l: leaves.append(l) or l)
        target = rng.randrange(len(leaves)) if leaves else 0
        idx = [0]

        def f(leaf):
            i = idx[0]
            idx[0] += 1
            if i != target or isinstance(leaf, str):
                return copy.deepcopy(leaf)
            (tag, a), = leaf.items()
            a = dict(a)
            if tag == "instOf":
                a["t"] = ctx.add("types", rng.choice(TYPES))
            elif tag == "in_":
                d = P["opts"][a["o"]]
                alt = {"list": "tuple", "tuple": "list", "set": "frozenset", "frozenset": "set"}.get(d[0])
                a["o"] = ctx.add("opts", [alt, d[1]] if alt and rng.random() < 0.6 else rng.choice(OPTS))
            elif tag == "num":
                d = P["bounds"][a["b"]]
                if rng.random() < 0.3:
                    a["op"] = rng.choice(["lt", "le", "ge", "gt"])
                elif d[0] == "int" and rng.random() < 0.6:
                    a["b"] = ctx.add("bounds", rng.choice([["float", float(d[1]).hex()], ["bool", bool(d[1])] if d[1] in (0, 1) else I(d[1] + 1)]))
                else:
                    a["b"] = ctx.add("bounds", rng.choice(BOUNDS))
            elif tag in ("maxLen", "minLen"):
                if rng.random() < 0.3:
                    return {("minLen" if tag == "maxLen" else "maxLen"): a}
                a["b"] = {"int": {"n": rng.choice(LBOUND_INTS)}} if rng.random() < 0.6 else {"opaque": {"id": ctx.add("lbounds", rng.choice(LBOUNDS_OPAQUE))}}
            elif tag == "matchesRe":
                c2 = rng.random()
                if c2 < 0.3:
                    a["func"] = rng.choice(FUNCS)
                elif c2 < 0.5:
                    a["flags"] = rng.choice(FLAGS)
                elif c2 < 0.8:
                    d = P["regex"][a["r"]]
                    if d[0] == "str" and d[1] != "(":
                        a["r"] = ctx.add("regex", ["pat", d[1], a["flags"]])
                        a["flags"] = 0
                    elif d[0] == "pat":
                        a["r"] = ctx.add("regex", S(d[1]))
                        a["flags"] = d[2]
                else:
                    a["r"] = ctx.add("regex", rng.choice(REGEX))
            elif tag == "probe":
                if rng.random() < 0.5:
                    a["retv"] = not a["retv"]
                else:
                    a["p"] = ctx.probe()
            return {tag: a}
        return _map_leaves(tree, f), False, "param"
    if c < 0.94:
        return mutate_shape(rng, copy.deepcopy(tree)), False, "shape"
    c2 = Ctx(rng)
    c2.P = P
    return gen_tree(c2, rng.choice([1, 2]), allow_junk=False), False, "other"


def mutate_shape(rng, t):
    if isinstance(t, str):
        return rng.choice(["isCallable", t])
    (tag, a), = t.items()
    if tag in ("or_", "and_") and a["vs"]:
        c = rng.random()
        if c < 0.3:
            return {tag: {"vs": a["vs"][:-1]}}
        if c < 0.5:
            return {("and_" if tag == "or_" else "or_"): a}
        if c < 0.7:
            return {tag: {"vs": list(reversed(a["vs"]))}}
        # nest the tail: and_(a, and_(b, c)) -- flattening makes this equal
        return {tag: {"vs": a["vs"][:1] + [{tag: {"vs": a["vs"][1:]}}]}}
    if tag == "optionalSeq":
        c = rng.random()
        if c < 0.5:
            return {tag: dict(a, isTuple=not a["isTuple"])}
        return {"optional": {"v": {"and_": {"vs": a["vs"]}}}}
    if tag == "deepIterSeq":
        if rng.random() < 0.5:
            return {tag: dict(a, isTuple=not a["isTuple"])}
        return {"deepIter": {"m": {"and_": {"vs": a["ms"]}}, "it": a["it"]}}
    if tag == "optional":
        return rng.choice([a["v"], {"optional": {"v": mutate_shape(rng, a["v"])}}])
    if tag == "not_":
        c = rng.random()
        if c < 0.3:
            return {tag: dict(a, msg=(a["msg"] + 1) % 3)}
        if c < 0.6:
            return {tag: dict(a, exc=gen_exc_arg(rng))}
        return {tag: dict(a, v=mutate_shape(rng, a["v"]))}
    if tag == "deepIter":
        return {tag: dict(a, it=("noneV" if a["it"] != "noneV" else "isCallable"))}
    if tag == "deepMap":
        return {tag: dict(a, k=a["v"], v=a["k"])}
    return t


def sibling(rng, v):
    """a value of the same class in another state, or an equal value of another class"""
    tag = v[0]
    if tag == "int":
        return rng.choice([I(-v[1]), I(v[1] + 1), I(0), ["bool", bool(v[1])], ["float", float(v[1]).hex()], I(v[1])])
    if tag == "bool":
        return rng.choice([I(int(v[1])), ["bool", not v[1]], ["float", float(v[1]).hex()]])
    if tag == "float":
        return rng.choice([I(1), ["float", (2.5).hex()], ["nan"]])
    if tag in ("str", "bytes"):
        return [tag, rng.choice([v[1] + "x", "x" + v[1], v[1][:-1], v[1].swapcase(), ""])]
    if tag in ("list", "tuple"):
        return [tag, rng.choice([v[1] + [I(9)], v[1][:-1], list(reversed(v[1])), list(reversed(v[1])), rng.sample(v[1], len(v[1])), []])]
    if tag == "dict":
        # same keys, the values in another order (and the items in another order)
        vals = [kv[1] for kv in v[1]]
        perm = rng.sample(vals, len(vals))
        return [tag, rng.choice([v[1][:-1], v[1] + [[S("zz"), NONE]], list(reversed(v[1])),
                                 [[kv[0], x] for kv, x in zip(v[1], perm)], [[kv[0], x] for kv, x in zip(v[1], reversed(vals))]])]
    if tag in ("set", "frozenset"):
        return [tag, v[1][:-1]]
    if tag == "winst":
        return [tag, v[1], rng.choice([[], [["x", I(1)]], [["a", I(2)]], v[2] + [["z", NONE]]])]
    return v


def gen_history(ctx, root):
    """0..4 further calls: the same object again, siblings (same class, other state; equal value, other class),
    unrelated values -- with changes of the world in between when the expression uses types that can see them"""
    rng = ctx.rng
    steps = []
    n = rng.choice([0, 0, 0, 1, 2, 2, 3, 4]) if not ctx.world else rng.choice([1, 2, 3, 3, 4])
    descs = [root]          # descriptor (as created) of each history object
    for _ in range(n):
        st = {"ops": [], "fresh": rng.random() < 0.4}
        c = rng.random()
        # world changes
        if ctx.world and rng.random() < 0.6:
            d, vals, kind = rng.choice(ctx.world)
            abc_d = d if d[0] == "wabc" else next((e for e in d[1] if isinstance(e, list) and e[0] == "wabc"), None) if d[0] == "tuple" else None
            winsts = [i for i, e in enumerate(descs) if e[0] == "winst"]
            if kind == "abc" and abc_d is not None and winsts:
                st["ops"].append(["register", abc_d, ["wcls", descs[rng.choice(winsts)][1]]])
            elif kind in ("proto", "attr") and winsts:
                i = rng.choice(winsts)
                name = "x" if kind == "proto" else "a"
                st["ops"].append(rng.choice([["delattr", i, name], ["setattr", i, name, I(5)]]))
        lists = [i for i, e in enumerate(descs) if e[0] == "list"]
        if lists and rng.random() < 0.25:
            st["ops"].append(["append", rng.choice(lists), rng.choice(VALUES_PLAIN[:24])])
        if c < 0.3:
            st["ref"] = rng.randrange(len(descs))
            descs.append(descs[st["ref"]])
        elif c < 0.7:
            base = rng.choice(descs)
            if ctx.world and rng.random() < 0.5:
                st["value"] = rng.choice(rng.choice(ctx.world)[1])
            else:
                st["value"] = sibling(rng, base)
            descs.append(st["value"])
        else:
            st["value"] = pick_value(ctx)
            descs.append(st["value"])
        steps.append(st)
    return steps


def random_spec(rng, depth=None):
    ctx = Ctx(rng)
    depth = depth or rng.choice([1, 2, 2, 3, 3, 3, 4, 4, 4])
    tree = gen_tree(ctx, depth, allow_junk=True)
    ctx.P["value"] = pick_value(ctx)
    ctx.P["history"] = gen_history(ctx, ctx.P["value"])
    tree2, purge, label = variant(ctx, tree)
    cfg = {"api": rng.choice(["attr.s", "define"]), "inst_none": rng.random() < 0.3, "explicit_none": rng.random() < 0.3,
           "variant": label}
    return {"tree": tree, "tree2": tree2, "purge": purge, "params": ctx.P, "cfg": cfg}


# reduced pools for the exhaustive block
def _reduced(rng):
    ctx = Ctx(rng)
    P = ctx.P
    P["probes"] = {"0": {"choices": ["pass"]}, "1": {"choices": ["userValErr"]}, "2": {"choices": ["userBase"]},
                   "3": {"choices": ["pass", "keyError", "typeError"]}}
    leaves = [
        {"instOf": {"t": ctx.add("types", ["cls", "int"])}},
        {"instOf": {"t": ctx.add("types", ["tuple", [["cls", "str"], ["cls", "list"]]])}},
        {"in_": {"o": ctx.add("opts", ["list", [I(1), I(2), S("a")]])}},
        {"in_": {"o": ctx.add("opts", S("abc"))}},
        {"in_": {"o": ctx.add("opts", ["set", [I(8), I(0)]])}},
        {"num": {"op": "lt", "b": ctx.add("bounds", I(2))}},
        {"num": {"op": "ge", "b": ctx.add("bounds", I(2))}},
        {"maxLen": {"b": {"int": {"n": 1}}}},
        {"minLen": {"b": {"int": {"n": 2}}}},
        {"matchesRe": {"r": ctx.add("regex", S("a+")), "flags": 0, "func": "dflt"}},
        {"matchesRe": {"r": ctx.add("regex", S("a")), "flags": 2, "func": {"named": {"s": "search"}}}},
        "isCallable",
        {"probe": {"p": 0, "retv": False}}, {"probe": {"p": 1, "retv": False}}, {"probe": {"p": 2, "retv": False}},
        {"probe": {"p": 3, "retv": True}},
        "junk",
    ]
    values = [I(1), I(2), S("a"), S("aa"), S("A"), NONE, ["list", []], ["list", [I(1), S("a")]], ["tuple", [S("aa"), I(2)]],
              ["dict", [[I(1), S("a")], [S("a"), I(3)]]], ["dict", [[S("aa"), NONE]]], ["fn", "len"], ["nan"],
              H("xlen", len=["raise", "userExc"], eq=["raise", "userTypeErr"], lt=["raise", "zeroDiv"], ge=["raise", "keyError"]),
              H("xit", iter=["yield", [I(1), S("a")], "userBase"], len=["ret", I(2)]),
              H("xmap", iter=["yield", [I(1), S("k")], None], getitem=["map", [[I(1), S("aa")], [S("k"), ["!raise", "userValErr"]]], "keyError"])]
    return ctx, leaves, values


def exhaustive_specs(rng, max_depth):
    ctx, leaves, values = _reduced(rng)
    trees = list(leaves)
    if max_depth >= 2:
        for a in leaves:
            trees += [
                {"optional": {"v": a}},
                {"not_": {"v": a, "msg": 0, "exc": "dflt"}},
                {"not_": {"v": a, "msg": 1, "exc": {"seq": {"isList": False, "cs": ["valueError"]}}}},
                {"not_": {"v": a, "msg": 0, "exc": {"single": {"c": "exception"}}}},
                {"deepIter": {"m": a, "it": "noneV"}},
                {"optionalSeq": {"isTuple": False, "vs": [a]}},
                {"and_": {"vs": [a]}}, {"or_": {"vs": [a]}},
            ]
        trees += [{"and_": {"vs": []}}, {"or_": {"vs": []}}, {"optionalSeq": {"isTuple": True, "vs": []}}]
        for a, b in itertools.product(leaves, repeat=2):
            trees += [
                {"and_": {"vs": [a, b]}},
                {"or_": {"vs": [a, b]}},
                {"deepMap": {"k": a, "v": b, "m": "noneV"}},
                {"deepIter": {"m": a, "it": b}},
                {"deepIterSeq": {"isTuple": True, "ms": [a, b], "it": "noneV"}},
            ]
    for t in trees:
        for v in values:
            P = copy.deepcopy(ctx.P)
            P["value"] = v
            P["salt"] = 7
            yield {"tree": t, "tree2": copy.deepcopy(t), "purge": False, "params": P,
                   "cfg": {"api": "attr.s", "inst_none": False, "explicit_none": False, "variant": "same"}}


_CFG0 = {"api": "attr.s", "inst_none": False, "explicit_none": False, "variant": "same"}
_FUNC_ARGS = ["dflt", {"named": {"s": "fullmatch"}}, {"named": {"s": "search"}}, {"named": {"s": "match"}}]


def _wrappers(leaf):
    yield leaf
    yield {"optional": {"v": leaf}}
    yield {"not_": {"v": leaf, "msg": 0, "exc": "dflt"}}
    yield {"or_": {"vs": [{"instOf": {"t": 0}} if False else {"minLen": {"b": {"int": {"n": 99}}}}, leaf]}}
    yield {"and_": {"vs": [leaf, leaf]}}
    yield {"deepIter": {"m": leaf, "it": "noneV"}}


def regex_specs(rng, full):
    """matches_re over every regex of the pool x flags x func x (text | bytes | precompiled), each case a history
    over the values derived from the regex (matching at offset 0, at an offset > 0, before junk, on another line)"""
    flags = [0, 2, 8, 16] if full else [0, 8]
    for d in REGEX:
        t = regex_text(d)
        if t is None or t == "(":
            continue
        forms = [(d, fl) for fl in (flags if d[0] in ("str", "bytes") else [0])]
        if d[0] == "str":
            forms += [(["pat", t, fl], 0) for fl in flags]
        for (rd, fl) in forms:
            vals = derived_values(rd)
            for fn in _FUNC_ARGS:
                leaf = {"matchesRe": {"r": 0, "flags": fl, "func": fn}}
                ws = list(_wrappers(leaf))
                for w in (ws if full else [ws[0], rng.choice(ws[1:])]):
                    root, rest = vals[0], vals[1:]
                    if "deepIter" in w:
                        root, rest = ["list", vals[:4]], [["list", vals[4:11]], ["tuple", list(reversed(vals))[:3]]]
                    P = Ctx(rng).P
                    P.update(regex=[rd], value=root, salt=3,
                             history=[{"ops": [], "fresh": i % 3 == 2, "value": v} for i, v in enumerate(rest)])
                    yield {"tree": w, "tree2": copy.deepcopy(w), "purge": False, "params": P, "cfg": dict(_CFG0)}


_HISTORIES = [
    # (root, [(ops, value | ref, fresh)])
    (I(-5), [([], I(7), False), ([], I(0), True), ([], ["bool", True], False), ([], I(-5), True)]),
    (I(1), [([], ["bool", True], False), ([], ["float", (1.0).hex()], True), ([], S("1"), False)]),
    (["winst", "Circle", []], [([["register", ["wabc", "Shape"], ["wcls", "Circle"]]], 0, False), ([], ["winst", "Circle", []], True),
                               ([], ["winst", "Square", []], False)]),
    (["winst", "Bag", [["x", I(1)]]], [([], ["winst", "Bag", []], False), ([["delattr", 0, "x"]], 0, True),
                                       ([["setattr", 1, "x", I(2)]], 1, False), ([], ["winst", "Bag", [["a", I(1)]]], True)]),
    (["list", []], [([["append", 0, I(1)]], 0, False), ([["append", 0, S("a")]], 0, True), ([], ["list", [I(1)]], False)]),
    (S(""), [([], S("a"), False), ([], ["bytes", "a"], True), ([], NONE, False), ([], S(""), True)]),
]


def history_specs(rng, full):
    """instance_of (and a few other leaves) under wrappers over scripted histories: values of one class in different
    states, equal values of different classes, ABC registration / attribute changes between the calls"""
    types = [["cls", "int"], ["cls", "bool"], ["tuple", [["cls", "int"], ["cls", "str"]]], ["cls", "Sized"], ["cls", "Hashable"]]
    types += [w[0] for w in WORLD_TYPES]
    leaves = [("types", t, {"instOf": {"t": 0}}) for t in types]
    leaves += [("opts", ["tuple", [I(1), S("")]], {"in_": {"o": 0}}), ("bounds", I(0), {"num": {"op": "gt", "b": 0}}),
               ("none", None, {"minLen": {"b": {"int": {"n": 1}}}}), ("none", None, "isCallable")]
    for table, d, leaf in leaves:
        ws = list(_wrappers(leaf))
        for w in (ws if full else [ws[0], rng.choice(ws[1:])]):
            for root, steps in _HISTORIES:
                P = Ctx(rng).P
                if table != "none":
                    P[table] = [d]
                if "deepIter" in w:
                    r0 = ["list", [root]]
                    hist = [{"ops": ops, "fresh": fr, **({"value": ["list", [v]]} if not isinstance(v, int) else {"value": r0})}
                            for ops, v, fr in steps if not any(op[0] in ("delattr", "setattr", "append") for op in ops)]
                    P.update(value=r0, history=hist, salt=5)
                else:
                    hist = [{"ops": ops, "fresh": fr, **({"ref": v} if isinstance(v, int) else {"value": v})} for ops, v, fr in steps]
                    P.update(value=root, history=hist, salt=5)
                yield {"tree": w, "tree2": copy.deepcopy(w), "purge": False, "params": P, "cfg": dict(_CFG0)}


_LIARS = [
    ["liar", {"name": "icall", "inst": ["__call__"]}], ["liar", {"name": "ilen", "inst": ["__len__", "__iter__", "__contains__"]}],
    ["liar", {"name": "iord", "inst": ["__lt__", "__le__", "__gt__", "__ge__", "__eq__", "__hash__"]}],
    ["liar", {"name": "iall", "inst": sorted(_LIAR_DUNDERS)}], ["liar", {"name": "gall", "getattr": "all"}],
    ["liar", {"name": "graise", "getattr": ["raise", "valueError"]}], ["liar", {"name": "gbase", "getattr": ["raise", "userBase"]}],
    ["liar", {"name": "cint", "cls": "int"}], ["liar", {"name": "cstr", "cls": "str"}], ["liar", {"name": "ccall", "cls": "Callable"}],
    ["liar", {"name": "mix", "inst": ["__call__", "__len__"], "cls": "list", "getattr": "all"}],
    ["ns", [["__call__", ["fn", "len"]]]], ["ns", [["__len__", ["fn", "len"]], ["__lt__", ["fn", "len"]]]],
    ["module", "plugin", [["__call__", ["fn", "len"]]]], ["strsub", "aa"], ["intsub", 1], ["tuplesub", [I(1)]], ["decimal", "1"],
    ["fn", "len"], ["cls", "int"], I(1), S("aa"),
]


def _hist(values, fresh_every=3):
    return [{"ops": [], "fresh": i % fresh_every == fresh_every - 1, "value": v} for i, v in enumerate(values)]


def liar_specs(rng, full):
    """every kind of leaf under wrappers over objects whose attribute protocol lies (instance-level dunders, catch-all
    __getattr__, __class__ property, namespace / module with dunder attributes) and over subclass instances"""
    leaves = [
        ("none", None, "isCallable"),
        ("types", ["cls", "int"], {"instOf": {"t": 0}}), ("types", ["cls", "Callable"], {"instOf": {"t": 0}}),
        ("types", ["cls", "Sized"], {"instOf": {"t": 0}}), ("types", ["cls", "str"], {"instOf": {"t": 0}}),
        ("types", ["Hsubtype", "T", True], {"instOf": {"t": 0}}), ("types", ["tuple", [["cls", "list"], ["cls", "Container"]]], {"instOf": {"t": 0}}),
        ("opts", ["list", [I(1), S("aa")]], {"in_": {"o": 0}}), ("opts", LIAR_OPTS[0], {"in_": {"o": 0}}), ("opts", LIAR_OPTS[1], {"in_": {"o": 0}}),
        ("opts", LIAR_OPTS[2], {"in_": {"o": 0}}),
        ("bounds", I(2), {"num": {"op": "lt", "b": 0}}), ("bounds", I(0), {"num": {"op": "ge", "b": 0}}),
        ("bounds", LIAR_BOUNDS[0], {"num": {"op": "lt", "b": 0}}), ("bounds", LIAR_BOUNDS[1], {"num": {"op": "gt", "b": 0}}),
        ("none", None, {"maxLen": {"b": {"int": {"n": 1}}}}), ("none", None, {"minLen": {"b": {"int": {"n": 1}}}}),
        ("regex", S("a+"), {"matchesRe": {"r": 0, "flags": 0, "func": "dflt"}}),
        ("regex", S("a"), {"matchesRe": {"r": 0, "flags": 0, "func": {"named": {"s": "search"}}}}),
    ]
    for table, d, leaf in leaves:
        ws = list(_wrappers(leaf))
        for w in (ws if full else [ws[0], rng.choice(ws[1:])]):
            P = Ctx(rng).P
            if table != "none":
                P[table] = [d]
            vals = list(_LIARS)
            if "deepIter" in w:
                vals = [["list", vals[i:i + 3]] for i in range(0, len(vals), 3)] + [["tuple", [vals[0], vals[18]]]]
            P.update(value=vals[0], history=_hist(vals[1:]), salt=11)
            yield {"tree": w, "tree2": copy.deepcopy(w), "purge": False, "params": P, "cfg": dict(_CFG0)}


def _orders(g, full, rng):
    """orderings of 2 and 3 members of a twin group"""
    out = [list(p) for p in itertools.permutations(g, 2)]
    out += [list(p) for p in itertools.permutations(g[:4], 3)]
    if not full and len(out) > 10:
        out = rng.sample(out, 10)
    return out


def opts_specs(rng, full):
    """in_ over every option container whose membership is not item equality (and the look-alikes whose membership
    is), under wrappers, each over a history of values inside / on the edge / outside / of an incomparable type;
    the second expression is built from an equal container (== and hash clause)"""
    for d, vals in SPECIAL_OPTS:
        leaf = {"in_": {"o": 0}}
        ws = list(_wrappers(leaf))
        for w in (ws if full else [ws[0], rng.choice(ws[1:])]):
            P = Ctx(rng).P
            P["opts"] = [d]
            vs = list(vals)
            if "deepIter" in w:
                vs = [["list", vs[i:i + 3]] for i in range(0, len(vs), 3)]
            P.update(value=vs[0], history=_hist(vs[1:]), salt=17)
            yield {"tree": w, "tree2": copy.deepcopy(w), "purge": False, "params": P, "cfg": dict(_CFG0)}


def twin_specs(rng, full):
    """every container validator over containers whose members / keys / values are equal but distinguishable
    (1, 1.0, True, Decimal(1), Fraction(1), int subclass; "a", str subclass; ...), in every order, with
    member validators that tell them apart"""
    members = [
        ("types", ["cls", "int"], {"instOf": {"t": 0}}), ("types", ["cls", "float"], {"instOf": {"t": 0}}), ("types", ["cls", "bool"], {"instOf": {"t": 0}}),
        ("types", ["cls", "Decimal"], {"instOf": {"t": 0}}), ("types", ["cls", "str"], {"instOf": {"t": 0}}), ("types", ["cls", "StrSub"], {"instOf": {"t": 0}}),
        ("types", ["cls", "Integral"], {"instOf": {"t": 0}}), ("types", ["cls", "tuple"], {"instOf": {"t": 0}}),
        ("types", ["cls", "bool"], {"not_": {"v": {"instOf": {"t": 0}}, "msg": 0, "exc": "dflt"}}),
        ("types", ["cls", "TupleSub"], {"not_": {"v": {"instOf": {"t": 0}}, "msg": 0, "exc": "dflt"}}),
        ("opts", ["tuple", [I(1), S("a")]], {"in_": {"o": 0}}), ("bounds", I(1), {"num": {"op": "ge", "b": 0}}),
        ("probes", {"0": {"choices": ["pass", "userValErr", "pass", "keyError"]}}, {"probe": {"p": 0, "retv": False}}),
    ]
    anykey = {"probe": {"p": 7, "retv": False}}
    for table, d, m in members:
        for gi, g in enumerate(TWINS):
            orders = _orders(g, full, rng)
            forms = [
                ({"deepIter": {"m": m, "it": "noneV"}}, [["list", o] for o in orders]),
                ({"deepIterSeq": {"isTuple": False, "ms": [m, m], "it": "noneV"}}, [["tuple", o] for o in orders]),
                ({"deepMap": {"k": anykey, "v": m, "m": "noneV"}}, [["dict", [[S("pqr"[i]), x] for i, x in enumerate(o)]] for o in orders]),
                ({"deepMap": {"k": m, "v": anykey, "m": "noneV"}},
                 [H(f"tk{gi}_{j}", iter=["yield", o, None], getitem=["map", [[x, I(j)] for x in o[:1]], "keyError"], len=["ret", I(len(o))])
                  for j, o in enumerate(orders)]),
                ({"deepIter": {"m": {"deepMap": {"k": anykey, "v": m, "m": "noneV"}}, "it": "noneV"}},
                 [["list", [["dict", [[S("p"), o[0]]]], ["dict", [[S("q"), x] for x in o[1:2]] + [[S("r"), o[-1]]]]]] for o in orders]),
                ({"optional": {"v": {"and_": {"vs": [{"deepMap": {"k": anykey, "v": m, "m": "noneV"}}]}}}},
                 [["dict", [[I(i), x] for i, x in enumerate(reversed(o))]] for o in orders]),
            ]
            for w, vals in (forms if full else rng.sample(forms, 3)):
                P = Ctx(rng).P
                P["probes"] = {"7": {"choices": ["pass"]}}
                if table == "probes":
                    P["probes"].update(d)
                else:
                    P[table] = [d]
                P.update(value=vals[0], history=_hist(vals[1:9]), salt=13)
                yield {"tree": w, "tree2": copy.deepcopy(w), "purge": False, "params": P, "cfg": dict(_CFG0)}


def _try(spec):
    try:
        yield complete(spec)
    except Exception:  # noqa: BLE001  -- a candidate that cannot be completed is simply not offered
        return


def gen_cases(tier, rng):
    # deterministic blocks: every expression of depth <= 1 (quick) / <= 2 (thorough) over the reduced pools;
    # the regex pool x flags x funcs x forms over derived values; scripted histories over the type pool
    full = tier != "quick"
    blocks = itertools.chain(exhaustive_specs(rng, 2 if full else 1), regex_specs(rng, full), history_specs(rng, full),
                             liar_specs(rng, full), opts_specs(rng, full), twin_specs(rng, full), (random_spec(rng) for _ in range(1 << 30)))
    for s in blocks:
        try:
            yield complete(s)
        except Unrepresentable:
            continue


# ------------------------------------------------------------------ reporting helpers
def _root(t):
    return t if isinstance(t, str) else next(iter(t))


def _depth(t):
    return 1 + max([_depth(c) for c in _children(t)], default=0)


def nontrivial(case, model):
    return bool(model) and model.get("build") is None


def dist(case, obs):
    o = obs if isinstance(obs, dict) else {}
    v = case["params"]["value"]
    return {
        "root": _root(case["tree"]),
        "depth": _depth(case["tree"]),
        "value": v[0] if v[0] != "H" else "hostile",
        "build": o.get("build"),
        "outcome": "accept" if (o.get("build") is None and o.get("outcome") is None) else o.get("outcome") or "n/a",
        "variant": case.get("cfg", {}).get("variant"),
        "eq": str(o.get("eq")) if o.get("build") is None and o.get("build2") is None else "n/a",
        "trace_len": min(len(o.get("trace", [])), 6),
        "n_values": min(len(case.get("vals", [])), 12),
        "retNone": o.get("retNone"),
        "history_len": len(case["params"].get("history", [])),
        "history_ops": sorted({op[0] for st in case["params"].get("history", []) for op in st.get("ops", [])}) or "none",
        "history_outcomes": len({json.dumps(x.get("outcome")) for x in [o] + o.get("more", [])}) if o.get("build") is None else "n/a",
        "in_literal_differs": case.get("info", {}).get("in_literal_differs", 0) > 0,
    }


def shrink(case):
    s = spec_of(case)
    t = s["tree"]
    # a child instead of the expression (the second expression follows)
    for c in _children(t):
        if c == "noneV":
            continue
        try:
            yield from _try(dict(s, tree=c, tree2=copy.deepcopy(c), purge=False))
        except Exception:  # noqa: BLE001
            continue
    # drop one element of a list node
    if isinstance(t, dict):
        (tag, a), = t.items()
        for key in ("vs", "ms"):
            if key in a and len(a[key]) > 0:
                for i in range(len(a[key])):
                    t2 = {tag: dict(a, **{key: a[key][:i] + a[key][i + 1:]})}
                    yield from _try(dict(s, tree=t2, tree2=copy.deepcopy(t2), purge=False))
    if s["tree2"] != s["tree"] or s.get("purge"):
        yield from _try(dict(s, tree2=copy.deepcopy(s["tree"]), purge=False))
    # shorten the history from the end; make every call use the original validator object
    hist = s["params"].get("history", [])
    if hist:
        yield from _try(dict(s, params=dict(s["params"], history=hist[:-1])))
        if any(st.get("fresh") for st in hist):
            yield from _try(dict(s, params=dict(s["params"], history=[dict(st, fresh=False) for st in hist])))
    for v in (NONE, I(1), S("a"), ["list", []]):
        if s["params"]["value"] != v and not hist:
            P = dict(s["params"], value=v)
            yield from _try(dict(s, params=P))
    # members of a container value
    v = s["params"]["value"]
    if v[0] in ("list", "tuple") and len(v[1]) > 1:
        for i in range(len(v[1])):
            yield from _try(dict(s, params=dict(s["params"], value=[v[0], v[1][:i] + v[1][i + 1:]])))
    cfg = s.get("cfg", {})
    base = {"api": "attr.s", "inst_none": False, "explicit_none": False}
    for k, val in base.items():
        if cfg.get(k) != val:
            yield from _try(dict(s, cfg=dict(cfg, **{k: val})))


def neighbours(case, rng):
    s = spec_of(case)
    pool = VALUES_PLAIN + [hostile_values(rng) for _ in range(10)]
    for v in rng.sample(pool, 25):
        try:
            yield from _try(dict(s, params=dict(s["params"], value=v)))
        except Exception:  # noqa: BLE001
            continue
    yield from shrink(case)


LEVEL_TEXT = ("40 Lean theorems, all by structural induction over arbitrary validator expressions (any depth, any list lengths), "
              "arbitrary values and an arbitrary oracle for the primitive tests. C18_compositional / _built: the model of "
              "validator(inst, attr, value) -- for the expression as written and for the spliced object the constructors build -- "
              "returns iff the declarative predicate tree `sat` holds and otherwise raises exactly `excOf` (the primitive's own "
              "exception, else the documented class; first failure of and_; ValueError or the first non-Exception for or_; "
              "ValueError or the uncaptured exception for not_; container validator, members in order, end of iteration for "
              "deep_*). Clause-by-clause readings of `sat` (C18_sat_instance_of/in/num/len_bound/matches_re/is_callable/optional/"
              "and/or/or_any/not/deep_iterable/deep_mapping, C18_in_typeerror_absent, C18_documented_exception, "
              "C18_primitive_exception_propagates). Order of evaluation with the exact call trace: C18_and_order_first_failure, "
              "C18_and_all_accept, C18_and_cases, C18_or_order, C18_deep_iterable_order, C18_deep_mapping_item_order. "
              "C18_and_flatten / C18_or_flatten (semantic, structural, flat), C18_norm_sound, C18_sat_norm. C18_not_involution. "
              "C18_returns_none_value_unchanged (None returned; every sub-validator call receives the root value or something "
              "reached from it by iteration / value[key]). C18_equal_params_equal (pairwise == parameters => == validators, and "
              "hashable with equal hashes when the parameters are hashable, outside K9, under the stated coherence of the "
              "parameter objects: hash contract, == regexes compile to == patterns); C18_purge_irrelevant / C18_K18a_repaired (since the "
              "K18a repair matches_re is compared by pattern and method name, so a purged re cache between two constructions no longer matters). C18_re_funcs_documented (valid_funcs table extracted from the "
              "source), C18_constructor_domain (constructor raises nothing iff arguments are in the documented domain). "
              "C18_history_stateless / C18_history_append (in a history of calls every call is judged by the predicate on its own value with "
              "the primitives of its own time -- the model keeps no state; observed on the code through multi-call histories with world "
              "changes). C18_model_meets_spec; witness C18_K9_witness. NOT proved, only observed: the primitive tests "
              "themselves (isinstance, in, operator.*, len, re.*, callable, iteration, value[key]) are oracle inputs computed with "
              "plain Python from the documented definition; 'value unchanged' is an observation (canonical description before/after). "
              "The model (src/attr/validators.py and and_/_AndValidator in _make.py, incl. constructor argument checks and the "
              "generated __eq__/__hash__) is tied to the code by a differential correspondence: random expressions to depth 4 over "
              "all constructors x heterogeneous and hostile values and parameters (about 40-60 k cases per quick run, 340 k per "
              "thorough run), plus every expression of depth <= 1 (quick) / <= 2 (thorough) over a reduced pool of 17 leaves x 16 "
              "values; compared: constructor exception, outcome class, return value None, value unchanged, call trace of scripted "
              "user validators (with the instance/attribute handed down), == and hash of a second construction.")
