"""C11 -- repr format, cycle safety, residue-freedom and thread isolation.

Case = the Lean `Attrs.C11.Case`: a heap of nodes (attrs instances of several classes / list / tuple / dict /
atoms, arbitrary cycles), the root to render, whether the rendering thread is `warm` (has rendered an attrs
instance before, so `repr_context.already_repring` exists) and a thread scenario (`threads` concurrent
`repr(root)` calls; `sched` is the interleaving the *model* executes -- the result is proved independent of it).
Classes carry harness-only `cfg` (front-end, slots, frozen, where `str=True` sits, plain runtime subclass,
defaults) which the model ignores: that the verdict is the same for every `cfg` is part of what is checked.

Every repr callable is instrumented: it returns `tag` or `tag<repr(value)>`, raises `UserError(tag)` before or
after rendering its value while faults are armed (first call only), and in the thread scenario is the place
where all threads meet at a barrier, i.e. every thread is inside `__repr__` of the root when the others enter.
"""
from __future__ import annotations

import contextvars
import copy
import functools
import itertools
import json
import re
import sys
import threading
import types
import warnings

import attr
import attrs

import c11_ir
import common

ID = "C11"
RULE = ("T3 (both tiers): one `script` case per generated class -- the real source text of the `__repr__` its instances run, "
        "parsed into the IR of Model/C11IR.lean together with what each helper global is bound to, compared syntactically with "
        "the model generator's script and executed in Lean on a canonical family of heaps over the class (all fields set / none / "
        "each unset / every field pointing back directly, through a list, through a second instance; fresh and warm; armed, again, "
        "str; two interleaved threads). T2: cases = heap (1..5 nodes quick / ..6 thorough: attrs instances of 1..3 classes, lists, tuples, dicts, atoms; "
        "random edges, so self-references and cycles through containers and other instances are the norm) x per class "
        "(1..3 inheritance layers, per-field repr in {True, False, callable(tag, recursing or not)} x init x set/unset, "
        "nesting of the class statement in functions/classes, plain runtime subclass (optionally overriding __repr__ around super's), repr_ns, str=True on leaf or base, "
        "plain base with own __str__) x cfg (attr.s/define/mutable/frozen, slots, defaults; ancestors defined in the same scope as the runtime class, in any "
        "enclosing scope of it (so its scope chain extends theirs), at module level or in a sibling function; the runtime "
        "subclass plain, attrs with repr=False (inherits the generated repr) or overriding; class-level history: nothing rendered before / an instance of every ancestor rendered first / the "
        "runtime class first; repr callables with per-field, shared (`fmt`) or functools.wraps'd `__name__`, as functions or as callable objects "
        "that are truthy / have len 0 / bool False / a raising __bool__; per-field options that must not influence the repr (kw_only, "
        "eq/order/hash, converter, validator, alias, default presence) and keyword-only layers; the class's module (a synthetic "
        "module in sys.modules while the classes are decorated) optionally binding id / getattr / AttributeError / _compat / NOTHING "
        "to junk; multiple inheritance `mi` (the last layer's fields in a side class -- a sibling of the chain or a second child of its last-but-one class (diamond) -- and the class itself a field-less attrs class combining both, base order chosen per front-end so the field order stays the layers' order); an own `__str__` in the body of the class given str=True, with attr.s(auto_detect=True) or the define family; tolerant callables that swallow whatever rendering "
        "their value raises (model: catch node), combined with faults below and later back-references) x fresh/warm thread x a fault "
        "(before/after rendering) in one callable x thread scenario (0, 2, 3 threads meeting at a barrier inside a callable; the threads plain, "
        "or started through contextvars.copy_context().run copies of the context of a spawning thread that has already rendered an unrelated attrs instance / the root itself). "
        "A structured block enumerates cycle shapes x field kinds x every callable fault position first. Non-trivial = "
        "the rendering contains a cycle marker, a fault, an unset field, a callable or a thread scenario; distinct = distinct JSON case")
ASSUMPTIONS = [
    "per-field options other than repr/init, keyword-only layers and the globals of the class's module are harness-only variation the model and the property are independent of; T3 additionally records what every free name of the generated __repr__ resolves to (builtin bound in the globals / attr._compat / attr.NOTHING / unpinned / foreign) and the model generator predicts it (C11_free_names_pinned ties the names to the T1 list of pinned globals)",
    "T3: the parser harness/c11_ir.py (ast -> IR, strict: unknown forms stay `unknown`) and the description each instrumented callable carries of itself (`spec`, read back through the generated function's __globals__) are trusted; `execScript` gives the IR its meaning in Lean",
    "a rendering that does not come back within 10 s is observed as `exc timeout` (non-termination) and its thread is cancelled",
    "class-level history (which classes of the chain rendered an instance earlier) and the `__name__` of the repr callables are harness-only variation: the model and the property are independent of both; the history is applied when a class is built (cache key contains it) so a replay in a fresh process sees the same history",
    "how the threads are started (`ctx`: plain / inside copies of the spawner's context after the spawner rendered something) is harness-only variation: the model's threads each own a fresh already_repring whatever the spawner did",
    "threading.local gives every thread its own already_repring: runtime behaviour, observed through forced schedules, not proved",
    "CPython's own recursion guard for list/tuple/dict repr (Py_ReprEnter/Leave) and object.__str__ -> repr are modelled as small functions and diff-tested here",
    "the real thread schedule is forced only up to 'all N threads are inside repr(root), in a field's callable, at the same time' (barrier; a timeout is recorded, not alarmed); finer interleavings are covered by the theorem over all schedules of the model's atomic steps",
    "the inheritance shape that delivers the fields (linear chain / combining class over a sibling or a diamond), an own __str__ next to str=True and auto_detect are harness-only variation: the model sees the flattened field list and the str flag only",
    "heap mutation during a rendering is out of scope (the heap is immutable while repr runs)",
    "instrumented callables return str; atoms are objects whose repr is a bare token",
]
TRUSTED = [
    "T3 for C11: harness/c11_ir.py (Python `ast` of the generated __repr__'s real source -> IR of Model/C11IR.lean; unknown forms are kept as `unknown`), the T1-extracted naming pattern of the helper globals, and `execScript` as the meaning of that IR",
]
EXHAUSTIVE = {"quick": False, "thorough": False}
BUDGET_S = {"quick": 24, "thorough": 400}
PARALLEL = True
LEVEL_TEXT = (
    "Lean theorems about an executable model of _make_repr_script/add_repr/add_str/repr_ns and repr_context over heaps with "
    "arbitrary cycles, written as resumptions of atomic steps on the bookkeeping state (already_repring, CPython's guard list): "
    "C11_format(_general) (arbitrary field lists: Name(f=r, ...) over the repr-enabled fields in order, each r the independent "
    "rendering of the value below the instance; first failing field wins), C11_qualname (rsplit('>.',1)[-1] = scopes after the "
    "last function scope), C11_terminates/_top/C11_fuel_irrelevant (fuel |heap|+1 is never exhausted on any graph; more fuel "
    "changes nothing), C11_cycle_dots(_path), C11_no_residue (every entry state; after return or raise), C11_caught_fault_no_residue (a tolerant callable that swallows a fault from below leaves the marks of the enclosing instances intact), C11_repr_again_complete "
    "(after any history of renderings, raising or not), C11_str_same, C11_thread_independent/_pending/C11_threads_complete/"
    "C11_thread_finishes (any number of threads, every interleaving of atomic steps), C11_shared_state_breaks(+_keyerror) "
    "(decided witness schedules for one shared set), C11_shared_sequential_ok (the shared variant is correct without overlap), "
    "C11_model_meets_spec (stateful interleaved model = stateless ancestor-path rendering, for all well-formed cases). "
    "T3: C11_script_correct (for every field list with distinct names, repr_ns and operand, executing the script the model "
    "generator emits IS the model's attrsRepr around the model's f-string -- equal as resumptions, atomic step by atomic step), "
    "C11_script_heap_correct, C11_script_model_meets_spec; the source text of every generated class's __repr__ is parsed "
    "(harness/c11_ir.py, strict) and must equal the generator's script, so all theorems above are about the text that really "
    "runs for that class; the observed script is also executed in Lean on a canonical operand family. "
    "Tied to /repo by differential correspondence on exact repr/str strings, repr after a faulted repr (Exception and "
    "BaseException faults, before/after rendering the value), the content of already_repring after each call, fresh and warm "
    "threads, and per-thread results of 2 and 3 threads forced by barriers to be inside repr(root) simultaneously. "
    "threading.local's per-thread semantics, CPython's container guards and object.__str__ are observed, not proved; "
    "the ast-to-IR parser and the callables' self-descriptions are trusted.")

BARRIER_TIMEOUT = 2.0
JOIN_TIMEOUT = 10.0

# ------------------------------------------------------------------------------------------ instrumentation
TL = threading.local()        # per-thread: mid (barrier), waited, sync
ARMED = [False]
ABORT = [False]               # faults raise a BaseException that is not an Exception (harness-only case key `abort`)


GEN = [0]                     # observation generation: callables of a cancelled (runaway) observation see a stale one


class HarnessCancel(BaseException):
    """raised inside the instrumented callables of an observation that was given up (it did not terminate)"""


def _cancel_threads(threads):
    """stop runaway observation threads: stale generation for the callables + an async exception"""
    import ctypes
    GEN[0] += 1
    for t in threads:
        if t.is_alive() and t.ident is not None:
            ctypes.pythonapi.PyThreadState_SetAsyncExc(ctypes.c_ulong(t.ident), ctypes.py_object(HarnessCancel))
    for t in threads:
        t.join(3.0)


TIMEOUT_OUT = {"exc": {"k": "timeout"}}


class UserAbort(BaseException):
    """a fault that `except Exception` does not see (KeyboardInterrupt-like)"""

    def __init__(self, token):
        super().__init__(token)
        self.token = token


def _raise(tag):
    raise (UserAbort(tag) if ABORT[0] else common.UserError(tag))



class Tok:
    """atom whose repr is its bare text"""
    __slots__ = ("s",)

    def __init__(self, s):
        self.s = s

    def __repr__(self):
        return self.s

    def __eq__(self, o):
        return isinstance(o, Tok) and o.s == self.s

    def __hash__(self):
        return hash(("Tok", self.s))


def atom(s):
    return int(s) if s.isdigit() and (s == "0" or not s.startswith("0")) else Tok(s)


def fmt(v):          # the function the "wraps" callables claim to be
    return repr(v)


class CallableObj:
    """a repr callable that is an object, with scripted truthiness (`repr=` accepts any callable; whether the
    callable is truthy must not matter)"""

    def __init__(self, fn, truth):
        self.fn, self.truth = fn, truth
        self.__name__ = fn.__name__
        self.__qualname__ = fn.__qualname__

    def __call__(self, v):
        return self.fn(v)

    def __len__(self):
        if self.truth == "len0":
            return 0
        return 3

    def __bool__(self):
        if self.truth == "boolRaise":
            raise TypeError("truth value of a formatter asked for")
        return self.truth not in ("boolF", "len0")


def mk_callable(tag, recurse, tol=False, name_mode="field"):
    """the fault mode is an attribute of the function object, set per case (classes are cached).
    `name_mode`: what the callable's `__name__` is -- "field": unique per field; "same": every callable of the
    class is called `fmt` (closures of one factory); "wraps": functools.wraps wrappers of one function.  The
    rendering always carries the field's own tag, so a field rendered by another field's callable shows."""
    def repr_cb(v):
        if getattr(TL, "gen", GEN[0]) != GEN[0]:
            raise HarnessCancel()
        mid = getattr(TL, "mid", None)
        if mid is not None and not TL.waited:
            TL.waited = True
            try:
                mid.wait(BARRIER_TIMEOUT)
                TL.sync = "met"
            except threading.BrokenBarrierError:
                TL.sync = "timeout"
        fault = repr_cb.fault
        if ARMED[0] and fault == "pre":
            _raise(tag)
        if not recurse:
            s = tag
        elif tol:
            # tolerant formatter: whatever rendering the value raises is swallowed
            try:
                inner = repr(v)
            except (RecursionError, MemoryError, HarnessCancel):
                raise          # never reached on a correct tree; keeps a runaway rendering linear instead of exponential
            except BaseException:  # noqa: BLE001
                inner = "!"
            s = tag + "<" + inner + ">"
        else:
            s = tag + "<" + repr(v) + ">"
        if ARMED[0] and fault == "post":
            _raise(tag)
        return s

    if name_mode == "wraps":
        functools.update_wrapper(repr_cb, fmt)
    elif name_mode == "same":
        repr_cb.__name__ = "fmt"
        repr_cb.__qualname__ = "make_formatter.<locals>.fmt"
    else:
        repr_cb.__name__ = "repr_" + tag
    repr_cb.fault = "no"
    repr_cb.spec = {"tag": tag, "recurse": recurse, "tol": tol}     # read back by c11_ir (which callable a helper global holds)
    return repr_cb


class PlainRoot:
    def __str__(self):
        return "BASESTR"


@attr.s
class _Warm:
    pass


_WARM = _Warm()

# ------------------------------------------------------------------------------------------ classes
_CLASS_CACHE: dict = {}
_DECOS = {"attr.s": attr.s, "define": attrs.define, "mutable": attrs.mutable, "frozen": attrs.frozen}


def _ib(f, cfg, cbs):
    kw = {}
    r = f["repr"]
    if r == "on":
        if cfg.get("explicit_true", False):
            kw["repr"] = True
    elif r == "off":
        kw["repr"] = False
    else:
        c = r["call"]
        fn = cbs[f["name"]] = mk_callable(c["tag"], c["recurse"], c.get("tol", False), cfg.get("cbNames", "field"))
        obj = cfg.get("cbObj", "func")
        kw["repr"] = fn if obj == "func" else CallableObj(fn, obj)
    if not f["init"]:
        kw["init"] = False
        if f["name"] in cfg.get("dflt", []):
            kw["default"] = None
    # per-field options that must not influence the repr (order, presence, rendering): harness-only variation
    o = cfg.get("fopts", {}).get(f["name"], {})
    if o.get("kw_only"):
        kw["kw_only"] = True
    if o.get("eq") is False:
        kw["eq"] = False
    elif o.get("order") is False:
        kw["order"] = False
    if o.get("hash") is False:
        kw["hash"] = False
    if o.get("conv"):
        kw["converter"] = _identity
    if o.get("val"):
        kw["validator"] = _accept
    if o.get("alias"):
        kw["alias"] = "al_" + f["name"]
    if f["init"] and o.get("default"):
        kw["default"] = None
    return attr.ib(**kw)


def _identity(v):
    return v


def _accept(inst, a, v):
    return None


# module-level names of the class's module that the generated __repr__ must not pick up
_MOD_JUNK = {
    "id": lambda: (lambda x: 0),
    "getattr": lambda: (lambda a, b: None),
    "AttributeError": lambda: type("AttributeError", (Exception,), {}),
    "_compat": lambda: object(),
    "NOTHING": lambda: "junk",
}
_MOD_COUNTER = [0]


def qualname_of(cls_spec):
    return "".join(s["name"] + (".<locals>." if s["fn"] else ".") for s in cls_spec["scopes"]) + cls_spec["name"]


def _nested_source(scopes, placed, sibling_stmts, result):
    """source text of a chain of class statements spread over a nest of scopes.  `placed[k]` are the statements
    written inside the first k scopes (k = 0: module level, k = len(scopes): next to the runtime class, in between:
    the runtime class's scope chain EXTENDS the scope chain of those classes); `sibling_stmts` go into a separate
    module-level function `sib`.  A statement is (decorator name | None, class name, base expression, body lines);
    bases are reached through the global registry `_reg`, so any placement resolves."""
    def stmt(st, pad):
        deco, name, base, body = st
        lines = [pad + "@" + deco] if deco else []
        lines.append(pad + f"class {name}({base}):")
        return lines + [pad + "    " + ln for ln in (body or ["pass"])]

    def rec(k, ind):
        pad = "    " * ind
        here = [ln for st in placed.get(k, []) for ln in stmt(st, pad)]
        if k == len(scopes):
            return here, result
        sc = scopes[k]
        inner, expr = rec(k + 1, ind + 1)
        if sc["fn"]:
            return here + [pad + f"def {sc['name']}():"] + inner + [pad + f"    return {expr}"], f"{sc['name']}()"
        return here + [pad + f"class {sc['name']}:"] + inner, f"{sc['name']}.{expr}"

    lines, expr = rec(0, 0)
    sib = []
    if sibling_stmts:
        sib = ["def sib():"] + [ln for st in sibling_stmts for ln in stmt(st, "    ")] + ["sib()"]
    return sib + lines + [f"_result = {expr}"]


def base_depth(cs):
    """how many leading scopes of the runtime class the ancestors share with it, or "sibling" """
    cfg = cs.get("cfg", {})
    n = len(cs["scopes"])
    place = cfg.get("basePlace", "same" if cfg.get("localBases", True) else "module")
    if place == "same":
        return n
    if place == "module":
        return 0
    if place == "sibling":
        return "sibling"
    return min(int(place), n)


_FAULT_RE = re.compile(r'"fault": "(?:pre|post)"')


def class_key(cs):
    """cache key: the spec without the fault modes (those are set on the callables per case)"""
    return _FAULT_RE.sub('"fault": "no"', json.dumps(cs, sort_keys=True))


def build_class(cs, occurrence=0):
    """-> (class, {field name: its callable}); cached on the spec without fault modes"""
    key = class_key(cs) + "#" + str(occurrence)
    got = _CLASS_CACHE.get(key)
    if got is not None:
        return got
    cbs = {}
    if len(_CLASS_CACHE) > 1500:
        _CLASS_CACHE.clear()
        common.purge_linecache()
    cfg = cs.get("cfg", {})
    api = cfg.get("api", "attr.s")
    if cs["reprNs"] is not None:
        api = "attr.s"
    layers = cs["layers"]
    n = len(layers)
    str_at = min(cfg.get("strAt", n - 1), n - 1) if cs["str"] else None
    plain_sub = cfg.get("plainSub", False) or cs["ovr"]
    # multiple inheritance (harness-only): the last layer's fields live in a side class `Side` (a sibling of the
    # chain: "combine", or a second child of the chain's last-but-one class: "diamond") and the class itself is a
    # field-less attrs class combining the chain and `Side`; the field order is still the layers' order
    mi = cfg.get("mi", "none") if n >= 2 else "none"
    own_str = "def __str__(self): return 'OWNSTR'"

    def deco_for(i):
        kw = {}
        if cfg.get("slots") is not None:
            kw["slots"] = cfg["slots"]
        if mi != "none":
            kw["slots"] = False            # two slotted bases with fields cannot be laid out
        if cfg.get("frozen") and api == "attr.s":
            kw["frozen"] = True
        if str_at == i:
            kw["str"] = True
        if i == (n - 1 if mi == "none" else "comb") and cs["reprNs"] is not None:
            kw["repr_ns"] = cs["reprNs"]
        if i in cfg.get("kwOnlyLayers", []):
            kw["kw_only"] = True
        if cfg.get("autoDetect") and api == "attr.s":
            kw["auto_detect"] = True       # define/mutable/frozen have it on by default
        if i == "comb" and mi != "none":
            kw["slots"] = False
        d = _DECOS[api]

        def deco(c):
            with warnings.catch_warnings():
                warnings.simplefilter("ignore", DeprecationWarning)
                return d(**kw)(c)
        return deco

    # the whole chain is written as class statements; the runtime class sits inside all of `scopes`, its ancestors
    # at `base_depth` (same scope / an enclosing scope / module level / a sibling function)
    reg = {}
    # the classes live in a synthetic module that is in sys.modules while they are decorated (attrs merges the
    # module's globals into the globals of the generated methods) and that may bind names the generated code uses
    _MOD_COUNTER[0] += 1
    modname = f"c11_synthetic_{_MOD_COUNTER[0]}"
    module = types.ModuleType(modname)
    glob = module.__dict__
    glob.update({"_root": PlainRoot if cs["plainStr"] else object, "_reg": reg})
    for nm in cfg.get("modGlobals", []):
        glob[nm] = _MOD_JUNK[nm]()

    def registering(d):
        def deco(c):
            c = d(c)
            reg[c.__name__] = c
            return c
        return deco

    stmts, base = [], "_root"
    attrs_names = [f"Base{i}" for i in range(n - 1)] + ["Leaf" if plain_sub else cs["name"]]
    if mi != "none":
        attrs_names = [f"Base{i}" for i in range(n - 1)] + ["Side"]
    for i, layer in enumerate(layers):
        glob[f"_deco{i}"] = registering(deco_for(i))
        glob[f"_mk{i}"] = {f["name"]: (lambda f=f: _ib(f, cfg, cbs)) for f in layer}
        body = [f"{f['name']} = _mk{i}[{f['name']!r}]()" for f in layer]
        if str_at == i and cfg.get("ownStr"):
            body.append(own_str)           # an own __str__ in the body of the class that gets str=True: str=True wins
        if mi != "none" and i == n - 1:
            side_base = f"_reg['Base{n - 3}']" if (mi == "diamond" and n >= 3) else "_root"
            stmts.append((f"_deco{i}", "Side", side_base, body))
            # attr.s collects base fields in MRO order, define & co. in reversed MRO order
            chain, side = f"_reg['Base{n - 2}']", "_reg['Side']"
            glob["_deco_comb"] = registering(deco_for("comb"))
            stmts.append(("_deco_comb", "Leaf" if plain_sub else cs["name"],
                          f"{chain}, {side}" if api == "attr.s" else f"{side}, {chain}", []))
            base = f"_reg[{('Leaf' if plain_sub else cs['name'])!r}]"
            break
        stmts.append((f"_deco{i}", attrs_names[i], base, body))
        base = f"_reg[{attrs_names[i]!r}]"
    if plain_sub:
        body = ["def __repr__(self):", "    return 'OVR<' + super().__repr__() + '>'"] if cs["ovr"] else []
        deco = None
        if cfg.get("subKind", "plain") == "norepr":
            # an attrs subclass that does not get a repr of its own: it inherits the generated one, and its own
            # field is not listed
            kw = {"repr": False}
            if cfg.get("slots") is not None:
                kw["slots"] = cfg["slots"]
            if mi != "none":
                kw["slots"] = False
            glob["_deco_sub"] = lambda c: _DECOS[api](**kw)(c)
            glob["_mk_sub"] = lambda: attr.ib(default=0)
            deco, body = "_deco_sub", ["zz_extra = _mk_sub()"] + body
        stmts.append((deco, cs["name"], base, body))
    depth = base_depth(cs)
    nsc = len(cs["scopes"])
    if depth == "sibling":
        src = _nested_source(cs["scopes"], {nsc: stmts[-1:]}, stmts[:-1], cs["name"])
    elif depth == nsc:
        src = _nested_source(cs["scopes"], {nsc: stmts}, [], cs["name"])
    else:
        src = _nested_source(cs["scopes"], {depth: stmts[:-1], nsc: stmts[-1:]}, [], cs["name"])
    sys.modules[modname] = module
    try:
        exec(compile("\n".join(src), "<c11 class>", "exec"), glob)  # noqa: S102
    finally:
        sys.modules.pop(modname, None)
    cls = glob["_result"]
    if cls.__qualname__ != qualname_of(cs):
        raise RuntimeError(f"harness: qualname {cls.__qualname__!r} != {qualname_of(cs)!r}")
    _pre_history(cls, cfg.get("pre", "none"))
    _CLASS_CACHE[key] = (cls, cbs)
    return cls, cbs


def _pre_history(cls, pre):
    """class-level history: which classes of the chain have rendered an instance before the case starts.
    Applied once, when the class is built (the cache key contains `pre`), so that every case that uses the class
    -- and a replay in a fresh process -- sees the same history."""
    if pre == "none":
        return
    chain = [k for k in reversed(cls.__mro__) if attr.has(k)]          # root first
    if cls not in chain:
        chain.append(cls)                                              # plain runtime subclass
    order = chain if pre == "bases_first" else [chain[-1]] + chain[:-1]
    for k in order:
        try:
            repr(k(**{a.alias: None for a in attr.fields(k) if a.init}))
        except Exception:  # noqa: BLE001, S110 -- the history must never fail the build
            pass


def all_fields(cs):
    return [f for layer in cs["layers"] for f in layer]


# ------------------------------------------------------------------------------------------ heaps
def _kind(node):
    return next(iter(node))


def build_heap(heap):
    classes, seen = [], {}
    for cs in heap["classes"]:
        k = class_key(cs)
        seen[k] = seen.get(k, -1) + 1
        cls, cbs = build_class(cs, seen[k])
        for f in all_fields(cs):
            if isinstance(f["repr"], dict):
                cbs[f["name"]].fault = f["repr"]["call"]["fault"]
        classes.append(cls)
    nodes = heap["nodes"]
    objs = [None] * len(nodes)
    for i, nd in enumerate(nodes):
        k = _kind(nd)
        if k == "atom":
            objs[i] = atom(nd["atom"]["s"])
        elif k == "list":
            objs[i] = []
        elif k == "dict":
            objs[i] = {}
        elif k == "inst":
            cs = heap["classes"][nd["inst"]["cls"]]
            k_ = classes[nd["inst"]["cls"]]
            objs[i] = k_(**{a.alias: None for a in attr.fields(k_) if a.init})
    # a tuple may hold tuples with smaller ids only (wf), so they exist when it is built
    for i, nd in enumerate(nodes):
        if _kind(nd) == "tuple":
            objs[i] = tuple(objs[j] for j in nd["tuple"]["items"])
    for i, nd in enumerate(nodes):
        k = _kind(nd)
        if k == "list":
            objs[i].extend(objs[j] for j in nd["list"]["items"])
        elif k == "dict":
            for key, j in nd["dict"]["items"]:
                objs[i][atom(key)] = objs[j]
        elif k == "inst":
            cs = heap["classes"][nd["inst"]["cls"]]
            vals = dict((a, b) for a, b in nd["inst"]["vals"])
            for f in all_fields(cs):
                if f["name"] in vals:
                    object.__setattr__(objs[i], f["name"], objs[vals[f["name"]]])
                else:
                    try:
                        object.__delattr__(objs[i], f["name"])
                    except AttributeError:
                        pass
    return objs


# ------------------------------------------------------------------------------------------ observation
def _attempt(thunk):
    try:
        v = thunk()
        if not isinstance(v, str):
            return {"exc": {"k": "other"}}
        return {"ok": {"s": v}}
    except HarnessCancel:
        raise
    except UserAbort as e:
        return {"exc": {"k": "user:" + e.token}}
    except BaseException as e:  # noqa: BLE001
        return {"exc": {"k": common.exc_kind(e)}}


def _residue(idmap):
    try:
        import attr._compat as ac
        s = ac.repr_context.__dict__.get("already_repring")
    except Exception:  # noqa: BLE001
        return []
    if not s:
        return []
    try:
        return sorted(idmap.get(x, 99) for x in s)
    except Exception:  # noqa: BLE001
        return [98]


def _sequential(root, idmap, warm):
    """three calls in one fresh thread.  A call that does not come back within JOIN_TIMEOUT is observed as
    `exc timeout` (the rendering does not terminate) and the thread is cancelled."""
    out, box = {}, {}

    def body():
        try:
            TL.gen = GEN[0]
            TL.mid = None
            if warm:
                repr(_WARM)
            ARMED[0] = True
            try:
                out["first"] = _attempt(lambda: repr(root))
            finally:
                ARMED[0] = False
            out["res1"] = _residue(idmap)
            out["again"] = _attempt(lambda: repr(root))
            out["res2"] = _residue(idmap)
            out["str"] = _attempt(lambda: str(root))
            out["res3"] = _residue(idmap)
        except HarnessCancel:
            pass
        except BaseException as e:  # noqa: BLE001
            box["e"] = e
    t = threading.Thread(target=body, daemon=True)
    t.start()
    t.join(JOIN_TIMEOUT)
    if t.is_alive():
        _cancel_threads([t])
        ARMED[0] = False
    if "e" in box:
        raise box["e"]
    res = dict(out)
    for k in ("first", "again", "str"):
        res.setdefault(k, TIMEOUT_OUT)
    for k in ("res1", "res2", "res3"):
        res.setdefault(k, [])
    return res


def _concurrent(root, idmap, warm, n, ctx="plain"):
    start = threading.Barrier(n)
    mid = threading.Barrier(n)
    outs = [None] * n
    syncs = [None] * n

    def _worker(i):
        TL.gen = GEN[0]
        TL.mid = None
        if warm:
            repr(_WARM)
        TL.mid, TL.waited, TL.sync = mid, False, "nocallable"
        try:
            start.wait(BARRIER_TIMEOUT)
        except threading.BrokenBarrierError:
            pass
        o = _attempt(lambda: repr(root))
        if not TL.waited:
            # this thread will never arrive: release the others at once
            mid.abort()
        TL.mid = None
        outs[i] = {"out": o, "residue": _residue(idmap)}
        syncs[i] = TL.sync

    def worker(i):
        try:
            _worker(i)
        except HarnessCancel:
            pass

    if ctx == "plain":
        ts = [threading.Thread(target=worker, args=(i,), daemon=True) for i in range(n)]
    else:
        # the workers run inside copies of the spawning thread's context (what asyncio.to_thread / run_in_executor
        # wrappers do), taken after the spawner has itself rendered attrs instances ("copied": an unrelated one;
        # "copied_root": also the root); the spawner is a thread of its own, so the history is the same in a replay
        box = {}

        def spawner():
            TL.gen = GEN[0]
            TL.mid = None
            try:
                repr(_WARM)
                if ctx == "copied_root":
                    _attempt(lambda: repr(root))
            except HarnessCancel:
                pass
            box["ts"] = [threading.Thread(target=contextvars.copy_context().run, args=(worker, i), daemon=True) for i in range(n)]
        sp = threading.Thread(target=spawner, daemon=True)
        sp.start()
        sp.join(JOIN_TIMEOUT)
        if "ts" not in box:
            _cancel_threads([sp])
            return [{"out": TIMEOUT_OUT, "residue": []} for _ in range(n)], "timeout"
        ts = box["ts"]
    sys.setswitchinterval(1e-5)      # restored by observe()
    for t in ts:
        t.start()
    for t in ts:
        t.join(JOIN_TIMEOUT)
    if any(o is None for o in outs):
        # a worker that does not come back: the rendering does not terminate -- observed as such, threads cancelled
        _cancel_threads(ts)
        for i in range(n):
            if outs[i] is None:
                outs[i] = {"out": TIMEOUT_OUT, "residue": []}
    sync = "met" if all(s == "met" for s in syncs) else ("nocallable" if all(s == "nocallable" for s in syncs) else "timeout")
    return outs, sync


def _build_failed(case, e):
    out = {"exc": {"k": "build:" + common.exc_kind(e)}}
    return {"first": out, "res1": [], "again": out, "res2": [], "str": out, "res3": [],
            "threads": [{"out": out, "residue": []} for _ in range(case["threads"])], "sync": "build-failed"}


def make_script_case(cs):
    """T3: the class alone; the observation is the parsed source of the generated `__repr__` its instances run"""
    return {"kind": "script", "cls": cs}


def is_script(case):
    return case.get("kind") == "script"


def observe_script(case):
    cs = case["cls"]
    try:
        cls, cbs = build_class(cs)
    except RuntimeError as e:
        if str(e).startswith("harness:"):
            raise
        return {"script": {"body": [{"unknown": {"src": "class could not be built: " + common.exc_kind(e)}}], "globs": [], "free": []}}
    except Exception as e:  # noqa: BLE001
        return {"script": {"body": [{"unknown": {"src": "class could not be built: " + common.exc_kind(e)}}], "globs": [], "free": []}}
    for f in all_fields(cs):
        if isinstance(f["repr"], dict):
            cbs[f["name"]].fault = f["repr"]["call"]["fault"]
    return {"script": c11_ir.parse_repr(cls)}


def observe(case):
    if is_script(case):
        return observe_script(case)
    sw = sys.getswitchinterval()
    try:
        ABORT[0] = bool(case.get("abort", False))
        try:
            objs = build_heap(case["heap"])
        except RuntimeError as e:
            if str(e).startswith("harness:"):
                raise
            return _build_failed(case, e)
        except Exception as e:  # noqa: BLE001 -- attrs refused / crashed on a legitimate class: that is an observation
            return _build_failed(case, e)
        root = objs[case["root"]]
        idmap = {}
        for i, o in enumerate(objs):
            idmap.setdefault(id(o), i)
        obs = _sequential(root, idmap, case["warm"])
        n = case["threads"]
        if n > 0:
            obs["threads"], obs["sync"] = _concurrent(root, idmap, case["warm"], n, case.get("ctx", "plain"))
        else:
            obs["threads"], obs["sync"] = [], "none"
        return obs
    finally:
        ARMED[0] = False
        ABORT[0] = False
        sys.setswitchinterval(sw)


# ------------------------------------------------------------------------------------------ generators
FIELD_NAMES = ["a", "b", "c", "d", "e", "f2", "g_h"]
SCOPES = [
    [], [], [],
    [{"name": "Outer", "fn": False}],
    [{"name": "mk", "fn": True}],
    [{"name": "mk", "fn": True}, {"name": "Outer", "fn": False}],
    [{"name": "Outer", "fn": False}, {"name": "meth", "fn": True}],
    [{"name": "mk", "fn": True}, {"name": "inner", "fn": True}],
    [{"name": "Outer", "fn": False}, {"name": "Inner", "fn": False}],
    [{"name": "mk", "fn": True}, {"name": "Outer", "fn": False}, {"name": "Inner", "fn": False}],
    [{"name": "Outer", "fn": False}, {"name": "meth", "fn": True}, {"name": "Inner", "fn": False}],
    [{"name": "mk", "fn": True}, {"name": "Outer", "fn": False}, {"name": "meth", "fn": True}],
    [{"name": "mk", "fn": True}, {"name": "inner", "fn": True}, {"name": "deep", "fn": True}],
    [{"name": "mk", "fn": True}, {"name": "inner", "fn": True}, {"name": "Outer", "fn": False}],
]
CLS_NAMES = ["C", "D", "Node", "Pt"]
BASE_CFG = {"api": "attr.s", "slots": None, "frozen": False, "plainSub": False, "strAt": 9, "dflt": [], "explicit_true": False,
            "pre": "none", "cbNames": "field", "basePlace": "same", "subKind": "plain", "cbObj": "func",
            "fopts": {}, "kwOnlyLayers": [], "modGlobals": [], "mi": "none", "ownStr": False, "autoDetect": False}


def rand_cfg(rng, names):
    return {
        "api": rng.choice(["attr.s", "attr.s", "define", "mutable", "frozen"]),
        "slots": rng.choice([None, True, False]),
        "frozen": rng.random() < 0.2,
        "plainSub": rng.random() < 0.3,
        "strAt": rng.choice([0, 1, 9, 9]),
        "dflt": [n for n in names if rng.random() < 0.5],
        "explicit_true": rng.random() < 0.5,
        "pre": rng.choice(["none", "none", "bases_first", "bases_first", "sub_first"]),
        "cbNames": rng.choice(["field", "same", "same", "wraps"]),
        "basePlace": rng.choice(["same", "same", "same", "module", "sibling", 0, 1, 1, 2, 2]),
        "subKind": rng.choice(["plain", "plain", "norepr"]),
        "cbObj": rng.choice(["func", "func", "func", "truthy", "len0", "boolF", "boolRaise"]),
        "fopts": rand_fopts(rng, names),
        "kwOnlyLayers": [i for i in range(3) if rng.random() < 0.15],
        "modGlobals": [nm for nm in sorted(_MOD_JUNK) if rng.random() < 0.2],
        "mi": rng.choice(["none", "none", "combine", "diamond"]),
        "ownStr": rng.random() < 0.4,
        "autoDetect": rng.random() < 0.4,
    }


def rand_fopts(rng, names):
    """options of a field that have nothing to do with its repr; defaults from a cut index on, so that no mandatory
    field follows a defaulted one whatever ends up keyword-only"""
    cut = rng.choice([0, 1, 2, 3, 9, 9, 9])
    out = {}
    for i, n in enumerate(names):
        eq = rng.random() < 0.85
        out[n] = {"kw_only": rng.random() < 0.3, "eq": eq, "order": (rng.random() < 0.8) if eq else False,
                  "hash": rng.random() < 0.85, "conv": rng.random() < 0.2, "val": rng.random() < 0.2,
                  "alias": rng.random() < 0.15, "default": i >= cut}
    return out


def rand_repr(rng, name, fault="no"):
    r = rng.random()
    if r < 0.4:
        return "on"
    if r < 0.55:
        return "off"
    rc = rng.random() < 0.65
    return {"call": {"tag": "R" + name, "recurse": rc, "fault": fault, "tol": rc and rng.random() < 0.35}}


def rand_class(rng, idx):
    k = rng.choice([0, 1, 1, 2, 2, 3, 3, 4, 5])
    names = FIELD_NAMES[:]
    rng.shuffle(names)
    names = names[:k]
    fields = [{"name": n, "repr": rand_repr(rng, n), "init": rng.random() < 0.7} for n in names]
    if idx == 0 and fields and rng.random() < 0.6 and not any(isinstance(f["repr"], dict) for f in fields):
        f = rng.choice(fields)
        f["repr"] = {"call": {"tag": "R" + f["name"], "recurse": True, "fault": "no", "tol": rng.random() < 0.3}}
    nl = rng.choice([1, 1, 2, 2, 3])
    cuts = sorted(rng.randint(0, k) for _ in range(nl - 1))
    layers, prev = [], 0
    for c in cuts + [k]:
        layers.append(fields[prev:c])
        prev = c
    return {
        "scopes": copy.deepcopy(rng.choice(SCOPES)),
        "name": rng.choice(CLS_NAMES) + (str(idx) if rng.random() < 0.5 else ""),
        "reprNs": rng.choice([None] * 6 + ["ns", "pkg.mod"]),
        "layers": layers,
        "str": rng.random() < 0.4,
        "plainStr": rng.random() < 0.4,
        "ovr": rng.random() < 0.2,
        "cfg": rand_cfg(rng, names),
    }


def rand_vals(rng, cs, n):
    vals = []
    for f in all_fields(cs):
        p = 0.96 if f["init"] else 0.6
        if rng.random() < p:
            vals.append([f["name"], rng.randrange(n)])
    return vals


def rand_heap(rng, n, classes):
    kinds = []
    for i in range(n):
        r = rng.random()
        kinds.append("inst" if (i == 0 and r < 0.9) or r < 0.45 else
                     "list" if r < 0.62 else "dict" if r < 0.74 else "tuple" if r < 0.85 else "atom")
    nodes = []
    for i, k in enumerate(kinds):
        if k == "atom":
            nodes.append({"atom": {"s": rng.choice(["0", "7", "42", "x", "tok", "None"])}})
        elif k == "list":
            nodes.append({"list": {"items": [rng.randrange(n) for _ in range(rng.choice([0, 1, 1, 2, 2, 3]))]}})
        elif k == "tuple":
            cand = [j for j in range(n) if kinds[j] != "tuple" or j < i]
            m = rng.choice([0, 1, 1, 2, 3]) if cand else 0
            nodes.append({"tuple": {"items": [rng.choice(cand) for _ in range(m)]}})
        elif k == "dict":
            keys = rng.sample(["k", "j", "1", "2"], rng.choice([0, 1, 1, 2]))
            nodes.append({"dict": {"items": [[key, rng.randrange(n)] for key in keys]}})
        else:
            ci = 0 if i == 0 and rng.random() < 0.7 else rng.randrange(len(classes))
            nodes.append({"inst": {"cls": ci, "vals": rand_vals(rng, classes[ci], n)}})
    return {"classes": classes, "nodes": nodes}


def callable_slots(heap):
    """(class index, layer, position) of every callable field"""
    out = []
    for ci, cs in enumerate(heap["classes"]):
        for li, layer in enumerate(cs["layers"]):
            for fi, f in enumerate(layer):
                if isinstance(f["repr"], dict):
                    out.append((ci, li, fi))
    return out


def with_fault(heap, slot, fault):
    h = copy.deepcopy(heap)
    ci, li, fi = slot
    h["classes"][ci]["layers"][li][fi]["repr"]["call"]["fault"] = fault
    return h


def mk_case(heap, root=0, warm=False, threads=0, sched=(), abort=False, ctx="plain"):
    return {"heap": heap, "root": root, "warm": warm, "threads": threads, "sched": list(sched), "abort": abort,
            "ctx": ctx if threads else "plain"}


def _simple_class(fields, **kw):
    cs = {"scopes": [], "name": "C", "reprNs": None, "layers": [fields], "str": False, "plainStr": False,
          "ovr": False, "cfg": dict(BASE_CFG)}
    cs.update(kw)
    return cs


def structured(rng):
    """cycle shapes x field kinds x fault positions x fresh/warm, small and systematic"""
    reprs = ["on", {"call": {"tag": "Ra", "recurse": True, "fault": "no", "tol": False}},
             {"call": {"tag": "Ra", "recurse": False, "fault": "no", "tol": False}},
             {"call": {"tag": "Ra", "recurse": True, "fault": "no", "tol": True}}]
    other = _simple_class([{"name": "p", "repr": "on", "init": True}], name="D")
    for r, init, slots, warm in itertools.product(reprs, (True, False), (None, True), (False, True)):
        fa = {"name": "a", "repr": copy.deepcopy(r), "init": init}
        fb = {"name": "b", "repr": "on", "init": True}
        cs = _simple_class([fa, fb])
        cs["cfg"]["slots"] = slots
        shapes = {
            "self": [{"inst": {"cls": 0, "vals": [["a", 0], ["b", 1]]}}, {"atom": {"s": "1"}}],
            "list": [{"inst": {"cls": 0, "vals": [["a", 1], ["b", 1]]}}, {"list": {"items": [0, 0]}}],
            "dict": [{"inst": {"cls": 0, "vals": [["a", 1], ["b", 2]]}}, {"dict": {"items": [["k", 0], ["j", 1]]}}, {"atom": {"s": "x"}}],
            "tuple": [{"inst": {"cls": 0, "vals": [["a", 1], ["b", 2]]}}, {"tuple": {"items": [0]}}, {"tuple": {"items": [1, 0]}}],
            "other": [{"inst": {"cls": 0, "vals": [["a", 1], ["b", 1]]}}, {"inst": {"cls": 1, "vals": [["p", 0]]}}],
            "same2": [{"inst": {"cls": 0, "vals": [["a", 1], ["b", 0]]}}, {"inst": {"cls": 0, "vals": [["a", 0], ["b", 1]]}}],
            "diamond": [{"inst": {"cls": 0, "vals": [["a", 1], ["b", 1]]}}, {"inst": {"cls": 1, "vals": [["p", 2]]}}, {"list": {"items": [1, 0]}}],
            "unset": [{"inst": {"cls": 0, "vals": [["b", 0]]}}],
            "deep": [{"inst": {"cls": 0, "vals": [["a", 1], ["b", 4]]}}, {"list": {"items": [2]}}, {"dict": {"items": [["k", 3]]}},
                     {"tuple": {"items": [4]}}, {"inst": {"cls": 1, "vals": [["p", 1]]}}],
            "listroot": [{"list": {"items": [1, 0]}}, {"inst": {"cls": 0, "vals": [["a", 0], ["b", 1]]}}],
        }
        for name, nodes in shapes.items():
            heap = {"classes": [copy.deepcopy(cs), copy.deepcopy(other)], "nodes": nodes}
            yield mk_case(heap, 0, warm)
            for slot in callable_slots(heap):
                for fault in ("pre", "post"):
                    yield mk_case(with_fault(heap, slot, fault), 0, warm, abort=rng.random() < 0.4)
            if name in ("self", "list", "other", "deep") and isinstance(r, dict):
                for n in (2, 3):
                    for cx in ("plain", "copied", "copied_root"):
                        yield mk_case(heap, 0, warm, n, [rng.randrange(6) for _ in range(rng.randrange(10))], ctx=cx)
    # class names: every nesting shape x plain subclass x repr_ns x str flags
    for sc, plain_sub, ns, st, pst in itertools.product(SCOPES[2:], (False, True, "ovr"), (None, "ns"), (False, True), (False, True)):
        for nl in (1, 2):
            fs = [{"name": "a", "repr": "on", "init": True}, {"name": "b", "repr": "on", "init": False}]
            cs = _simple_class([], scopes=copy.deepcopy(sc), reprNs=ns, str=st, plainStr=pst, name="Node")
            cs["layers"] = [fs] if nl == 1 else [fs[:1], fs[1:]]
            cs["cfg"]["plainSub"] = bool(plain_sub)
            cs["ovr"] = plain_sub == "ovr"
            cs["cfg"]["strAt"] = rng.choice([0, 9])
            cs["cfg"]["slots"] = rng.choice([None, True])
            for pre, place in (("none", "same"), ("bases_first", "same"), ("sub_first", "same"), ("bases_first", "module")):
                if pre != "none" and nl == 1 and not plain_sub:
                    continue          # a single class has no ancestor to render first
                cs2 = copy.deepcopy(cs)
                cs2["cfg"]["pre"], cs2["cfg"]["basePlace"] = pre, place
                heap = {"classes": [cs2], "nodes": [{"inst": {"cls": 0, "vals": [["a", 0]]}}]}
                yield mk_case(heap, 0, rng.random() < 0.5)
    # where the runtime (sub)class is defined relative to its ancestors: same scope, every enclosing depth (its
    # scope chain extends theirs), module level, a sibling function -- for subclasses that inherit the repr
    # (plain, attrs with repr=False, overriding) and for attrs subclasses with their own
    for sc in SCOPES[3:]:
        for place in ["sibling"] + list(range(len(sc) + 1)):
            for kind in ("plain", "norepr", "ovr", "attrs"):
                for st in (False, True):
                    fs = [{"name": "a", "repr": "on", "init": True}, {"name": "b", "repr": "on", "init": True}]
                    cs = _simple_class([], scopes=copy.deepcopy(sc), str=st, plainStr=st, name="Sub")
                    cs["layers"] = [fs[:1], fs[1:]]
                    cs["cfg"].update(plainSub=kind != "attrs", subKind="norepr" if kind == "norepr" else "plain",
                                     basePlace=place, slots=rng.choice([None, True]),
                                     api=rng.choice(["attr.s", "define"]))
                    cs["ovr"] = kind == "ovr"
                    heap = {"classes": [cs], "nodes": [{"inst": {"cls": 0, "vals": [["a", 0], ["b", 0]]}}]}
                    yield mk_case(heap, 0, rng.random() < 0.5)
    # a fault below is swallowed by a tolerant callable of an enclosing instance, then a later field leads back
    # to that instance (directly, through a list, through another instance): it must still be `...`
    def call(tag, tol=False, fault="no", rc=True):
        return {"call": {"tag": tag, "recurse": rc, "fault": fault, "tol": tol}}
    for fault, back, two, abort, warm in itertools.product(("pre", "post"), ("direct", "list", "inst", "dict"), (False, True),
                                                          (False, True), (False, True)):
        outer = _simple_class([{"name": "a", "repr": call("Ra", tol=True), "init": True},
                               {"name": "b", "repr": "on", "init": True}], name="Node")
        inner = _simple_class([{"name": "p", "repr": call("Rp", fault=fault), "init": True},
                               {"name": "q", "repr": "on", "init": True}], name="Child")
        mid = _simple_class([{"name": "m", "repr": "on", "init": True}], name="Mid")
        target = {"direct": 0, "list": 2, "inst": 3, "dict": 4}[back]
        nodes = [{"inst": {"cls": 0, "vals": [["a", 1], ["b", target]]}},
                 {"inst": {"cls": 1, "vals": [["p", 5], ["q", 0 if two else 5]]}},
                 {"list": {"items": [0]}}, {"inst": {"cls": 2, "vals": [["m", 0]]}},
                 {"dict": {"items": [["k", 0]]}}, {"atom": {"s": "7"}}]
        yield mk_case({"classes": [outer, inner, mid], "nodes": nodes}, 0, warm, abort=abort)
    # repr callables that are objects with scripted truthiness
    for obj, nl, api, slots in itertools.product(("truthy", "len0", "boolF", "boolRaise"), (1, 2), ("attr.s", "define"), (None, True)):
        fs = [{"name": "a", "repr": call("Ra"), "init": True}, {"name": "b", "repr": "on", "init": True},
              {"name": "c", "repr": call("Rc", rc=False), "init": False}]
        cs = _simple_class([], name="Fmt", str=True, plainStr=True)
        cs["layers"] = [fs] if nl == 1 else [fs[:1], fs[1:]]
        cs["cfg"].update(cbObj=obj, api=api, slots=slots)
        yield mk_case({"classes": [cs], "nodes": [{"inst": {"cls": 0, "vals": [["a", 1], ["b", 1], ["c", 1]]}}, {"atom": {"s": "7"}}]}, 0, False)
    # multiple inheritance: a field-less attrs class combining the chain with a side class (sibling / diamond), and
    # an own __str__ in the body of the class that is given str=True (with and without auto_detect)
    for mi, api, nl, sub, st, own, ad in itertools.product(("combine", "diamond", "none"), ("attr.s", "define", "frozen"), (2, 3),
                                                           (False, True), (False, True), (False, True), (False, True)):
        if (own and not st) or (ad and not own):
            continue
        fs = [{"name": "a", "repr": "on", "init": True}, {"name": "b", "repr": call("Rb", rc=False), "init": True},
              {"name": "c", "repr": "on", "init": True}]
        cs = _simple_class([], name="Both", str=st, plainStr=rng.random() < 0.5)
        cs["layers"] = [fs[:2], fs[2:]] if nl == 2 else [fs[:1], fs[1:2], fs[2:]]
        cs["cfg"].update(mi=mi, api=api, plainSub=sub, ownStr=own, autoDetect=ad, strAt=rng.choice([0, 1, 9]))
        yield mk_case({"classes": [cs], "nodes": [{"inst": {"cls": 0, "vals": [["a", 1], ["b", 1], ["c", 0]]}}, {"atom": {"s": "7"}}]}, 0, False)
    # callables that share a __name__: own + own, inherited + own, three of them
    for mode, nl, slots in itertools.product(("same", "wraps", "field"), (1, 2, 3), (None, True)):
        fs = [{"name": n, "repr": {"call": {"tag": "R" + n, "recurse": rc, "fault": "no", "tol": False}}, "init": True}
              for n, rc in (("a", True), ("b", False), ("c", True))]
        cs = _simple_class([], name="Rec")
        cs["layers"] = [fs] if nl == 1 else [fs[:1], fs[1:]] if nl == 2 else [fs[:1], fs[1:2], fs[2:]]
        cs["cfg"]["cbNames"], cs["cfg"]["slots"] = mode, slots
        heap = {"classes": [cs], "nodes": [{"inst": {"cls": 0, "vals": [["a", 1], ["b", 1], ["c", 1]]}}, {"atom": {"s": "7"}}]}
        yield mk_case(heap, 0, False)


def gen_cases(tier, rng):
    yield from structured(rng)
    n_random = 9000 if tier == "quick" else 150000
    max_nodes = 5 if tier == "quick" else 6
    for _ in range(n_random):
        ncls = rng.choice([1, 1, 2, 2, 3])
        classes = [rand_class(rng, i) for i in range(ncls)]
        # T3: the text of the generated __repr__ of every class (one of its callables sometimes armed with a fault)
        for cs in classes:
            one = {"classes": [copy.deepcopy(cs)], "nodes": []}
            sl = callable_slots(one)
            if sl and rng.random() < 0.5:
                one = with_fault(one, rng.choice(sl), rng.choice(["pre", "post"]))
            yield make_script_case(one["classes"][0])
        # several heaps / faults / scenarios over one set of classes (class creation dominates the cost)
        for _ in range(5):
            n = rng.choice([1, 2, 3, 3, 4, 4, 5, 5] + ([6] if max_nodes >= 6 else []))
            heap = rand_heap(rng, n, copy.deepcopy(classes))
            root = 0 if rng.random() < 0.85 else rng.randrange(n)
            warm = rng.random() < 0.5
            r = rng.random()
            threads = 0 if r < 0.6 else 2 if r < 0.85 else 3
            slots_ = callable_slots(heap)
            if slots_ and rng.random() < 0.55:
                heap = with_fault(heap, rng.choice(slots_), rng.choice(["pre", "post"]))
                if len(slots_) > 1 and rng.random() < 0.2:
                    heap = with_fault(heap, rng.choice(slots_), rng.choice(["pre", "post"]))
            sched = [rng.randrange(6) for _ in range(rng.randrange(14))] if threads else []
            yield mk_case(heap, root, warm, threads, sched, abort=rng.random() < 0.35,
                          ctx=rng.choice(["plain", "plain", "copied", "copied_root"]))


# ------------------------------------------------------------------------------------------ reporting helpers
def nontrivial(case, model):
    if is_script(case):
        return bool(all_fields(case["cls"]))
    if case["threads"] > 0:
        return True
    txt = json.dumps(model) if model is not None else ""
    return "..." in txt or "exc" in txt or "NOTHING" in txt or bool(callable_slots(case["heap"]))


def _place_kind(cs):
    d, n = base_depth(cs), len(cs["scopes"])
    return "sibling" if d == "sibling" else "same" if d == n else "module" if d == 0 else "enclosing"


def _root_cls(case):
    nd = case["heap"]["nodes"][case["root"]]
    return case["heap"]["classes"][nd["inst"]["cls"]] if _kind(nd) == "inst" else {}


def _count_unknown(x):
    if isinstance(x, dict):
        return ("unknown" in x) + sum(_count_unknown(v) for v in x.values())
    if isinstance(x, list):
        return sum(_count_unknown(v) for v in x)
    return 0


def dist(case, obs):
    if is_script(case):
        sc = obs.get("script", {}) if isinstance(obs, dict) else {}
        cs = case["cls"]
        return {"kind": "script", "script_fields": len(all_fields(cs)), "script_helpers": len(sc.get("globs", [])),
                "script_unknown": _count_unknown(sc.get("body", [])),
                "script_free": ",".join(f"{n}={b}" for n, b in sc.get("free", []) if b not in ("builtin", "attr._compat", "attr.NOTHING")) or "all pinned",
                "script_mod_globals": len(cs.get("cfg", {}).get("modGlobals", [])), "script_ns": cs["reprNs"] is not None,
                "script_owner": "inherited" if (cs.get("cfg", {}).get("plainSub") or cs["ovr"]) else "own"}
    heap = case["heap"]
    kinds = [_kind(n) for n in heap["nodes"]]
    first = obs.get("first", {}) if isinstance(obs, dict) else {}
    again = obs.get("again", {}) if isinstance(obs, dict) else {}
    txt = again.get("ok", {}).get("s", "") if "ok" in again else ""
    faults = [heap["classes"][ci]["layers"][li][fi]["repr"]["call"]["fault"] for ci, li, fi in callable_slots(heap)]
    cfgs = [c.get("cfg", {}) for c in heap["classes"]]
    return {
        "n_nodes": len(kinds),
        "root_kind": kinds[case["root"]],
        "n_classes": len(heap["classes"]),
        "max_fields": max([len(all_fields(c)) for c in heap["classes"]] or [0]),
        "max_layers": max([len(c["layers"]) for c in heap["classes"]] or [0]),
        "first": "ok" if "ok" in first else first.get("exc", {}).get("k", "?").split(":")[0],
        "cycle_marker": ("inst..." if "=..." in txt or "<...>" in txt or " ...," in txt or "[...," in txt else "") +
                        ("[...]" if "[...]" in txt else "") + ("{...}" if "{...}" in txt else "") + ("(...)" if "(...)" in txt else ""),
        "nothing": "NOTHING" in txt,
        "fault": "+".join(sorted(f for f in faults if f != "no")) or "none",
        "callables": len(faults),
        "threads": case["threads"],
        "ctx": case.get("ctx", "plain"),
        "sync": obs.get("sync") if isinstance(obs, dict) else "?",
        "warm": case["warm"],
        "abort": bool(case.get("abort")),
        "api": cfgs[0].get("api") if cfgs else None,
        "slots": cfgs[0].get("slots") if cfgs else None,
        "plainSub": any(c.get("plainSub") for c in cfgs),
        "pre": cfgs[0].get("pre") if cfgs else None,
        "cbNames": cfgs[0].get("cbNames") if cfgs else None,
        "cbObj": cfgs[0].get("cbObj") if cfgs else None,
        "tolerant": sum(1 for ci, li, fi in callable_slots(heap) if heap["classes"][ci]["layers"][li][fi]["repr"]["call"].get("tol")),
        "swallowed": "!" in txt or "!" in (first.get("ok", {}).get("s", "") if "ok" in first else ""),
        "basePlace": _place_kind(heap["classes"][0]) if heap["classes"] else None,
        "subKind": (cfgs[0].get("subKind") if cfgs[0].get("plainSub") or heap["classes"][0]["ovr"] else "own-repr") if cfgs else None,
        "same_named_callables": max([sum(1 for f in all_fields(c) if isinstance(f["repr"], dict)) for c in heap["classes"]
                                     if c.get("cfg", {}).get("cbNames", "field") != "field"] or [0]),
        "scoped": any(c["scopes"] for c in heap["classes"]),
        "locals": any(s["fn"] for c in heap["classes"] for s in c["scopes"]),
        "repr_ns": any(c["reprNs"] is not None for c in heap["classes"]),
        "str": any(c["str"] for c in heap["classes"]),
        "mi": cfgs[0].get("mi", "none") if cfgs and len(heap["classes"][0]["layers"]) >= 2 else "none",
        "ownStr": any(c["str"] and c.get("cfg", {}).get("ownStr") for c in heap["classes"]),
        "root_str": "+".join(k for k in ("str", "plainStr", "ovr") if _root_cls(case).get(k)) or "-",
    }


# ------------------------------------------------------------------------------------------ shrinking
def _refs(nd):
    k = _kind(nd)
    if k in ("list", "tuple"):
        return list(nd[k]["items"])
    if k == "dict":
        return [j for _, j in nd["dict"]["items"]]
    if k == "inst":
        return [j for _, j in nd["inst"]["vals"]]
    return []


def shrink(case):
    if is_script(case):
        for c in shrink(mk_case({"classes": [case["cls"]], "nodes": [{"atom": {"s": "0"}}]})):
            cs = c["heap"]["classes"][0] if c["heap"]["classes"] else None
            if cs is not None and cs != case["cls"]:
                yield make_script_case(cs)
        return
    heap = case["heap"]
    if case.get("ctx", "plain") != "plain":
        yield dict(case, ctx="plain")
        if case["ctx"] != "copied":
            yield dict(case, ctx="copied")
    if case["threads"]:
        yield dict(case, threads=0, sched=[], ctx="plain")
        if case["threads"] > 2:
            yield dict(case, threads=2)
    if case["sched"]:
        yield dict(case, sched=[])
    if case["warm"]:
        yield dict(case, warm=False)
    if case.get("abort"):
        yield dict(case, abort=False)
    nodes = heap["nodes"]
    n = len(nodes)
    # drop the last node when nothing refers to it
    if n > 1 and case["root"] != n - 1 and all(n - 1 not in _refs(nd) for nd in nodes[:-1]):
        yield dict(case, heap=dict(heap, nodes=copy.deepcopy(nodes[:-1])))
    # a node becomes an atom
    for i, nd in enumerate(nodes):
        if _kind(nd) != "atom" and i != case["root"]:
            ns = copy.deepcopy(nodes)
            ns[i] = {"atom": {"s": "0"}}
            yield dict(case, heap=dict(heap, nodes=ns))
    # drop one reference
    for i, nd in enumerate(nodes):
        k = _kind(nd)
        key = "vals" if k == "inst" else "items"
        if k == "atom":
            continue
        for j in range(len(nd[k][key])):
            ns = copy.deepcopy(nodes)
            del ns[i][k][key][j]
            yield dict(case, heap=dict(heap, nodes=ns))
    # drop the last class when no instance uses it
    nc = len(heap["classes"])
    if nc > 1 and all(_kind(nd) != "inst" or nd["inst"]["cls"] != nc - 1 for nd in nodes):
        yield dict(case, heap=dict(heap, classes=copy.deepcopy(heap["classes"][:-1])))
    # classes: drop a field, remove faults, flatten options
    for ci, cs in enumerate(heap["classes"]):
        for li, layer in enumerate(cs["layers"]):
            for fi, f in enumerate(layer):
                h = copy.deepcopy(heap)
                del h["classes"][ci]["layers"][li][fi]
                for nd in h["nodes"]:
                    if _kind(nd) == "inst" and nd["inst"]["cls"] == ci:
                        nd["inst"]["vals"] = [kv for kv in nd["inst"]["vals"] if kv[0] != f["name"]]
                yield dict(case, heap=h)
                if isinstance(f["repr"], dict):
                    if f["repr"]["call"].get("tol"):
                        h = copy.deepcopy(heap)
                        h["classes"][ci]["layers"][li][fi]["repr"]["call"]["tol"] = False
                        yield dict(case, heap=h)
                    if f["repr"]["call"]["fault"] != "no":
                        h = copy.deepcopy(heap)
                        h["classes"][ci]["layers"][li][fi]["repr"]["call"]["fault"] = "no"
                        yield dict(case, heap=h)
                    h = copy.deepcopy(heap)
                    h["classes"][ci]["layers"][li][fi]["repr"] = "on"
                    yield dict(case, heap=h)
        if len(cs["layers"]) > 1:
            h = copy.deepcopy(heap)
            h["classes"][ci]["layers"] = [all_fields(cs)]
            yield dict(case, heap=h)
        for k, v in (("scopes", []), ("reprNs", None), ("str", False), ("plainStr", False), ("ovr", False)):
            if cs[k] != v:
                h = copy.deepcopy(heap)
                h["classes"][ci][k] = v
                yield dict(case, heap=h)
        cfg = cs.get("cfg", {})
        for k, v in BASE_CFG.items():
            if cfg.get(k, v) != v:
                h = copy.deepcopy(heap)
                h["classes"][ci]["cfg"] = dict(cfg, **{k: v})
                yield dict(case, heap=h)


def neighbours(case, rng):
    if is_script(case):
        # the script differs from the model's: look for a heap over that class on which the behaviour differs
        for _ in range(40):
            n = rng.choice([1, 2, 3, 4])
            heap = rand_heap(rng, n, [copy.deepcopy(case["cls"])])
            yield mk_case(heap, 0, rng.random() < 0.5, rng.choice([0, 0, 2]), [rng.randrange(6) for _ in range(6)],
                          abort=rng.random() < 0.3)
        return
    heap = case["heap"]
    yield dict(case, warm=not case["warm"])
    yield dict(case, abort=not case.get("abort", False))
    for n in (0, 2, 3):
        if n != case["threads"]:
            yield dict(case, threads=n, sched=[rng.randrange(6) for _ in range(8)] if n else [],
                       ctx=rng.choice(["plain", "copied", "copied_root"]) if n else "plain")
    if case["threads"]:
        for cx in ("plain", "copied", "copied_root"):
            if cx != case.get("ctx", "plain"):
                yield dict(case, ctx=cx)
    for slot in callable_slots(heap):
        for fault in ("no", "pre", "post"):
            yield dict(case, heap=with_fault(heap, slot, fault))
    for r in range(len(heap["nodes"])):
        if r != case["root"]:
            yield dict(case, root=r)
    for ci, cs in enumerate(heap["classes"]):
        for _ in range(3):
            h = copy.deepcopy(heap)
            h["classes"][ci]["cfg"] = rand_cfg(rng, [f["name"] for f in all_fields(cs)])
            yield dict(case, heap=h)
    yield from shrink(case)
