"""C06 -- on_setattr: assignment stores hook-chain(value); failure keeps the old value.

Case = the Lean `Attrs.C06.Case` (a single-inheritance chain of class specifications, initial state, the
validator switch, an assignment history and one fault position) plus harness-only keys choosing the
front-end (`api`, argument forms, annotations, collect_by_mro) which the model ignores.
"""
from __future__ import annotations

import copy
import itertools

import c06_build as cb

ID = "C06"
TABLES = ["fn_define_wrap", "fn_setters_convert", "fn_setters_frozen"]
RULE = ("corpus, then the definition-time table COMPLETELY (api incl. attrs.frozen x frozen base / hooked mutable base x frozen= x "
        "own __setattr__ x auto_detect x class-level {None, NO_OP, hook, validate, [], [convert]} x field-level {None, NO_OP, hook, "
        "[], validate} x converter x the hooked field's {init=True, init=False without default, init=False with default}: one case "
        "per chain = does it define and with which error) and the decorator-object-reuse block (define/mutable/attr.s/frozen x class "
        "below a frozen base or not x the SAME decorator object first applied to 1-2 other classes: below frozen / hooked / plain "
        "bases, with own __setattr__, with/without converters and validators; definition outcome of all 256, histories on a sample; "
        "30% of decorator-built classes in random chains get such a history too; 15% of random fields are init=False), then chains of <=4 classes (attrs via attr.s/"
        "these/make_class/define/mutable/frozen, plain classes with/without __slots__ in between, optional Exception root) over "
        "per-field {on_setattr: None, NO_OP, [], hook, [h1,h2], frozen, validate, convert and mixed pipes} x {converter: none, "
        "plain, Converter(takes_self,takes_field) x4} x {0,1,2 validators} x private names x redefinition in subclasses x name SHAPE "
        "(4/9 of all chains, systematic and random, are respelt consistently along the chain with dunder-like `__x__`, trailing-"
        "underscore `y__`/`x_` and `_p_` field names, and then half the time a dunder-like non-field name `__nf__`; harness-only "
        "variation: the model treats a name as an opaque string, so a name-shape shortcut in the generated __setattr__ shows as a "
        "missing hook run; leading-`__` names without trailing `__` are excluded because type() mangles them in __slots__), per-class "
        "{on_setattr: None, NO_OP, bare hook/validate/convert/frozen, lists incl. [], define's default} x slots x frozen x own "
        "__setattr__ x auto_detect: a systematic block (single class: every field-level x class-level combination x whether "
        "another field has a converter/validator; two/three-class shapes hooked-base/unhooked-sub and vice versa with a plain or "
        "hook-less attrs class in between, with and without redefinition; quick samples ~840 of these chains, thorough takes all) "
        "interleaved with random clean chains and, every 4th round, a chain with frozen / own-__setattr__ ingredients. Per defined "
        "chain: every one-assignment history over the fields + a non-field name, random histories of length 2-3 whose values are "
        "fresh tokens, repeated tokens, the value currently held, None or the empty string (thorough: also ALL sequences up to "
        "length 3 on a third of the classes with <=3 names), each without fault, with the fault at EVERY callback position of "
        "every step -- the raised exception TYPE rotating through {UserError, KeyError, LookupError, AttributeError, TypeError, "
        "ValueError, StopIteration, a BaseException that is not an Exception} (each type ~4k cases per quick run; thorough: all 8 "
        "types at every position of a third of the one-step histories) -- and with validators globally disabled; initial state "
        "preset or unset. Multiple inheritance: any non-root class may get a second direct base, a fresh plain mixin with empty "
        "__slots__ or with a __dict__, before or after the chain parent (systematic block: hooked/unhooked base x hook-less/"
        "hooked subclass x slots x mixin kind x order x {leaf, one level up, below a plain class} x redefinition incl. a redefined "
        "setters.frozen field; random chains: 25% of classes). A block of class-level lists/tuples/pipes of the stock hooks in EVERY order and multiplicity (length 1..3) x api x slots x "
        "field with converter+validators / only one / none (the validator's argument, raw or converted, is in the trace). Assigned "
        "values also come from classes of EQUAL but distinguishable objects (1 / 1.0 / True, 0.0 / -0.0, a str and a str-subclass "
        "instance, two equal distinct lists) assigned one after the other to the same name (half of the names of every chain): the "
        "observation canonicalises by exact type and identity, never by ==. Hooks returning None and callable-but-falsy hook objects (bare, in lists, in nested pipes, at field and class level) are among the hook identities. Hook expressions are TREES: an on_setattr value is a bare callable or a "
        "list/tuple/setters.pipe(...) whose members are setters or again setters.pipe(...) objects, nested at every position "
        "(first / middle / last, followed or not by further hooks) to depth <=4, with empty pipes, the same hook object and the "
        "same pipe object repeated, built-in setters and setters.frozen inside nested pipes (17 fixed shapes in the systematic "
        "block at field level, 4 at class level, random trees for ~25% of hooked fields / classes); user hooks do not commute (each "
        "wraps its input into its own term) and the trace logs every call with the intermediate value it received. Non-trivial = a definition error, or some step makes callbacks or "
        "raises; distinct = distinct case")
ASSUMPTIONS = [
    "the model works on the depth-first left-to-right flattening of each hook expression; that calling nested pipe objects equals running the flattening is proved (C06_tree_runs_flat) and diff-tested; NO_OP or other non-callables INSIDE a list/pipe (a TypeError at assignment time) are not generated",
    "hook identities 700..899 are callable hook OBJECTS that are falsy (__bool__ False / __len__ 0), used bare at field and class level and inside lists and nested pipes; the model does not know truthiness (C06_selection_ignores_truthiness): post-fix state of K06a (fixes/C06) -- a tree whose add_setattr still tests truthiness is reported as a violation",
    "decorator-object reuse is harness-only variation: the model is a function of the class specification alone, so any dependence of a class on what its decorator object was applied to before shows up as a disagreement / violation",
    "init=False fields: `ctor` (value real construction stores for f=v) is only observed and demanded for init=True fields; default values only accompany init=False",
    "user hooks, converters and validators are instrumented closures returning symbolic strings; user callbacks raise only when the fault position says so",
    "multiple inheritance is covered for two direct bases = the attrs/plain chain parent + one plain mixin deriving from object (either order: `__base__` is the mixin or the parent); two attrs bases / diamonds are not generated",
    "the model tracks the raised exception as a token and re-types it at the observation (`retype`): justified by C06_failure_type_independent and checked against the real propagated type (exact `type(e)`) for 8 exception types",
    "background options (cache_hash, kw_only, eq=False, weakref_slot=False, Exception root, annotations/auto_attribs, these=/make_class, collect_by_mro, list/tuple/pipe argument forms) are varied by the harness and ignored by the model: independence from them is part of what is checked",
    "field collection order/override along the chain is computed from the specification (nearest definition wins); C07 checks collection itself",
    "instances are created with __new__ and preset through object.__setattr__ (or left unset); construction itself is C01/C02",
    "a user-written __setattr__ is represented by one that records the call and delegates to object.__setattr__",
]
EXHAUSTIVE = {"quick": False, "thorough": False}
BUDGET_S = {"quick": 38, "thorough": 420}
PARALLEL = True
LEVEL_TEXT = (
    "Lean theorems (Properties/C06.lean, helper lemmas in Proofs/C06*.lean) about an executable model of define.wrap, "
    "attrs.wrap, _ClassBuilder.__init__ (normalisation), add_setattr (sa_attrs, generated __setattr__), _make_init_script's "
    "frozen checks, _patch_original_class/_create_slots_class (reset of an inherited attrs __setattr__) and setters.pipe/frozen/"
    "validate/convert, for ARBITRARY pipes, field lists, class chains, histories and fault positions: C06_stores_chain(_user,"
    "_assign) (operational pipe = left-to-right fold, callbacks = declarative run); C06_selection_ignores_truthiness, C06_field_hook_if_given (hook selection is a function of None / NO_OP / anything "
    "else: invariant under replacing hook objects, e.g. truthy by falsy ones); C06_tree_runs_flat, C06_flatten_order, C06_flatten_flat, C06_stores_tree (hook expressions "
    "as trees of nested setters.pipe: nested evaluation = the flat left-to-right pipe of the leaves, under faults too); "
    "C06_failure_atomic_pipe/_frozen/_step and "
    "C06_failure_atomic (fault at any position: exactly the prefix of callbacks ran, its exception propagates, instance state "
    "unchanged; over whole histories, on any class); C06_failure_type_independent (the raised type -- KeyError, LookupError, "
    "AttributeError, TypeError, ValueError, StopIteration, non-Exception BaseException, user error -- only changes the type that "
    "propagates); C06_mixin_only_layout (a plain second direct base changes only the instance layout); C06_define_default_matches_init (the stored value is the value C01_values "
    "gives the initializer model for the same argument; validators see the converted value); C06_nonfield_plain; C06_resolution, "
    "C06_resolution_nearest, C06_resolution_reset (field over class, the class-level argument is the defined class's own, nearest "
    "field definition, direct-base reset); C06_inherits_only_when_confused (hooks are inherited only through plain-class-then-"
    "slotted-class = K6); C06_rejected / C06_accepted against the statement's tables, C06_rejected_define_wrap, C06_rejected_iff, "
    "C06_rejected_kind, C06_rejected_whatever_field_options (the field-level frozen check ignores init/default/"
    "converter/validators/owner), C06_frozen_never_hooked, C06_normalisation_invisible; C06_leaf; C06_model_meets_spec; K6 witness. Tied to "
    "/repo by differential correspondence on field values after every step, callback traces (kind, which Attribute, arguments), "
    "exception identity, definition errors and the value real construction stores, with single-fault enumeration at every "
    "callback position and runs with validators disabled. Bounds of the correspondence: chains of <=4 (+ an "
    "optional Exception root) classes, each optionally with one extra plain mixin base (either order), <=3 fields per class, histories <=3, one fault per history. Attribute storage/lookup "
    "(__dict__ vs slots), class creation, field collection and CPython's setattr dispatch are modelled and observed, not proved; "
    "a user-written __setattr__ is outside the run-time clauses (only the definition-time table and model agreement apply).")

NAMES = ["x", "y", "_p"]
# name SHAPES (harness-only variation; the model treats a field name as an opaque string): a field may be called anything
# Python accepts as an attribute -- dunder-like (`__x__`: legal, not name-mangled, listed in fields()), trailing
# underscores, underscore on both sides.  Every map keeps the __init__ aliases (name.lstrip("_")) distinct.  Leading-`__`
# names without a trailing `__` are left out: type() mangles them in __slots__.
NAME_SHAPES = {
    "plain": {},
    "dunder": {"x": "__x__", "y": "__y__", "_p": "__p__", "z": "__z__", "w": "__w__"},
    "mixed": {"x": "__x__", "y": "y__", "_p": "_p_", "w": "__w__"},
    "mixed2": {"x": "x_", "y": "__y__", "z": "__z__"},
}


def is_dunder(n):
    return len(n) > 4 and n[:2] == "__" and n[-2:] == "__"


def reshape(classes, shape):
    """the same chain with its field names spelt in another shape (consistently along the chain, so a redefinition stays one)"""
    m = NAME_SHAPES[shape]
    if not m:
        return classes
    classes = copy.deepcopy(classes)
    for cs in classes:
        for f in cs["fields"]:
            f["name"] = m.get(f["name"], f["name"])
    return retag(classes)


def pick_shape(rng):
    return rng.choice(["plain"] * 5 + ["dunder", "dunder", "mixed", "mixed2"])
FAULT_KINDS = ["user", "keyError", "lookupError", "attributeError", "typeError", "valueError", "stopIteration",
               "baseException"]
_KIND_CTR = [0]
NONE_HOOK = 900           # hook identities >= 900 return None
FALSY_BOOL, FALSY_LEN = 700, 800   # identities 700..799 / 800..899: callable hook OBJECTS that are falsy (__bool__ / __len__)
CONV_KINDS = [None, "plain", "c00", "c10", "c01", "c11"]


def U(i):
    return {"user": {"i": i}}


def leaf(s):
    return {"leaf": {"s": s}}


def _is_tree(m):
    return isinstance(m, dict) and ("leaf" in m or "pipe" in m)


def P(*ms):
    """a pipe node; members are setters (wrapped into leaves) or trees"""
    return {"pipe": {"l": [m if _is_tree(m) else leaf(m) for m in ms]}}


def chain(*ms):
    """field-level list form: on_setattr=[...]"""
    return {"hook": {"h": P(*ms)}}


def lst(*ms):
    return {"hook": {"h": P(*ms)}}


def bare(s):
    """a bare callable"""
    return {"hook": {"h": leaf(s)}}


def flatten(tree):
    if "leaf" in tree:
        return [tree["leaf"]["s"]]
    return [s for m in tree["pipe"]["l"] for s in flatten(m)]


def depth(tree):
    return 0 if "leaf" in tree else 1 + max([depth(m) for m in tree["pipe"]["l"]] or [0])


def nested_ons(h):
    """hook expressions with pipes nested at every position and depth; the hooks do not commute (each wraps the value
    it gets into its own term), so any re-ordering shows in the stored value and in the logged intermediate values"""
    a, b, c, d = U(h), U(h + 1), U(h + 2), U(h + 3)
    return [chain(P(a, b), c), chain(a, P(b, c), d), chain(P(P(a, b), c), d), chain(a, P(b, c)), chain(P(a, b), P(c, d)),
            chain(P(a, b), c, P(a, b)), chain(P(), a), chain(a, P(), b), chain(P("convert", "validate"), a),
            chain(a, P("convert", P("validate", b)), c), chain(P(a), P(P(b)), c), chain(a, a, P(a, b), a),
            chain(P(a, "frozen"), b), chain(P(a, P(b, "frozen")), c), bare(a), bare("convert"),
            {"hook": {"h": P(P(a, b), c)}}]


def gen_tree(rng, h, d=0):
    """a random hook expression"""
    k = rng.choice([1, 2, 2, 3, 4]) if d == 0 else rng.choice([0, 1, 2, 2, 3])
    ms = []
    for _ in range(k):
        if d < 3 and rng.random() < 0.35:
            ms.append(gen_tree(rng, h, d + 1))
        else:
            ms.append(rng.choice([U(h), U(h + 1), U(h + 2), U(h), "convert", "validate", U(NONE_HOOK + h % 50),
                                  U(FALSY_BOOL + h % 90), U(FALSY_LEN + h % 90)] +
                                 (["frozen"] if rng.random() < 0.1 else [])))
    return P(*ms)


def field_ons(h):
    """field-level on_setattr values; h = a fresh hook identity base"""
    return ["unset", "noop", chain(U(h)), chain(U(h), U(h + 1)), chain(), chain("frozen"), chain("validate"),
            chain("convert"), chain("convert", "validate"), chain("validate", "convert"), chain(U(h), "convert"),
            chain("convert", U(h)), chain(U(h), "frozen"), chain("frozen", U(h)), chain(U(h), "validate", U(h + 1)),
            chain("convert", "convert"), chain("validate", "validate", U(h)), chain(U(NONE_HOOK + h % 50)),
            chain(U(NONE_HOOK + h % 50), "convert", U(h)),
            # falsy-but-callable hook objects: bare, in lists, in nested pipes
            bare(U(FALSY_BOOL + h % 90)), bare(U(FALSY_LEN + h % 90)), chain(U(FALSY_LEN + h % 90)),
            chain(U(FALSY_BOOL + h % 90), U(h)), chain(U(h), P(U(FALSY_LEN + h % 90), "convert"), U(h + 1))] + nested_ons(h + 20)


def cls_ons(h):
    return ["unset", "noop", bare(U(h)), bare("validate"), bare("convert"), bare("frozen"), lst(U(h), U(h + 1)),
            lst("convert", "validate"), lst("validate"), lst("convert"), lst(), lst(U(h), "frozen"), lst("validate", U(h)),
            lst("convert", U(h), "validate"), bare(U(NONE_HOOK + h % 50)), lst(P(U(h), "convert"), U(h + 1)),
            lst(U(h), P("convert", "validate"), U(h + 1)), lst(P(P("convert", "validate"), U(h)), U(h + 1)),
            {"hook": {"h": P("validate")}}, lst("validate", "convert"), lst("validate", "validate"), lst("convert", "convert"),
            lst("validate", "convert", "validate"), lst("convert", "validate", "convert"), bare(U(FALSY_BOOL + h % 90)), bare(U(FALSY_LEN + h % 90)),
            lst(U(FALSY_LEN + h % 90), "convert"), lst(P(U(FALSY_BOOL + h % 90)), U(h))]


def conv_json(kind):
    if kind is None:
        return None
    if kind == "plain":
        return {"takesSelf": False, "takesField": False}
    return {"takesSelf": kind[1] == "1", "takesField": kind[2] == "1"}


PRIOR_KINDS = [
    {"base": "frozen", "conv": True, "val": False}, {"base": "frozen", "conv": False, "val": False},
    {"base": "hooked", "conv": True, "val": True}, {"base": "plain", "conv": False, "val": True},
    {"base": "object", "conv": True, "val": True}, {"base": "object", "conv": False, "val": False},
    {"base": "object", "own": True, "conv": False, "val": False}, {"base": "object", "own": True, "conv": True, "val": True},
]


def mk_field(name, ci, on="unset", conv=None, validators=0, **extra):
    f = {"name": name, "tag": f"{name}@{ci}", "conv": conv_json(conv), "validators": validators, "onSet": on,
         "init": True, "dflt": False}
    if conv is not None:
        f["conv_kind"] = conv
    f.update(extra)
    return f


def mk_attrs(ci, fields, define=False, slots=None, cls_on="unset", frozen=False, own=False, auto=None, **extra):
    cs = {"kind": "attrs", "isDefine": define, "frozenArg": frozen,
          "slots": define if slots is None else slots, "clsOn": cls_on, "ownSetattr": own,
          "autoDetect": define if auto is None else auto, "fields": fields}
    cs.update(extra)
    return cs


def mk_plain(slots=False):
    return {"kind": "plain", "isDefine": False, "frozenArg": False, "slots": slots, "clsOn": "unset",
            "ownSetattr": False, "autoDetect": False, "fields": []}


def with_mixin(cs, mixin_slots, first):
    """a second direct base: a fresh plain class (with empty __slots__ or with a __dict__), before/after the parent"""
    return dict(cs, mixin=bool(mixin_slots), mixin_first=bool(first))


def retag(classes):
    for ci, cs in enumerate(classes):
        for f in cs["fields"]:
            f["tag"] = f"{f['name']}@{ci}"
    return classes


def mk_case(classes, history, fault=None, preset=True, rv=True, kind=None):
    return {"classes": classes, "preset": preset, "runValidators": rv,
            "history": [{"name": n, "value": v} for n, v in history], "fault": fault,
            "faultKind": kind if fault else None}


# ------------------------------------------------------------------------------------------------ chains
def systematic_chains():
    """structured block: yields (label, classes)"""
    # single class: every field-level x class-level x api x slots, with a converting+validating field
    for define, slots in itertools.product((False, True), (False, True)):
        for co in cls_ons(50):
            for fo in field_ons(10):
                for conv, nv in ((None, 0), ("c11", 2), ("plain", 0), (None, 1)):
                    # the other field decides whether "some field has a converter / validator" (normalisation)
                    for other in (None, mk_field("y", 0, "unset", "c10", 1), mk_field("y", 0, "unset", None, 0),
                                  mk_field("y", 0, "unset", None, 1), mk_field("y", 0, "unset", "c00", 0)):
                        fs = [mk_field("x", 0, fo, conv, nv)] + ([dict(other)] if other else [])
                        yield "single", [mk_attrs(0, fs, define=define, slots=slots, cls_on=co)]
    # two/three classes: hooked base / unhooked subclass and vice versa, plain class in between
    base_kinds = [
        ("bare", dict(cls_on=bare(U(50)))), ("list", dict(cls_on=lst(U(50), "convert"))),
        ("define-default", dict(define=True)), ("field-hook", dict()), ("none", dict()), ("validate", dict(cls_on=bare("validate"))),
        ("falsy-bare", dict(cls_on=bare(U(FALSY_LEN + 50)))),
    ]
    sub_kinds = [
        ("none", dict()), ("noop", dict(cls_on="noop")), ("bare", dict(cls_on=bare(U(60)))),
        ("define-default", dict(define=True)), ("define-none", dict(define=True, cls_on="noop")),
        ("convert", dict(cls_on=bare("convert"))),
    ]
    for (bk, bkw), (sk, skw) in itertools.product(base_kinds, sub_kinds):
        for bslots, sslots in itertools.product((False, True), (False, True)):
            for mid in (None, "plain", "plain-slots", "attrs-none"):
                for redefine in (False, True):
                    bf = [mk_field("x", 0, chain(U(10)) if bk == "field-hook" else "unset", "c11", 1),
                          mk_field("y", 0, "unset", None, 0)]
                    classes = [mk_attrs(0, bf, slots=bslots, **bkw)]
                    if mid == "plain":
                        classes.append(mk_plain(False))
                    elif mid == "plain-slots":
                        classes.append(mk_plain(True))
                    elif mid == "attrs-none":
                        classes.append(mk_attrs(1, [], slots=bslots))
                    ci = len(classes)
                    sf = [mk_field("z", ci, "unset", "c01", 1)]
                    if redefine:
                        sf.append(mk_field("x", ci, "unset", "c10", 2))
                    classes.append(mk_attrs(ci, sf, slots=sslots, **skw))
                    yield f"{bk}/{mid}/{sk}", retag(classes)
    # multiple inheritance: the class under test has two direct bases, a plain mixin (empty __slots__ / __dict__) and the
    # hooked / unhooked attrs class, in either order; also one level further down, and with a plain class in between
    for (bk, bkw), (sk, skw) in itertools.product(base_kinds, sub_kinds):
        for bslots, sslots in itertools.product((False, True), (False, True)):
            for mslots, first in itertools.product((False, True), (False, True)):
                for where in ("leaf", "middle", "below-plain"):
                    for redefine in (False, True):
                        bf = [mk_field("x", 0, chain(U(10), "frozen") if bk == "field-hook" and redefine else
                                       chain(U(10)) if bk == "field-hook" else "unset", "c11", 1),
                              mk_field("y", 0, "unset", None, 0)]
                        classes = [mk_attrs(0, bf, slots=bslots, **bkw)]
                        if where == "below-plain":
                            classes.append(mk_plain(False))
                        ci = len(classes)
                        sf = [mk_field("z", ci, "unset", "c01", 1)]
                        if redefine:
                            sf.append(mk_field("x", ci, "unset", "c10", 2))
                        classes.append(with_mixin(mk_attrs(ci, sf, slots=sslots, **skw), mslots, first))
                        if where == "middle":
                            classes.append(mk_attrs(ci + 1, [], slots=sslots))
                        yield f"mi:{bk}/{where}/{sk}", retag(classes)
    # definition-time table: frozen and own-__setattr__ ingredients
    for define in (False, True):
        for frozen_base, frozen_arg, own, auto in itertools.product((False, True), (False, True), (False, True), (False, True)):
            if own and not auto:
                continue
            for co in ("unset", "noop", bare(U(50)), bare("validate"), lst(), lst("convert")):
                for fo in ("unset", "noop", chain(U(10)), chain(), chain("validate")):
                    for conv in (None, "c00"):
                        # the rule must not depend on the hooked field's other options: init=False with/without default
                        for init, dflt in ((True, False), (False, False), (False, True)):
                            classes = []
                            if frozen_base:
                                classes.append(mk_attrs(0, [mk_field("w", 0)], frozen=True))
                            elif conv is None and not own:
                                # a mutable base whose field carries a hook: freezing a subclass must be rejected too
                                classes.append(mk_attrs(0, [mk_field("w", 0, fo, init=init, dflt=dflt)]))
                            ci = len(classes)
                            fs = [mk_field("x", ci, fo, conv, 0, init=init, dflt=dflt)]
                            if not init:
                                fs.insert(0, mk_field("y", ci))
                            cs = mk_attrs(ci, fs, define=define, slots=False, cls_on=co, frozen=frozen_arg, own=own,
                                          auto=auto or define)
                            if define and frozen_arg and conv:
                                cs["api"] = "frozen"
                            classes.append(cs)
                            yield "deftable", retag(classes)
    # class-level lists/tuples/pipes of the stock hooks in EVERY order and multiplicity (length 1..3), on classes whose field
    # has a converter and validators (the validator's argument -- raw or converted -- is in the trace), only one, or none
    for k in (1, 2, 3):
        for combo in itertools.product(("convert", "validate"), repeat=k):
            for define, slots in itertools.product((False, True), (False, True)):
                for form in ("list", "tuple", "pipe"):
                    for conv, nv in (("c11", 2), ("plain", 0), (None, 1), (None, 0)):
                        cs = mk_attrs(0, [mk_field("x", 0, "unset", conv, nv), mk_field("y", 0, "unset", "c10", 1)],
                                      define=define, slots=slots, cls_on=lst(*combo))
                        cs["on_form"] = form
                        if not define and form == "pipe":
                            cs["api"] = "make_class"
                        yield "stock", [cs]
    # decorator-object reuse: the decorator object is first applied to 1-2 other classes (below frozen / hooked / plain
    # bases, with own __setattr__, with/without converters and validators)
    priors = [[p] for p in PRIOR_KINDS] + [[p1, p2] for p1 in PRIOR_KINDS[:3] for p2 in PRIOR_KINDS]
    for api in ("define", "mutable", "attr.s", "frozen"):
        for below_frozen in (False, True):
            for pr in priors:
                define = api != "attr.s"
                classes = []
                if below_frozen:
                    classes.append(mk_attrs(0, [mk_field("w", 0)], frozen=True))
                ci = len(classes)
                cs = mk_attrs(ci, [mk_field("x", ci, "unset", "c11", 1), mk_field("y", ci)], define=define, slots=False,
                              frozen=(api == "frozen"))
                cs["api"] = api
                cs["deco_prior"] = [dict(p) for p in pr]
                classes.append(cs)
                yield "deco", retag(classes)


def gen_field(rng, name, ci, hid):
    on = rng.choice(["unset"] * 8 + field_ons(hid) + [{"hook": {"h": gen_tree(rng, hid)}} for _ in range(6)])
    f = mk_field(name, ci, on, rng.choice(CONV_KINDS + [None]), rng.choice([0, 0, 1, 2]))
    f["on_form"] = rng.choice(["list", "bare", "tuple", "pipe"])
    if f["on_form"] == "bare":
        # a one-member list written as the bare callable
        f["on_form"] = "list"
        t = on["hook"]["h"] if isinstance(on, dict) else None
        if t is not None and "pipe" in t and len(t["pipe"]["l"]) == 1 and "leaf" in t["pipe"]["l"][0]:
            f["onSet"] = {"hook": {"h": t["pipe"]["l"][0]}}
    f["validator_form"] = rng.choice(["single", "list"])
    if on == "unset" and rng.random() < 0.2:
        f["pass_none"] = True
    if rng.random() < 0.15:
        f["init"] = False
        f["dflt"] = rng.random() < 0.5
    return f


def gen_chain(rng, dirty=False):
    depth = rng.choice([1, 2, 2, 3, 3, 4])
    classes = []
    hid = 0
    if depth < 4 and rng.random() < 0.1:
        classes.append(dict(mk_plain(False), exc=True))      # the chain hangs below Exception
    for ci in range(len(classes), depth + len(classes)):
        leaf = ci == depth + (1 if classes and classes[0].get("exc") else 0) - 1
        if not leaf and classes and rng.random() < 0.3:
            pl = mk_plain(rng.random() < 0.5)
            classes.append(with_mixin(pl, rng.random() < 0.5, rng.random() < 0.5) if rng.random() < 0.15 else pl)
            continue
        define = rng.random() < 0.5
        hid += 10
        co = rng.choice(["unset"] * 6 + cls_ons(hid * 10) + [{"hook": {"h": gen_tree(rng, hid * 10)}} for _ in range(3)])
        pool = list(NAMES)
        nf = rng.choice([0, 1, 1, 2, 2, 3]) if not leaf or classes else rng.choice([1, 2, 2, 3])
        fields = [gen_field(rng, n, ci, hid * 10 + 5 + 2 * k) for k, n in enumerate(rng.sample(pool, nf))]
        cs = mk_attrs(ci, fields, define=define, slots=rng.random() < 0.5, cls_on=co)
        cs["api"] = rng.choice(["define", "define", "mutable"]) if define else rng.choice(["attr.s", "attr.s", "these", "make_class"])
        cs["on_form"] = rng.choice(["list", "tuple", "pipe"])
        cs["explicit"] = rng.random() < 0.3
        cs["annotated"] = define and rng.random() < 0.4
        if not define:
            cs["collect_by_mro"] = rng.random() < 0.5
            cs["autoDetect"] = rng.random() < 0.3
        if co == "unset" and rng.random() < 0.2:
            cs["pass_none"] = True
        for key, pr in (("cache_hash", 0.12), ("kw_only", 0.12), ("no_eq", 0.1), ("no_weakref", 0.1)):
            if rng.random() < pr:
                cs[key] = True
        if classes and rng.random() < 0.25:
            cs = with_mixin(cs, rng.random() < 0.5, rng.random() < 0.6)
        if cs["api"] in ("attr.s", "define", "mutable") and rng.random() < 0.3:
            cs["deco_prior"] = [dict(rng.choice(PRIOR_KINDS)) for _ in range(rng.choice([1, 1, 2]))]
        if dirty:
            r = rng.random()
            if r < 0.3:
                cs["frozenArg"] = True
                if define and rng.random() < 0.5:
                    cs["api"] = "frozen"
            elif r < 0.55:
                cs["ownSetattr"] = True
                cs["autoDetect"] = True
                if cs["api"] in ("these",):
                    cs["api"] = "attr.s"
            if rng.random() < 0.6:
                # keep most dirty classes otherwise hook-free so that accepted combinations are visited too
                if rng.random() < 0.5:
                    cs["clsOn"] = rng.choice(["unset", "noop"])
                for f in fields:
                    if rng.random() < 0.7:
                        f["onSet"] = "unset"
        classes.append(cs)
    if classes[0].get("exc"):
        for cs in classes:
            cs.pop("cache_hash", None)      # attrs refuses hash caching on auto_exc exception classes
    return retag(classes)


# ------------------------------------------------------------------------------------------------ histories
def _with_faults(base, all_kinds=False, extra=0.2, rng=None):
    """the case, then for every callback position of every step a run in which that callback raises: the exception
    TYPE rotates through FAULT_KINDS (all of them if all_kinds), sometimes a second type at the same position"""
    obs = cb.observe(base)
    yield base
    for s, st in enumerate(obs.get("steps", [])):
        for p in range(len(st["trace"])):
            if all_kinds:
                kinds = FAULT_KINDS
            else:
                _KIND_CTR[0] += 1
                kinds = [FAULT_KINDS[_KIND_CTR[0] % len(FAULT_KINDS)]]
                if rng is not None and rng.random() < extra:
                    kinds.append(FAULT_KINDS[(_KIND_CTR[0] + 3) % len(FAULT_KINDS)])
            for k in kinds:
                yield dict(base, fault=[s, p], faultKind=k)


def cases_for_chain(classes, rng, tier, budget):
    built, err = cb.define_chain(classes)
    if err is not None:
        yield mk_case(classes, [], None, False, True)
        return
    names = [f["name"] for f in cb.resolved_fields(classes)]
    # the non-field name: dunder-like too when some field is (a non-field is a plain store whatever it is called)
    names.append("__nf__" if any(is_dunder(n) for n in names) and rng.random() < 0.5 else "nf")
    for nm in names:
        preset = rng.random() < 0.7
        r = rng.random()
        # mostly a fresh token; sometimes the very value it holds, None, or the empty string
        val = "i." + nm if preset and r < 0.12 else "None" if r < 0.2 else "" if r < 0.26 else "t1"
        yield from _with_faults(mk_case(classes, [(nm, val)], None, preset, True),
                                all_kinds=(tier == "thorough" and rng.random() < 0.3), rng=rng)
        yield mk_case(classes, [(nm, val)], None, preset, False)
    # equal-but-distinguishable values assigned one after the other to the same name (1 / 1.0 / True, 0.0 / -0.0, a str and
    # a str-subclass instance, two equal distinct lists): the stored object must be the chain's result -- exact type and
    # identity -- although an EQUAL value is already held
    for nm in names:
        if rng.random() < (0.5 if tier == "quick" else 0.8):
            cls_ = list(rng.choice(cb.EQ_CLASSES))
            rng.shuffle(cls_)
            hist = [(nm, v) for v in cls_[:3]]
            if rng.random() < 0.3:
                hist.append((nm, cls_[0]))
            yield from _with_faults(mk_case(classes, hist, None, rng.random() < 0.5, rng.random() < 0.85), rng=rng)
    if tier == "thorough" and len(names) <= 3 and rng.random() < 0.3:
        hists = [list(h) for k in (2, 3) for h in itertools.product(names, repeat=k)]
    else:
        hists = [[rng.choice(names) for _ in range(rng.choice([2, 3, 3]))] for _ in range(budget)]
    for h in hists:
        # values: mostly fresh tokens; sometimes a token used before, or the value the name was preset with
        hist = []
        for i, nm in enumerate(h):
            r = rng.random()
            if r < 0.2 and hist:
                val = rng.choice(hist)[1]
            elif r < 0.3:
                val = "i." + nm
            elif r < 0.38:
                val = rng.choice(["None", ""])
            else:
                val = f"t{i + 1}"
            hist.append((nm, val))
        preset = rng.random() < 0.6
        rv = rng.random() < 0.85
        yield from _with_faults(mk_case(classes, hist, None, preset, rv), rng=rng)


def gen_cases(tier, rng):
    sys_chains = list(systematic_chains())
    # the definition-time table first, completely (one cheap case per chain: does it define, and with which error)
    for lab, ch in sys_chains:
        if lab in ("deftable", "deco"):
            yield mk_case(ch, [], None, False, True)
    if tier == "quick":
        by_label = {}
        for lab, ch in sys_chains:
            by_label.setdefault(lab if lab in ("single", "deftable", "deco", "stock") else "mi" if lab.startswith("mi:") else "shape",
                                []).append(ch)
        picked = []
        for lab, chs in by_label.items():
            k = {"single": 200, "deftable": 110, "shape": 220, "mi": 230, "deco": 110, "stock": 170}[lab]
            picked += rng.sample(chs, min(k, len(chs)))
        rng.shuffle(picked)
        sys_iter = picked
        n_random = 100000
    else:
        sys_iter = [ch for _, ch in sys_chains]
        rng.shuffle(sys_iter)
        n_random = 10 ** 7
    # interleave: 2 systematic chains, 1 random clean chain, every 4th round a dirty one
    it = iter(sys_iter)
    r = 0
    done_sys = False
    while r < n_random:
        r += 1
        if not done_sys:
            for _ in range(2):
                ch = next(it, None)
                if ch is None:
                    done_sys = True
                    break
                yield from cases_for_chain(reshape(ch, pick_shape(rng)), rng, tier, 1)
        yield from cases_for_chain(reshape(gen_chain(rng, dirty=False), pick_shape(rng)), rng, tier, 2 if tier == "quick" else 4)
        if r % 4 == 0:
            yield from cases_for_chain(reshape(gen_chain(rng, dirty=True), pick_shape(rng)), rng, tier, 1)


def observe(case):
    return cb.observe(case)


# ------------------------------------------------------------------------------------------------ reporting
def nontrivial(case, model):
    if not model:
        return False
    if model.get("defErr") is not None:
        return True
    return any(s["trace"] or s["exc"] is not None for s in model.get("steps", []))


def _on_kind(on):
    if isinstance(on, str):
        return on
    t = on["hook"]["h"]
    fl = flatten(t)
    return ("bare:" if "leaf" in t else f"d{depth(t)}:") + "".join((s if isinstance(s, str) else "user")[0] for s in fl)


def _tree_shape(on):
    if isinstance(on, str):
        return "none"
    t = on["hook"]["h"]
    if "leaf" in t:
        return "bare"
    ms = t["pipe"]["l"]
    if all("leaf" in m for m in ms):
        return "flat"
    last_nested = max(i for i, m in enumerate(ms) if "pipe" in m)
    return f"nested-depth{depth(t)}" + ("-followed" if last_nested < len(ms) - 1 else "-last")


def dist(case, obs):
    cl = case["classes"]
    leaf = cl[-1]
    attrs_idx = [i for i, c in enumerate(cl) if c["kind"] == "attrs"]
    steps = obs.get("steps", []) if isinstance(obs, dict) else []
    fault_kind = "none"
    if case.get("fault") and steps:
        s, p = case["fault"]
        if s < len(steps) and p < len(steps[s]["trace"]):
            fault_kind = steps[s]["trace"][p]["id"]["kind"]
    excs = sorted({(e if isinstance(e, str) else "user") for e in (s["exc"] for s in steps) if e is not None})
    return {
        "depth": len(cl),
        "shape": "".join(("P" if c["kind"] == "plain" else ("S" if c["slots"] else "D")) for c in cl),
        "leaf_api": leaf.get("api") or ("define" if leaf["isDefine"] else "attr.s"),
        "leaf_clsOn": _on_kind(leaf["clsOn"]),
        "field_onSet": ",".join(sorted({_on_kind(f["onSet"]) for f in leaf["fields"]}))[:60],
        "conv": ",".join(sorted({str(f.get("conv_kind")) for c in cl for f in c["fields"]})),
        "tree": ",".join(sorted({_tree_shape(f["onSet"]) for c in cl for f in c["fields"]} |
                                {_tree_shape(c["clsOn"]) for c in cl})),
        "hist_len": len(case["history"]),
        "fault": fault_kind,
        "fault_step": case["fault"][0] if case.get("fault") else -1,
        "fault_type": (case.get("faultKind") or "user") if case.get("fault") else "none",
        "deco_prior": "+".join(p["base"] + ("/own" if p.get("own") else "") for c in cl for p in (c.get("deco_prior") or [])) or "none",
        "init_false": ",".join(sorted({("init" if f.get("init", True) else "noinit" + ("+dflt" if f.get("dflt") else ""))
                                       for c in cl for f in c["fields"]})) or "none",
        "mixin": ",".join(sorted({("none" if c.get("mixin") is None else ("slots" if c["mixin"] else "dict") +
                                  ("-first" if c.get("mixin_first", True) else "-second")) for c in cl})),
        "values": ",".join(sorted({"None" if a["value"] == "None" else "empty" if a["value"] == "" else
                                   "held" if a["value"].startswith("i.") else
                                   "eq" if a["value"].startswith("eq:") else "token" for a in case["history"]})),
        "rv": case["runValidators"], "preset": case["preset"],
        "name_shape": ",".join(sorted({("dunder" if is_dunder(n) else "trailing_" if n.endswith("_") else
                                        "private" if n.startswith("_") else "plain")
                                       for n in [f["name"] for c in cl for f in c["fields"]]})) or "none",
        "assigned_dunder": ("field" if any(is_dunder(a["name"]) and any(f["name"] == a["name"] for c in cl for f in c["fields"])
                                           for a in case["history"]) else
                            "nonfield" if any(is_dunder(a["name"]) for a in case["history"]) else "no"),
        "exc": ",".join(excs) or "none",
        "defErr": "none" if not isinstance(obs, dict) or obs.get("defErr") is None else f"cls{obs['defErr'][0]}:{obs['defErr'][1]}",
        "dirty": any(c["frozenArg"] or c["ownSetattr"] for c in cl),
        "n_attrs_classes": len(attrs_idx),
        "trace_len": sum(len(s["trace"]) for s in steps),
    }


def _valid(classes):
    return bool(classes) and classes[-1]["kind"] == "attrs"


def shrink(case):
    cl = case["classes"]
    h = case["history"]
    # shorter history (keep the fault pointing at the same step where possible)
    for i in range(len(h)):
        f = case.get("fault")
        if f and f[0] == i:
            continue
        f2 = [f[0] - 1, f[1]] if f and f[0] > i else f
        yield dict(case, history=h[:i] + h[i + 1:], fault=f2)
    if case.get("fault"):
        yield dict(case, fault=None, faultKind=None)
    for i, c in enumerate(cl):
        if c.get("deco_prior"):
            for d in range(len(c["deco_prior"])):
                c2 = copy.deepcopy(cl)
                del c2[i]["deco_prior"][d]
                yield dict(case, classes=c2)
        for j, f in enumerate(c["fields"]):
            if not f.get("init", True):
                c2 = copy.deepcopy(cl)
                c2[i]["fields"][j]["init"] = True
                c2[i]["fields"][j]["dflt"] = False
                yield dict(case, classes=c2)
    for i, c in enumerate(cl):
        if c.get("mixin") is not None:
            c2 = copy.deepcopy(cl)
            c2[i].pop("mixin")
            c2[i].pop("mixin_first", None)
            yield dict(case, classes=c2)
    # drop a class
    for i in range(len(cl)):
        c2 = copy.deepcopy(cl[:i] + cl[i + 1:])
        if _valid(c2):
            yield dict(case, classes=retag(c2))
    # drop a field
    for i, c in enumerate(cl):
        for j in range(len(c["fields"])):
            c2 = copy.deepcopy(cl)
            del c2[i]["fields"][j]
            yield dict(case, classes=c2)
    # reset options
    for i, c in enumerate(cl):
        if c["kind"] != "attrs":
            continue
        for k, v in (("clsOn", "unset"), ("slots", False), ("frozenArg", False), ("ownSetattr", False), ("api", None),
                     ("on_form", "list"), ("explicit", False), ("annotated", False), ("collect_by_mro", False), ("pass_none", False)):
            if c.get(k, v) != v:
                c2 = copy.deepcopy(cl)
                c2[i][k] = v
                if k == "api":
                    c2[i].pop("api")
                yield dict(case, classes=c2)
        for j, f in enumerate(c["fields"]):
            for k, v in (("onSet", "unset"), ("conv", None), ("validators", 0), ("on_form", "list"), ("validator_form", "single")):
                if f.get(k, v) != v:
                    c2 = copy.deepcopy(cl)
                    c2[i]["fields"][j][k] = v
                    if k == "conv":
                        c2[i]["fields"][j].pop("conv_kind", None)
                    yield dict(case, classes=c2)
            for t2 in _shrink_tree(f["onSet"]):
                c2 = copy.deepcopy(cl)
                c2[i]["fields"][j]["onSet"] = t2
                yield dict(case, classes=c2)
        for t2 in _shrink_tree(c["clsOn"]):
            c2 = copy.deepcopy(cl)
            c2[i]["clsOn"] = t2
            yield dict(case, classes=c2)
    if not case["preset"]:
        yield dict(case, preset=True)
    if not case["runValidators"]:
        yield dict(case, runValidators=True)


def _shrink_tree(on):
    """smaller hook expressions: drop a member anywhere, splice a nested pipe into its parent"""
    if not isinstance(on, dict):
        return
    t = on["hook"]["h"]

    def variants(t):
        if "leaf" in t:
            return
        ms = t["pipe"]["l"]
        for i, m in enumerate(ms):
            yield {"pipe": {"l": ms[:i] + ms[i + 1:]}}
            if "pipe" in m:
                yield {"pipe": {"l": ms[:i] + m["pipe"]["l"] + ms[i + 1:]}}
                for v in variants(m):
                    yield {"pipe": {"l": ms[:i] + [v] + ms[i + 1:]}}

    for v in variants(t):
        yield {"hook": {"h": v}}


def neighbours(case, rng):
    cl = case["classes"]
    try:
        yield from itertools.islice(cases_for_chain(cl, rng, "quick", 6), 400)
    except Exception:  # noqa: BLE001
        pass
    for c in shrink(case):
        if c["classes"] is not cl:
            try:
                yield from itertools.islice(cases_for_chain(c["classes"], rng, "quick", 1), 60)
            except Exception:  # noqa: BLE001
                continue
