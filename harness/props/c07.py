"""C07 -- field collection: once per name, MRO-fresh, definition order; introspection.

Case = the Lean `Attrs.C07.Case` (the hierarchy in creation order: per class its decorator kind, CPython's MRO as
class ids, the items of its body / `these`, decorator arguments, field_transformer; optionally an abstract
declaration list with the front-ends to compare; probe names) plus a harness-only `cfg` (base lists, how each class
is written: make_class list/dict, field() vs attr.ib, slots, frozen, default kind, validators, annotation source).
"""
from __future__ import annotations

import inspect
import itertools

import attr
import attrs

import c07_build as B
from common import exc_kind, purge_linecache

ID = "C07"
TABLES = ["classVarPrefixes"]
PARALLEL = True
BUDGET_S = {"quick": 38, "thorough": 400}
EXHAUSTIVE = {"quick": False, "thorough": True}
RULE = ("hierarchies = every C3-valid base assignment over <=4 classes in which all classes are ancestors of the "
        "class under test (1+1+4+41 shapes: chains, forks, diamonds, redundant base lists) x node kind {attr.s legacy, "
        "attr.s(collect_by_mro=True), define, plain} x per-class ordered declarations from the pool {x, y, "
        "_z} (in 60% of the sampled cases renamed, consistently through the hierarchy, to three names drawn "
        "from: the tuple's own method names count / index, attribute names of Attribute itself (name, "
        "default, validator, metadata, type, alias, inherited, init), soft keywords and look-alikes (match, "
        "case, class_, mro, cls), private and compiler-mangled names (_x, _count, __q written in the class "
        "body = _C<k>__q), upper case, digits, unicode, a long name; probes then also ask for count / index /"
        " __doc__ when they are NOT fields).  thorough "
        "enumerates exhaustively: <=2 classes with all 16 ordered name subsets per class, 3 classes with the 10 ordered "
        "subsets of size <=2, 4 classes with declarations {(), (x), (y,x)} and inner kinds {legacy, mro, plain} (about 236k "
        "hierarchies), then samples the other dimensions until the time budget is used; quick enumerates <=2 classes over "
        "{x, y} and samples the rest.  Sampled dimensions: random 5-6 class hierarchies; front-end (attr.ib with creation "
        "order != assignment order, auto_attribs annotations incl. ClassVar by string prefix / typing object / look-alikes "
        "and attr.ibs created in another order than annotated, these= and make_class list/dict with attr.ibs created in "
        "another order than inserted, these= over a body with annotations, define auto_attribs-inference bodies: "
        "annotated-only, field()-only, mixed, ClassVar-annotated field(), explicit True/False); class kw_only; per field "
        "default/factory, init, kw_only, explicit/empty alias; field_transformer {ident, reverse, drop, add, kw_only} on "
        "the class under test and on bases; abstract declarations rebuilt through 7 front-end encodings (twins); "
        "kind of every user-supplied container (metadata dict / MappingProxyType over a kept dict / "
        "OrderedDict / user Mapping; validator list / tuple / and_ / list holding and_; converter list / "
        "tuple / single; on_setattr list / tuple; these= dict / OrderedDict / MappingProxyType / UserDict / ChainMap / user Mapping (each with the attr.ib()s created in another order than inserted); make_class list / tuple / dict),"
        " each user-kept object mutated after class creation and every view re-read (fields, fields_dict, "
        "every class of the hierarchy, subclasses defined before and after the mutation; "
        "validators/converters/hooks are probed by calling them); an EMPTY these= ({} / OrderedDict(); make_class [] / () / {}) over a "
        "body that still holds attr.ib()s / annotations, also with the names of inherited fields; an "
        "introspection-order history on EVERY case (a deterministic function of the case: none / root-to-leaf / "
        "nearest-first / shuffled; fields_dict, fields, has, __match_args__ in rotating order on each ancestor and "
        "on a sibling subclass of the nearest base BEFORE the class under test is looked at; afterwards fields_dict "
        "must agree with fields for every class of the hierarchy, asked leaf-to-root and root-to-leaf); "
        "ONE decorator object (define() / mutable() / attr.s(...) with the arguments of the class under test) applied "
        "first to a class with another kind of body (mixed annotated + unannotated field(), unannotated only, "
        "annotated only, empty) and then to the class under test (64 hand-enumerated define cases first, then sampled); "
        "field_transformers that build what they return through evolve(metadata=<kept dict / MappingProxyType over "
        "it>) or Attribute(..., metadata=<kept dict / user Mapping>) and mutate the kept container after class "
        "creation; introspection BEFORE decoration (has / fields + fields_dict with the expected refusal / asdict + "
        "astuple meeting an instance / a plain subclass made and asked first -- on the still-undecorated class from "
        "user code, and has / fields / fields_dict from inside the field_transformer), then the decoration (in place "
        "for dict classes), then histAgree: has(cls) <=> fields(cls) and fields_dict(cls) work for every class and "
        "auxiliary class, and asdict / astuple recurse into an instance of the class under test; "
        "history of the class object before the "
        "decoration under test (harness-only; the expected tuple is a function of the body): a decoration "
        "attempt attrs refuses after looking at the body (cache_hash without hashing / frozen with on_setattr"
        " / non-bool hash / cache_hash with init=False) then the valid one on the same class object, a "
        "slotted build of the same plain class first, body objects (attr.ib()s, these= dict) already used by "
        "another class; who writes the initializer, on every class of the hierarchy (harness-only: attrs / "
        "class-level init=False / a hand-written __init__ respected by define or auto_detect=True -- the parameter "
        "order is then read from the class's own __attrs_init__, __match_args__ as visible on the class, so a stale "
        "inherited tuple shows); ANOTHER attrs class created while the class body is executing (harness-only: a "
        "nested attr.s / define class statement or a call to a helper building an attr.s / define / make_class / "
        "auto_attribs class, placed between two statements of the body; every build starts after 8 earlier "
        "attr.ib()s so the global creation counter is never at zero); background: slots, field() vs attr.ib, "
        "repr/eq on/off.  non-trivial = the class under test "
        "has an inherited field, a transformer or twins; distinct = distinct JSON case")
ASSUMPTIONS = [
    "the MRO is CPython's (C3): the real cls.__mro__ is passed into the case as class ids and re-checked by the observer",
    "sorted(key=counter) is modelled by a stable insertion sort (proved to sort: C07_counter_sorted)",
    "the user's field_transformer is an input: the model applies the same list function the harness installs",
    "Attribute immutability and metadata/validator/these isolation are observed on the real objects (constant in the model)",
    "the model is a function of the class body and decorator arguments: histories of the class object (refused earlier decoration, slotted build first, shared body objects, a decorator object already applied to another class), how a transformer builds the Attributes it returns, and the order in which the classes of the hierarchy were introspected before the class under test are harness-only variation",
    "who writes the initializer (init=False / own __init__) and other attrs classes created in the middle of a class body are harness-only variation: the model's fields / __match_args__ / parameter order do not depend on them",
    "the defining class of a survivor is observed through a metadata tag / marker annotation type placed by the harness",
    "the MRO collector reads each class's own __attrs_attrs__ (post-K07a repair); the legacy collector's and has()'s getattr lookup is modelled as 'first class of base's MRO that has its own tuple'",
]
LEVEL_TEXT = ("Lean theorems for arbitrary tables of base tuples, MROs, hierarchy sizes and field-list lengths about an "
              "executable model of _transform_attrs / _collect_base_attrs / _collect_base_attrs_broken / _is_class_var / "
              "_make_attr_tuple_class / fields_dict / has / add_match_args / init parameter order / define's auto_attribs "
              "inference / make_class: C07_once(+_final), C07_own_distinct, C07_inherited_then_own, C07_flags, C07_shadow, "
              "C07_nearest_wins (collector) and C07_nearest_wins_spec (declarative), C07_collect_is_declarative (gather + "
              "keep-last on the model's table = 'far to near, a declaration survives iff no nearer class declares the name'), "
              "C07_views_agree, C07_transformer_exact, C07_counter_sorted, C07_classvar_prefixes_documented (T1 table), "
              "C07_frontends_equal(+_built), C07_legacy_chain (abstract chain tables) and C07_legacy_chain_model (tables built by "
              "the model for chains of attrs classes), C07_model_meets_spec (every wf case outside K7), witness C07_K7_witness, regression "
              "C07_K07a_fixed (K07a repaired in attrs: plain classes contribute nothing to the MRO collector).  The model is tied to /repo by a differential correspondence over real "
              "classes (exhaustive over a finite hierarchy family of ~236k hierarchies in the thorough tier, sampled "
              "front-ends/options/transformers).  Observed only, not proved: CPython's MRO and attribute lookup, "
              "Attribute.__setattr__ / mappingproxy immutability, isolation from later mutation of user containers, "
              "inspect.signature; errors of base classes are mirrored by the model but not constrained by the spec.")

POOL = ["x", "y", "_z"]
HISTORIES = ["failed_cache_hash", "failed_frozen_on_setattr", "failed_hash_value", "failed_cache_hash_no_init",
             "twice_slots_first", "shared", "reused_mixed", "reused_unannotated", "reused_annotated", "reused_empty",
             "pre_has", "pre_fields", "pre_asdict", "pre_sub", "pre_all", "pre_all"]
QUICK_GEN_S = 26
THOROUGH_GEN_S = 370
DEFAULT_OPTS = {"hasDefault": False, "init": True, "kwOnly": False, "alias": None, "tag": None}


# --------------------------------------------------------------------------------------------- observation
def _fields_list(cls):
    return [B.field_obs(a) for a in attr.fields(cls)]


def _views(case, built, leaf):
    fs = attr.fields(leaf)
    obs = {}
    obs["fields"] = [B.field_obs(a) for a in fs]
    obs["byIndex"] = [fs[i].name for i in range(len(fs))]
    by_name = []
    for p in case["probes"]:
        try:
            got = getattr(fs, p)
        except AttributeError:
            by_name.append(None)
            continue
        # the by-name view must hand back the very Attribute stored at some index; anything else reachable under
        # that name (a tuple method, a dunder) is "not a field"
        idx = [i for i in range(len(fs)) if fs[i] is got]
        by_name.append(idx[0] if idx else None)
    obs["byName"] = by_name
    fd = attr.fields_dict(leaf)
    obs["dictKeys"] = list(fd)
    agree = isinstance(fd, dict)
    for n, a in fd.items():
        try:
            agree = agree and getattr(fs, n) is a and a.name == n
        except AttributeError:
            agree = False
    # ... and the same agreement for every class of the hierarchy (asked after the class under test, twice)
    for cls in list(reversed(built["classes"])) + list(built["classes"]):
        if not attr.has(cls):
            continue
        fs2, fd2 = attr.fields(cls), attr.fields_dict(cls)
        agree = agree and list(fd2) == [a.name for a in fs2] and all(fd2[a.name] is a for a in fs2)
    obs["dictAgree"] = bool(agree)
    obs["histAgree"] = _hist_agree(built, leaf)
    obs["has"] = [bool(attr.has(c)) for c in built["classes"]]
    obs["matchArgs"] = list(getattr(leaf, "__match_args__", ("<absent>",)))
    try:
        # the initializer attrs wrote for THIS class: __init__, or __attrs_init__ when the class brings its own
        # (init=False / hand-written __init__ respected by auto_detect)
        ps = list(inspect.signature(leaf.__dict__.get("__attrs_init__") or leaf.__init__).parameters.values())[1:]
        obs["initParams"] = [[p.name, p.kind is inspect.Parameter.KEYWORD_ONLY] for p in ps]
    except (TypeError, ValueError):
        obs["initParams"] = [["<no signature>", False]]
    # ---- immutability of Attribute objects and their metadata
    kinds, mkinds = set(), set()
    for a in fs:
        for slot in B.ATTR_SLOTS:
            try:
                setattr(a, slot, "mutated")
                kinds.add("no-exception")
            except BaseException as e:  # noqa: BLE001
                kinds.add(exc_kind(e))
        try:
            a.metadata["k"] = 1
            mkinds.add("no-exception")
        except BaseException as e:  # noqa: BLE001
            mkinds.add(exc_kind(e))
        try:
            a.metadata.update
            mkinds.add("has-update")
        except AttributeError:
            pass
    obs["setattrKinds"] = sorted(kinds)
    obs["metaWriteKinds"] = sorted(mkinds)
    # ---- isolation from later mutation of user containers: snapshot every view, define a subclass, mutate every
    # user-kept object (metadata dict behind whatever was passed, validator / converter / on_setattr lists, these=
    # dicts, make_class lists), define another subclass, re-read every view
    def views():
        out = {"fields": [B.attr_snapshot(a) for a in attr.fields(leaf)],
               "fields_dict": [(k, B.attr_snapshot(a)) for k, a in attr.fields_dict(leaf).items()]}
        for i, cls in enumerate(built["classes"]):
            if attr.has(cls):
                out[f"class{i}"] = [B.attr_snapshot(a) for a in attr.fields(cls)]
        return out

    def subclass(name):
        deco = attr.s(collect_by_mro=True, repr=False, eq=False) if len(fs) % 2 else attrs.define(slots=False, repr=False, eq=False)
        try:
            return deco(type(name, (leaf,), {}))
        except BaseException as e:  # noqa: BLE001
            return exc_kind(e)

    def inherited_snapshot(sub):
        if not isinstance(sub, type):
            return sub
        return [[x for j, x in enumerate(B.attr_snapshot(a)) if j != 3] for a in attr.fields(sub)]   # all but `inherited`

    before = views()
    sub_before = subclass("SubBefore")
    inh_before = inherited_snapshot(sub_before)
    user = built["ns"]["_user"]
    for m in user["mutators"]:
        m()
    for d in user["these"]:
        d["q_added"] = attr.ib()
        for k in list(d)[:1]:
            del d[k]
    for lst in user["lists"]:
        lst.append("q_added")
        lst.reverse()
    after = _fields_list(leaf)
    now = views()
    sub_after = subclass("SubAfter")
    leaked = []
    if now != before:
        leaked.append("views")
    if inherited_snapshot(sub_before) != inh_before:
        leaked.append("subclass-before")
    if inherited_snapshot(sub_after) != inh_before:
        leaked.append("subclass-after")
    if leaked:
        marker = "!mutated:" + "+".join(leaked)
        if after:
            # point at the first field whose snapshot changed (or the first one)
            idx = next((i for i, (x, y) in enumerate(zip(before["fields"], now["fields"])) if x != y), 0)
            after[min(idx, len(after) - 1)]["name"] += marker
        else:
            after.append({"name": marker, "tag": None, "ttag": None, "inherited": False, "hasDefault": False,
                          "init": True, "kwOnly": False, "alias": None})
    obs["afterMutation"] = after
    return obs


def _works(f, cls):
    try:
        f(cls)
        return True
    except attr.exceptions.NotAnAttrsClassError:
        return False


def _hist_agree(built, leaf):
    """whatever was asked of the classes before they were decorated: has(cls) <=> fields(cls) / fields_dict(cls)
    work, for every class of the hierarchy and every auxiliary class the history made; asdict / astuple recurse into
    an instance of the class under test exactly when has() says it is an attrs class (it is)"""
    ok = True
    for cls in [*built["classes"], *built["ns"]["_user"]["aux"]]:
        h = bool(attr.has(cls))
        ok = ok and h == _works(attr.fields, cls) == _works(attr.fields_dict, cls)
    try:
        inst = object.__new__(leaf)
        for a in attr.fields(leaf):
            object.__setattr__(inst, a.name, 0)
    except Exception:  # noqa: BLE001 -- cannot make a bare instance of this layout: nothing to observe
        return bool(ok)
    try:
        holder = attr.make_class("Holder", ["v"])(inst)
        d = attr.asdict(holder)["v"]
        t = attr.astuple(holder)[0]
        names = [a.name for a in attr.fields(leaf)]
        ok = ok and isinstance(d, dict) and list(d) == names and isinstance(t, tuple) and len(t) == len(names)
    except Exception:  # noqa: BLE001
        ok = False
    return bool(ok)


def _check_mros(case, built):
    ids = {c: i for i, c in enumerate(built["classes"])}
    for k, c in enumerate(built["classes"]):
        real = [ids[m] for m in c.__mro__[:-1]]
        if real != case["classes"][k]["mro"]:
            raise AssertionError(f"case MRO {case['classes'][k]['mro']} != CPython's {real} for class {k}")


EMPTY = {"err": None, "fields": [], "received": None, "returned": None, "byIndex": [], "byName": [], "dictKeys": [],
         "dictAgree": True, "histAgree": True, "has": [], "matchArgs": [], "initParams": [], "twins": [], "setattrKinds": [],
         "metaWriteKinds": [], "afterMutation": []}

_COUNT = [0]


def _twin_pc(fe, pc):
    pc = dict(pc)
    pc.pop("via", None)
    return pc


def encode_items(fe, decls):
    """mirror of Lean `encodeItems` (+ harness-only annotation source)"""
    def item(d, i, ann):
        return {"name": d["name"], "ann": "int" if ann else None, "annSrc": "'int'" if ann else None,
                "annTag": None, "val": {"ib": {"counter": i}}, "opts": d["opts"]}
    if fe == "these":
        return []
    if isinstance(fe, dict):
        its = [item(d, i + 1, False) for i, d in enumerate(decls)]
        r = fe["ib"]["rot"] % (len(its) + 1)
        return its[r:] + its[:r]
    ann = fe in ("annot", "defineAnnot")
    return [item(d, i + 1, ann) for i, d in enumerate(decls)]


def encode_cls(last, fe, decls):
    c = dict(last)
    c["kind"] = "define" if fe in ("defineAnnot", "defineField") else "attrS"
    c["items"] = encode_items(fe, decls)
    c["these"] = [[d["name"], d["opts"]] for d in decls] if fe == "these" else None
    c["autoAttribs"] = True if fe == "annot" else None if fe in ("defineAnnot", "defineField") else False
    return c


def observe(case):
    _COUNT[0] += 1
    if _COUNT[0] % 300 == 0:
        purge_linecache()
    obs = dict(EMPTY)
    built = B.build(case)
    rec = built["rec"]
    obs["received"] = rec.get("received")
    obs["returned"] = rec.get("returned")
    n = len(case["classes"])
    # twins first (they are observed whether or not the class under test could be created)
    twins = []
    if case.get("abs") is not None and (built["err"] is None or built["err"][0] == n - 1):
        fe0, decls = case["abs"]
        pcs = case.get("cfg", {}).get("per", [{}] * n)
        for fe in case["twins"]:
            tb = B.build(case, leaf_override=encode_cls(case["classes"][-1], fe, decls), leaf_pc=_twin_pc(fe, pcs[-1]))
            twins.append(None if tb["err"] is not None else _fields_list(tb["classes"][-1]))
    if built["err"] is not None:
        obs["err"] = [built["err"][0], built["err"][1]]
        if built["err"][0] == n - 1:
            obs["twins"] = twins
        else:
            obs["received"] = obs["returned"] = None
        return obs
    _check_mros(case, built)
    for c, cls in zip(case["classes"], built["classes"]):
        anns = cls.__dict__.get("__annotations__", {})
        if c["items"] and any(i["ann"] is not None for i in c["items"]):
            B.check_annotations(c, anns)
    introspect_first(case, built)
    obs.update(_views(case, built, built["classes"][-1]))
    obs["twins"] = twins
    return obs


INTRO_MODES = ["none", "root_to_leaf", "nearest_first", "shuffled", "root_to_leaf"]


def intro_plan(case):
    """(mode, order of ancestor ids, order of the introspection calls) -- a deterministic function of the case, so
    every case (enumerated families included) carries an introspection history and replays reproduce it"""
    h = int(case_digest(case), 16)
    n = len(case["classes"])
    mode = INTRO_MODES[h % len(INTRO_MODES)]
    anc = [m for m in case["classes"][-1]["mro"][1:]]
    if mode == "root_to_leaf":
        order = list(reversed(anc))
    elif mode == "nearest_first":
        order = list(anc)
    elif mode == "shuffled":
        import random
        order = list(anc)
        random.Random(h).shuffle(order)
    else:
        order = []
    ops = ["fields_dict", "fields", "has", "match_args"]
    r = (h // 7) % 4
    return mode, order, ops[r:] + ops[:r], bool((h // 31) % 2)


def case_digest(case):
    import hashlib
    import json
    return hashlib.sha1(json.dumps(case["classes"], sort_keys=True).encode()).hexdigest()[:12]


def introspect_first(case, built):
    """history: introspect the ancestors (and a sibling subclass of the nearest base) BEFORE the class under test is
    looked at for the first time"""
    mode, order, ops, sibling = intro_plan(case)
    targets = [built["classes"][m] for m in order]
    if sibling and len(built["classes"]) > 1 and mode != "none":
        base = built["classes"][case["classes"][-1]["mro"][1]] if len(case["classes"][-1]["mro"]) > 1 else None
        if base is not None:
            try:
                targets.insert(len(targets) // 2, attr.s(repr=False, eq=False, collect_by_mro=True)(
                    type("Sibling", (base,), {"sib": attr.ib(default=0, kw_only=True)})))
            except BaseException:  # noqa: BLE001
                pass
    for cls in targets:
        for op in ops:
            try:
                if op == "fields_dict":
                    attr.fields_dict(cls)
                elif op == "fields":
                    attr.fields(cls)
                elif op == "has":
                    attr.has(cls)
                else:
                    getattr(cls, "__match_args__", None)
            except BaseException:  # noqa: BLE001 -- plain classes without attrs ancestors refuse; that is fine here
                pass


# --------------------------------------------------------------------------------------------- hierarchy shapes
def _all_shapes(n):
    """every base assignment over n classes (ordered base tuples) that CPython accepts and in which every class is
    an ancestor of the last one; returns [(bases, mros)]"""
    out = []

    def options(k):
        res = [()]
        for r in range(1, k + 1):
            for sub in itertools.permutations(range(k), r):
                res.append(sub)
        return res

    for combo in itertools.product(*[options(k) for k in range(n)]):
        classes = []
        ok = True
        for k, bs in enumerate(combo):
            try:
                classes.append(type(f"N{k}", tuple(classes[b] for b in bs), {}))
            except TypeError:
                ok = False
                break
        if not ok:
            continue
        ids = {c: i for i, c in enumerate(classes)}
        mros = [[ids[m] for m in c.__mro__[:-1]] for c in classes]
        if set(mros[-1]) != set(range(n)):
            continue
        # skip redundant base lists (a listed base that is already an ancestor of another listed base adds nothing
        # new to the MRO only if the MRO is the same -- keep all: they are different programs)
        out.append(([list(b) for b in combo], mros))
    return out


_SHAPES: dict = {}


def shapes(n):
    if n not in _SHAPES:
        _SHAPES[n] = _all_shapes(n)
    return _SHAPES[n]


def ordered_subsets(pool):
    res = [[]]
    for r in range(1, len(pool) + 1):
        res += [list(p) for p in itertools.permutations(pool, r)]
    return res


# --------------------------------------------------------------------------------------------- class generators
def opts(tag, **kw):
    o = dict(DEFAULT_OPTS, tag=tag)
    o.update(kw)
    return o


def ib_item(name, counter, o, ann=None, ann_src=None, ann_tag=None):
    return {"name": name, "ann": ann, "annSrc": ann_src, "annTag": ann_tag, "val": {"ib": {"counter": counter}}, "opts": o}


def simple_cls(kind, mro, k, names, optmap=None):
    """kind in legacy|mro|define|plain; attr.ib / field() items in creation order"""
    optmap = optmap or {}
    if kind == "plain":
        return {"kind": "plain", "mro": mro, "items": [], "these": None, "autoAttribs": None, "collectByMro": False,
                "kwOnly": False, "tr": "none"}
    items = [ib_item(n, i + 1, optmap.get(n) or opts(k)) for i, n in enumerate(names)]
    return {"kind": "define" if kind == "define" else "attrS", "mro": mro, "items": items, "these": None,
            "autoAttribs": None if kind == "define" else False, "collectByMro": kind != "legacy",
            "kwOnly": False, "tr": "none"}


ANN_FORMS = [  # (source, str(annotation), is a marker carrying the class id)
    ("T{k}", "T{k}", True), ("'T{k}'", "T{k}", True), ("int", "<class 'int'>", False), ("'int'", "int", False),
]
CLASSVAR_FORMS = [
    ("typing.ClassVar[int]", "typing.ClassVar[int]"), ("'ClassVar[int]'", "ClassVar[int]"),
    ("\"'typing.ClassVar[int]'\"", "'typing.ClassVar[int]'"), ("'t.ClassVar[int]'", "t.ClassVar[int]"),
    ("'typing_extensions.ClassVar[T0]'", "typing_extensions.ClassVar[T0]"), ("ClassVar[int]", "typing.ClassVar[int]"),
    ("'ClassVariable'", "ClassVariable"), ("t.ClassVar", "typing.ClassVar"),
]
NOT_CLASSVAR_FORMS = [
    ("'Optional[ClassVar[int]]'", "Optional[ClassVar[int]]"), ("'typing.List[ClassVar]'", "typing.List[ClassVar]"),
    ("'classvar'", "classvar"), ("\"'int\"", "'int"), ("'typing.Classvar'", "typing.Classvar"),
    ("' ClassVar[int]'", " ClassVar[int]"),
]


def rand_opts(rng, k, rich, name="f"):
    o = opts(k)
    if rich:
        if rng.random() < 0.25:
            o["hasDefault"] = True
        if rng.random() < 0.15:
            o["init"] = False
        if rng.random() < 0.2:
            o["kwOnly"] = True
        r = rng.random()
        if r < 0.15:
            o["alias"] = "al_" + name
        elif r < 0.2:
            o["alias"] = ""
        if rng.random() < 0.1:
            o["tag"] = None
    return o


def rand_tr(rng, k, names_here, fresh):
    r = rng.random()
    if r < 0.2:
        return "ident"
    if r < 0.45:
        return "reverse"
    if r < 0.65:
        return {"drop": {"n": rng.choice(POOL)}}
    if r < 0.85:
        return {"add": {"n": fresh, "o": opts(k, kwOnly=rng.random() < 0.5, hasDefault=rng.random() < 0.3)}}
    return "kwOnly"


def rand_cls(rng, kind, mro, k, rich, pc):
    """a class with a randomly chosen front-end; returns the Cls dict and fills the per-class cfg `pc`"""
    if kind == "plain":
        return simple_cls("plain", mro, k, [])
    names = rng.choice(ordered_subsets(POOL))
    om = {n: rand_opts(rng, k, rich, n) for n in names}
    c = simple_cls(kind, mro, k, names, om)
    style = rng.choice(["ib", "ib", "ib_perm", "annot", "annot_mixed", "these", "these_body", "make_class",
                        "these_empty"])
    these_empty = style == "these_empty"
    if these_empty:
        # an EMPTY these= (a computed mapping that came out empty) over a body that still holds attr.ib()s /
        # annotations (possibly with the names of inherited fields): the class declares no own field
        style = rng.choice(["ib", "ib_perm", "annot", "annot_mixed"])
    if style == "ib_perm" and len(names) > 1:
        its = c["items"]
        rng.shuffle(its)
    elif style in ("annot", "annot_mixed"):
        items = []
        ctr = 0
        for n in names:
            src, s, marks = rng.choice(ANN_FORMS)
            src, s = src.replace("{k}", str(k)), s.replace("{k}", str(k))
            form = rng.choice(["ib", "ib", "plain", "absent"]) if style == "annot_mixed" else "ib"
            ctr += 1
            if form == "ib":
                items.append(ib_item(n, ctr, om[n], s, src, k if marks else None))
            else:
                items.append({"name": n, "ann": s, "annSrc": src, "annTag": k if marks else None, "val": form,
                              "opts": dict(DEFAULT_OPTS)})
        # sprinkle ClassVar / odd annotations on other names
        extra = [n for n in ["cv", "cw"] if rng.random() < 0.6]
        for n in extra:
            src, s = rng.choice(CLASSVAR_FORMS + NOT_CLASSVAR_FORMS[:2] if rng.random() < 0.8 else NOT_CLASSVAR_FORMS)
            pos = rng.randrange(len(items) + 1)
            val = rng.choice(["plain", "absent", "plain"])
            items.insert(pos, {"name": n, "ann": s, "annSrc": src, "annTag": None, "val": val, "opts": dict(DEFAULT_OPTS)})
        if rng.random() < 0.4:
            # creation order of the attr.ibs differs from annotation order (must not matter with auto_attribs)
            ibs = [i for i in items if isinstance(i["val"], dict)]
            ctrs = [i["val"]["ib"]["counter"] for i in ibs]
            rng.shuffle(ctrs)
            for i, ct in zip(ibs, ctrs):
                i["val"] = {"ib": {"counter": ct}}
        c["items"] = items
        if c["kind"] == "attrS":
            c["autoAttribs"] = True
        else:
            c["autoAttribs"] = rng.choice([None, None, True])
    elif style in ("these", "these_body", "make_class"):
        c["these"] = [[n, om[n]] for n in names]
        c["items"] = []
        if style == "these_body" and names:
            # the body also holds annotations / other attr.ibs: these= wins, annotations only give the type
            n = names[0]
            src, s, marks = ANN_FORMS[0]
            c["items"] = [{"name": n, "ann": s.replace("{k}", str(k)), "annSrc": src.replace("{k}", str(k)),
                           "annTag": k, "val": "absent", "opts": dict(DEFAULT_OPTS)},
                          ib_item("ignored", 1, opts(k))]
        if style == "make_class" and c["kind"] == "attrS":
            plain_list = all(o == dict(DEFAULT_OPTS) for _, o in c["these"])
            pc["via"] = "make_class_list" if plain_list and rng.random() < 0.7 else "make_class_dict"
            if rng.random() < 0.3:
                for e in c["these"]:
                    e[1] = dict(DEFAULT_OPTS)
                pc["via"] = "make_class_list"
    if these_empty:
        c["these"] = []
        if c["kind"] == "attrS" and rng.random() < 0.5:
            pc["ck"] = dict(pc.get("ck", {}), these=rng.choice(["dict", "odict"]))
    if rich and rng.random() < 0.15:
        c["kwOnly"] = True
    return c


def define_inference_cls(rng, mro, k):
    """bodies for define's auto_attribs inference"""
    body = rng.choice(["annotated_only", "field_only", "mixed", "classvar_field", "annotated_fields", "empty"])
    items = []
    T = f"T{k}"
    if body == "annotated_only":
        for n in rng.choice(ordered_subsets(POOL)):
            items.append({"name": n, "ann": T, "annSrc": T, "annTag": k, "val": rng.choice(["absent", "plain"]),
                          "opts": dict(DEFAULT_OPTS)})
        # defaults after mandatory only
        items.sort(key=lambda i: i["val"] == "plain")
    elif body == "field_only":
        for i, n in enumerate(rng.choice(ordered_subsets(POOL))):
            items.append(ib_item(n, i + 1, opts(k)))
    elif body == "mixed":
        names = rng.choice([s for s in ordered_subsets(POOL) if s])
        for i, n in enumerate(names):
            if i == 0 or rng.random() < 0.5:
                items.append(ib_item(n, i + 1, opts(k)))                      # unannotated field()
            else:
                items.append({"name": n, "ann": T, "annSrc": T, "annTag": k, "val": rng.choice(["plain", "absent"]),
                              "opts": dict(DEFAULT_OPTS)})                     # annotated plain attribute
        rng.shuffle(items)
    elif body == "classvar_field":
        # a field() annotated as ClassVar counts as unannotated
        src, s = rng.choice(CLASSVAR_FORMS)
        items.append(ib_item("x", 1, opts(k), s, src, None))
        if rng.random() < 0.5:
            items.append({"name": "y", "ann": T, "annSrc": T, "annTag": k, "val": "absent", "opts": dict(DEFAULT_OPTS)})
    elif body == "annotated_fields":
        for i, n in enumerate(rng.choice(ordered_subsets(POOL))):
            items.append(ib_item(n, i + 1, opts(k), T, T, k))
    auto = rng.choice([None, None, None, True, False])
    return {"kind": "define", "mro": mro, "items": items, "these": None, "autoAttribs": auto, "collectByMro": True,
            "kwOnly": False, "tr": "none"}, body


def base_cfg(rng, shape_bases, rich):
    diamond = any(len(b) > 1 for b in shape_bases)
    per = []
    for _ in shape_bases:
        pc = {"lean": True}
        if rich:
            pc["lean"] = rng.random() < 0.6
            pc["slots"] = (not diamond) and rng.random() < 0.4
            pc["frozen"] = False
            pc["dkind"] = rng.choice(["value", "factory"])
            pc["validators"] = rng.random() < 0.3
            pc["field_fn"] = rng.random() < 0.7
            pc["these_rev"] = rng.random() < 0.7
            # the HISTORY of the class object / its body objects before the decoration under test
            if rng.random() < 0.45:
                pc["history"] = rng.choice(HISTORIES)
            pc["define_api"] = rng.choice(["define", "define", "mutable"])
            pc["tr_probe"] = rng.random() < 0.7
            # how a field_transformer builds what it returns (with containers it keeps and mutates later)
            pc["tr_style"] = rng.choice(["plain", "evolve_md", "evolve_md_proxy", "ctor", "ctor_mapping"])
            # the KIND of every user-supplied container
            pc["ck"] = {"md": rng.choice(["dict", "dict", "proxy", "odict", "mapping"]),
                        "val": rng.choice(["none", "none", "list", "tuple", "and", "list_and"]),
                        "conv": rng.choice(["none", "none", "list", "tuple", "single"]),
                        "osa": rng.choice(["none", "none", "list", "tuple"]),
                        "these": rng.choice(["dict", "odict", "tuple", "proxy", "userdict", "chainmap", "mapping"])}
            pc["explicit_auto_false"] = rng.random() < 0.2
        extra_dims(rng, pc, 0.3)
        per.append(pc)
    return {"bases": shape_bases, "per": per}


INTERLEAVE_HOW = ["nested", "nested", "nested_define", "call_attrs", "call_attrs", "call_define", "call_make_class",
                  "call_auto"]


def extra_dims(rng, pc, p):
    """harness-only dimensions every class can carry: who writes the initializer; another attrs class created in
    the middle of the class body"""
    if rng.random() < p:
        pc["init_mode"] = rng.choice(["false", "own"])
    if rng.random() < p:
        pc["interleave"] = {"pos": rng.choice([1, 2, 2, 2, 3]), "how": rng.choice(INTERLEAVE_HOW)}
    return pc


def mk_case(classes, cfg, abs_=None, twins=None, probes=None):
    return {"classes": classes, "abs": abs_, "twins": twins or [], "probes": probes or POOL + ["w0", "q", "cv"],
            "cfg": cfg}


KINDS = ["legacy", "mro", "define", "plain"]
FES = [{"ib": {"rot": 0}}, {"ib": {"rot": 1}}, {"ib": {"rot": 2}}, "annot", "these", "defineAnnot", "defineField"]


def family(ns, decl_opts, kinds_inner, kinds_leaf):
    """the exhaustive hierarchy family"""
    for n in ns:
        for bases, mros in shapes(n):
            per_node = []
            for k in range(n):
                ks = kinds_leaf if k == n - 1 else kinds_inner
                node = []
                for kind in ks:
                    if kind == "plain":
                        node.append((kind, []))
                    else:
                        node += [(kind, d) for d in decl_opts]
                per_node.append(node)
            for combo in itertools.product(*per_node):
                classes = [simple_cls(kind, mros[k], k, names) for k, (kind, names) in enumerate(combo)]
                yield mk_case(classes, {"bases": bases, "per": [{"lean": True, "slots": False}] * n})


def random_shape(rng, n):
    """a random C3-valid hierarchy of n classes, all ancestors of the last (beyond the enumerated bound of 4)"""
    for _ in range(50):
        bases, classes, ok = [], [], True
        for k in range(n):
            if k == 0:
                bs = []
            else:
                cand = list(range(k))
                rng.shuffle(cand)
                bs = cand[:rng.choice([1, 1, 2, 2, 3])]
            try:
                classes.append(type(f"N{k}", tuple(classes[b] for b in bs), {}))
            except TypeError:
                ok = False
                break
            bases.append(bs)
        if not ok:
            continue
        ids = {c: i for i, c in enumerate(classes)}
        mros = [[ids[m] for m in c.__mro__[:-1]] for c in classes]
        if set(mros[-1]) == set(range(n)):
            return bases, mros
    return [[]] + [[k - 1] for k in range(1, n)], [list(range(k, -1, -1)) for k in range(n)]


def random_case(rng):
    n = rng.choice([1, 2, 2, 3, 3, 3, 4, 4, 4, 4, 5, 6])
    bases, mros = rng.choice(shapes(n)) if n <= 4 else random_shape(rng, n)
    rich = rng.random() < 0.5
    cfg = base_cfg(rng, bases, rich)
    classes = []
    mode = rng.choice(["simple", "frontends", "frontends", "define_inf", "abstract", "transformer", "transformer"])
    info = {"mode": mode}
    fresh = 0
    for k in range(n):
        leaf = k == n - 1
        kind = rng.choice(KINDS[:3] if leaf else KINDS)
        pc = cfg["per"][k]
        if mode == "simple":
            c = simple_cls(kind, mros[k], k, rng.choice(ordered_subsets(POOL)))
        elif mode == "define_inf" and (leaf or rng.random() < 0.3):
            c, info["body"] = define_inference_cls(rng, mros[k], k)
            if rng.random() < 0.5:
                pc["history"] = rng.choice([h for h in HISTORIES if h.startswith("reused")])
        else:
            c = rand_cls(rng, kind, mros[k], k, rich, pc)
        if mode == "transformer" and c["kind"] != "plain" and (leaf or rng.random() < 0.3):
            c["tr"] = rand_tr(rng, k, None, f"w{fresh}")
            fresh += 1
        classes.append(c)
    abs_, twins = None, []
    if mode == "abstract":
        names = rng.choice(ordered_subsets(POOL))
        decls = [{"name": nm, "opts": rand_opts(rng, n - 1, rich, nm)} for nm in names]
        fe = rng.choice(FES)
        last = classes[-1]
        last = dict(last, kind="attrS", collectByMro=rng.random() < 0.6, kwOnly=rng.random() < 0.15,
                    tr=rng.choice(["none", "none", "reverse", "ident"]))
        classes[-1] = encode_cls(last, fe, decls)
        if classes[-1]["kind"] == "define":
            classes[-1]["collectByMro"] = True      # normal form: define always collects by MRO
        abs_ = [fe, decls]
        twins = [f for f in FES if f != fe]
        cfg["per"][-1].pop("via", None)
    case = mk_case(classes, cfg, abs_, twins)
    case["cfg"]["info"] = info
    if rng.random() < 0.6:
        case = rename_case(case, pick_names(rng))
    return case


# names a field may well have: tuple attributes, attribute names of `Attribute` itself, soft keywords and
# keyword look-alikes, private / mangled, upper case, digits, unicode, long
NAME_UNIVERSE = ["count", "index", "name", "default", "validator", "metadata", "type", "alias", "inherited", "init",
                 "match", "case", "class_", "mro", "cls", "X", "a", "a1", "é", "Ω", "名", "_x", "_count", "_index",
                 "__q", "__count", "x", "y", "_z", "a_rather_long_field_name_with_many_parts"]
RESERVED = {"cv", "cw", "ignored", "q", "self"}


def pick_names(rng):
    """three names for x, y, _z whose default aliases (leading underscores stripped) are distinct"""
    while True:
        names = rng.sample(NAME_UNIVERSE, 3)
        if rng.random() < 0.5:
            names[rng.randrange(3)] = rng.choice(["count", "index"])      # names of the tuple's own methods
        stripped = [n.lstrip("_") for n in names]
        if len(set(stripped)) == 3 and not (set(names) | set(stripped)) & RESERVED:
            return dict(zip(POOL, names))


def rename_case(case, mapping):
    """apply a renaming of the pool names throughout a case.  A `__q`-style name written in a class statement is
    mangled by the compiler: the field is `_C<k>__q` (that is what the case says), the source says `__q`."""
    n = len(case["classes"])
    is_abs = case.get("abs") is not None

    def new(old, k, in_body):
        if old not in mapping:
            return old, None
        nm = mapping[old]
        if nm.startswith("__"):
            mangled = f"_C{k}{nm}"
            return mangled, (nm if in_body and not (is_abs and k == n - 1) else None)
        return nm, None

    def ren_opts(o, old, nm):
        if o.get("alias") and o["alias"].startswith("al_") and old in mapping:
            return dict(o, alias="al_" + nm)
        return o

    classes = []
    for k, c in enumerate(case["classes"]):
        c = dict(c)
        items = []
        for i in c["items"]:
            nm, src = new(i["name"], k, True)
            i2 = dict(i, name=nm, opts=ren_opts(i["opts"], i["name"], nm))
            if src is not None:
                i2["srcName"] = src
            items.append(i2)
        c["items"] = items
        if c["these"] is not None:
            c["these"] = [[new(nm, k, False)[0], ren_opts(o, nm, new(nm, k, False)[0])] for nm, o in c["these"]]
        tr = c["tr"]
        if isinstance(tr, dict) and "drop" in tr:
            # a transformer drops by the name the field really has in this class
            c["tr"] = {"drop": {"n": new(tr["drop"]["n"], k, False)[0]}}
        classes.append(c)
    out = dict(case, classes=classes)
    if is_abs:
        fe, decls = case["abs"]
        out["abs"] = [fe, [{"name": new(d["name"], n - 1, False)[0],
                            "opts": ren_opts(d["opts"], d["name"], new(d["name"], n - 1, False)[0])} for d in decls]]
    probes = []
    for k in range(n):
        for old in POOL:
            nm = new(old, k, False)[0]
            if nm not in probes:
                probes.append(nm)
    out["probes"] = probes + ["count", "index", "__doc__", "w0", "q", "cv"]
    out["cfg"] = dict(case["cfg"], info=dict(case["cfg"].get("info", {}), names=sorted(mapping.values())))
    return out


def gen_cases(tier, rng):
    # hand-written seeds: #428, plain-class re-export, diamonds
    yield from seeds()
    if tier == "quick":
        fam1 = list(family([1, 2], ordered_subsets(POOL[:2]), KINDS, KINDS[:3]))
        for c in fam1:
            yield c
        # sample of the big family + random rich cases, interleaved
        decl_small = [[], ["x"], ["x", "y"], ["y", "x"]]
        import time
        t_end = time.time() + QUICK_GEN_S      # the runner looks at the clock only every 4000 cases
        while time.time() < t_end:
            for _ in range(3):
                yield random_case(rng)
            n = rng.choice([3, 4, 4])
            bases, mros = rng.choice(shapes(n))
            classes = []
            for k in range(n):
                kind = rng.choice(KINDS[:3] if k == n - 1 else KINDS)
                classes.append(simple_cls(kind, mros[k], k, rng.choice(ordered_subsets(POOL) if n == 3 else decl_small)))
            yield mk_case(classes, {"bases": bases, "per": [extra_dims(rng, {"lean": True, "slots": False}, 0.35)
                                                            for _ in range(n)]})
    else:
        import time
        t_end = time.time() + THOROUGH_GEN_S
        yield from family([1, 2], ordered_subsets(POOL), KINDS, KINDS[:3])
        yield from family([3], [d for d in ordered_subsets(POOL) if len(d) <= 2], KINDS, KINDS[:3])
        yield from family([4], [[], ["x"], ["y", "x"]], ["legacy", "mro", "plain"], ["legacy", "mro", "define"])
        # the other dimensions: sampled until the time budget is nearly used
        while time.time() < t_end:
            yield random_case(rng)


def reuse_seeds():
    """decorator objects reused across classes of different body kinds (define's auto_attribs inference must be
    made afresh for every class)"""
    T = "T{k}"
    for hist in ("reused_mixed", "reused_unannotated", "reused_annotated", "reused_empty"):
        for api in ("define", "mutable"):
            for body in ("annotated_plain", "annotated_absent", "fields", "mixed"):
                for with_base in (False, True):
                    k = 1 if with_base else 0
                    t = T.replace("{k}", str(k))
                    if body == "annotated_plain":
                        items = [{"name": "x", "ann": t, "annSrc": t, "annTag": k, "val": "absent", "opts": dict(DEFAULT_OPTS)},
                                 {"name": "y", "ann": t, "annSrc": t, "annTag": k, "val": "plain", "opts": dict(DEFAULT_OPTS)}]
                    elif body == "annotated_absent":
                        items = [{"name": "y", "ann": t, "annSrc": t, "annTag": k, "val": "absent", "opts": dict(DEFAULT_OPTS)}]
                    elif body == "fields":
                        items = [ib_item("y", 1, opts(k)), ib_item("x", 2, opts(k))]
                    else:
                        items = [{"name": "y", "ann": t, "annSrc": t, "annTag": k, "val": "plain", "opts": dict(DEFAULT_OPTS)},
                                 ib_item("x", 1, opts(k))]
                    leaf = {"kind": "define", "mro": [1, 0] if with_base else [0], "items": items, "these": None,
                            "autoAttribs": None, "collectByMro": True, "kwOnly": False, "tr": "none"}
                    classes = ([simple_cls("mro", [0], 0, ["x"])] if with_base else []) + [leaf]
                    per = [{"lean": True}] * (len(classes) - 1) + [{"lean": True, "slots": False, "history": hist,
                                                                   "define_api": api}]
                    yield mk_case(classes, {"bases": [[], [0]] if with_base else [[]], "per": per})


def dim_seeds():
    """own initializer x inheritance (own extra field / shadowing an inherited one); another attrs class created in
    the middle of a counter-collected class body"""
    for leaf_kind in ("legacy", "mro", "define"):
        for mode in ("false", "own"):
            for names in (["_z"], ["x"], ["x", "_z"], []):
                cl = [simple_cls("mro", [0], 0, ["x", "y"]), simple_cls(leaf_kind, [1, 0], 1, names)]
                yield mk_case(cl, {"bases": [[], [0]], "per": [{"lean": True}, {"lean": True, "init_mode": mode}]})
            yield mk_case([simple_cls(leaf_kind, [0], 0, ["y", "x"])],
                          {"bases": [[]], "per": [{"lean": True, "init_mode": mode}]})
        for how in sorted(set(INTERLEAVE_HOW)):
            for pos in (1, 2):
                il = {"lean": True, "interleave": {"pos": pos, "how": how}}
                yield mk_case([simple_cls(leaf_kind, [0], 0, ["x", "y", "_z"])], {"bases": [[]], "per": [il]})
                cl = [simple_cls("mro", [0], 0, ["_z", "x"]), simple_cls(leaf_kind, [1, 0], 1, ["y", "x", "_z"])]
                yield mk_case(cl, {"bases": [[], [0]], "per": [dict(il), dict(il)]})


def seeds():
    yield from reuse_seeds()
    yield from dim_seeds()
    # K7 (#428): legacy collection under a diamond
    for leaf_kind in ("legacy", "mro", "define"):
        bases = [[], [0], [0], [1, 2]]
        mros = [[0], [1, 0], [2, 0], [3, 1, 2, 0]]
        cl = [simple_cls("mro", mros[0], 0, ["x"]), simple_cls("mro", mros[1], 1, []),
              simple_cls("mro", mros[2], 2, ["x"]), simple_cls(leaf_kind, mros[3], 3, [])]
        yield mk_case(cl, {"bases": bases, "per": [{"lean": True}] * 4})
        # former K07a (repaired): plain class between
        cl = [simple_cls("mro", mros[0], 0, ["x"]), simple_cls("plain", mros[1], 1, []),
              simple_cls("mro", mros[2], 2, ["y"]), simple_cls(leaf_kind, mros[3], 3, [])]
        yield mk_case(cl, {"bases": bases, "per": [{"lean": True}] * 4})


# --------------------------------------------------------------------------------------------- bookkeeping
def nontrivial(case, model):
    if not isinstance(model, dict):
        return False
    return bool(any(f.get("inherited") for f in model.get("fields", [])) or case["twins"]
                or case["classes"][-1]["tr"] != "none")


def dist(case, obs):
    cs = case["classes"]
    last = cs[-1]
    info = case.get("cfg", {}).get("info", {})
    tr = last["tr"]
    fe = "these" if last["these"] is not None else ("auto" if last["autoAttribs"] else "infer" if (
        last["kind"] == "define" and last["autoAttribs"] is None) else "counter")
    o = obs if isinstance(obs, dict) else {}
    return {
        "n_classes": len(cs),
        "diamond": any(len(b) > 1 for b in case["cfg"]["bases"]),
        "leaf_kind": last["kind"] + ("" if last["kind"] != "attrS" else ":mro" if last["collectByMro"] else ":legacy"),
        "kinds": "".join(c["kind"][0] for c in cs),
        "leaf_frontend": fe,
        "via": case["cfg"]["per"][-1].get("via", "class"),
        "mode": info.get("mode", "family"),
        "define_body": info.get("body", "-"),
        "transformer": tr if isinstance(tr, str) else next(iter(tr)),
        "n_fields": len(o.get("fields", [])),
        "n_inherited": sum(1 for f in o.get("fields", []) if f["inherited"]),
        "err": "none" if not o.get("err") else f"{'leaf' if o['err'][0] == len(cs) - 1 else 'base'}:{o['err'][1]}",
        "twins": len(case["twins"]),
        "kw_only_cls": last["kwOnly"],
        "tr_style_leaf": case["cfg"]["per"][-1].get("tr_style", "plain") if tr != "none" else "-",
        "intro_order": intro_plan(case)[0],
        "these_empty_over_body": last["these"] == [] and bool(last["items"]),
        "tuple_method_field": any(f["name"] in ("count", "index") for f in o.get("fields", [])),
        "renamed": bool(info.get("names")),
        "history_leaf": case["cfg"]["per"][-1].get("history", "none"),
        "init_mode_leaf": case["cfg"]["per"][-1].get("init_mode", "attrs"),
        "init_mode_base": any(pc.get("init_mode") for pc in case["cfg"]["per"][:-1]),
        "interleave_leaf": (case["cfg"]["per"][-1].get("interleave") or {}).get("how", "none"),
        "md_kind_leaf": case["cfg"]["per"][-1].get("ck", {}).get("md", "dict"),
    }


def shrink(case):
    cs = case["classes"]
    n = len(cs)
    bases = case["cfg"]["bases"]
    # drop a class that nothing else derives from except through the MRO bookkeeping: only safe for unused roots --
    # simpler: reset options
    for k, c in enumerate(cs):
        if c["tr"] != "none":
            yield _with_cls(case, k, dict(c, tr="none"))
        if c["kwOnly"]:
            yield _with_cls(case, k, dict(c, kwOnly=False))
        for j in range(len(c["items"])):
            yield _with_cls(case, k, dict(c, items=c["items"][:j] + c["items"][j + 1:]))
        if c["these"]:
            for j in range(len(c["these"])):
                yield _with_cls(case, k, dict(c, these=c["these"][:j] + c["these"][j + 1:]))
        for j, it in enumerate(c["items"]):
            if isinstance(it["val"], dict) and it["opts"] != dict(DEFAULT_OPTS, tag=it["opts"]["tag"]):
                it2 = dict(it, opts=dict(DEFAULT_OPTS, tag=it["opts"]["tag"]))
                yield _with_cls(case, k, dict(c, items=c["items"][:j] + [it2] + c["items"][j + 1:]))
    defaults = {"md": "dict", "val": "none", "conv": "none", "osa": "none", "these": "dict"}
    for k, pc in enumerate(case["cfg"]["per"]):
        for key, dv in defaults.items():
            if pc.get("ck", {}).get(key, dv) != dv:
                per = list(case["cfg"]["per"])
                per[k] = dict(pc, ck=dict(pc["ck"], **{key: dv}))
                yield dict(case, cfg=dict(case["cfg"], per=per))
    if case["twins"]:
        for j in range(len(case["twins"])):
            yield dict(case, twins=case["twins"][:j] + case["twins"][j + 1:])
    rich = [pc for pc in case["cfg"]["per"] if pc != {"lean": True}]
    if rich:
        keep = lambda pc: {k: pc[k] for k in ("init_mode", "interleave") if pc.get(k)}     # noqa: E731
        yield dict(case, cfg=dict(case["cfg"], per=[dict({"lean": True, "field_fn": pc.get("field_fn", True)} if "via" not in pc
                                                         else {"lean": True, "via": pc["via"]}, **keep(pc))
                                                    for pc in case["cfg"]["per"]]))
    for k, pc in enumerate(case["cfg"]["per"]):
        for key in ("init_mode", "interleave"):
            if pc.get(key):
                per = list(case["cfg"]["per"])
                per[k] = {a: b for a, b in pc.items() if a != key}
                yield dict(case, cfg=dict(case["cfg"], per=per))


def _with_cls(case, k, c):
    if case.get("abs") is not None and k == len(case["classes"]) - 1:
        # keep the abstract form consistent: drop it
        return dict(case, classes=case["classes"][:k] + [c], abs=None, twins=[])
    return dict(case, classes=case["classes"][:k] + [c] + case["classes"][k + 1:])


def neighbours(case, rng):
    yield from shrink(case)
    cs = case["classes"]
    for k, c in enumerate(cs):
        if c["kind"] == "attrS":
            yield _with_cls(case, k, dict(c, collectByMro=not c["collectByMro"]))
        if c["kind"] != "plain":
            for tr in ("ident", "reverse", "kwOnly", {"drop": {"n": "x"}}):
                yield _with_cls(case, k, dict(c, tr=tr))
    for _ in range(20):
        yield random_case(rng)
