"""C12 -- evolve / assoc build an independent, invariant-respecting copy."""
from __future__ import annotations

import copy
import warnings

import attr

import initbuild as ib
from props import c01

ID = "C12"
RULE = ("class chains of C01 (aliases, private names, kw_only, init=False, converters, validators, frozen, slots, "
        "cache_hash, inheritance) x histories {hash taken before, a field reassigned before (mutable classes)} x "
        "operation {evolve, assoc} x change sets (random subsets of init aliases / field names, sometimes an unknown "
        "name; new values are fresh tokens, None, the empty string, or a value EQUAL to the field's current one) x "
        "harness-only variation the model is independent of: the instance's class is the leaf or a plain subclass of it "
        "(with or without __slots__ = ()); every passed value is a new object, either of a str subclass or a plain str "
        "(so an equal value has the same or a different type than the current one). assoc runs on every layout "
        "(dict classes below slotted attrs classes, plain classes in between, plain subclasses) except exception classes. "
        "Non-trivial = at least one change or one converter/init=False field; distinct = distinct (class spec, history, op, changes)")
ASSUMPTIONS = c01.ASSUMPTIONS + [
    "assoc is not exercised on exception classes (copy.copy of a BaseException re-runs the constructor with .args)",
    "identity of stored values is judged for the fields the property speaks about: assoc -- every field; evolve -- init "
    "fields without converter (a converter's result is whatever the converter returns); passed values are new objects, "
    "so 'is the passed object' and 'is the original's object' never coincide except for None / the empty string, where "
    "'passed' is reported first on both sides",
    "invariants are observed against an instance rebuilt from the result's own field values (eq, hash incl. cached hash, frozenness)",
]
EXHAUSTIVE = {"quick": False, "thorough": False}
BUDGET_S = {"quick": 40, "thorough": 420}
LEVEL_TEXT = ("Lean: evolve is defined through the initializer model, so the C01/C02 theorems apply to its result; theorems "
              "C12_evolve_is_init, C12_original_untouched, C12_unknown_typeerror, C12_assoc_spec, C12_assoc_unknown_notfound, "
              "C12_evolve_identity, C12_assoc_identity (named fields hold the very object given -- also when it equals the "
              "old one -- and the others share the original's), C12_model_meets_spec. Tied to /repo by differential "
              "correspondence over class chains (incl. mixed slotted/dict storage and plain subclasses) x histories x change "
              "sets, observing result values read back with getattr, which object each field holds (identity with the "
              "passed / the original's object), the original afterwards, exception kind, and eq/hash/frozenness of the "
              "result against an instance rebuilt from its values (detects stale cached hashes).")


def _history(h, ctor, hist):
    classes = ib.build(h)
    C = classes[-1]
    ps = hist.get("plain_sub")
    if ps:
        # the instance's class is a plain (undecorated) subclass of the leaf: same fields, same initializer, but
        # `type(inst).__dict__` has no __slots__ (or an empty one) whatever the storage of the fields is
        L = C
        C = type("PS", (L,), {"__module__": L.__module__, **({"__slots__": ()} if ps == "slots" else {})})
        inst = C.__new__(C)
        ib.SELF[0] = inst
        del ib.TRACE[:]
        try:
            C.__init__(inst, *[ib.decode(v) for v in ctor["pos"]], **{k: ib.decode(v) for k, v in ctor["kw"]})
        except BaseException:  # noqa: BLE001
            return None, None, C
        finally:
            del ib.TRACE[:]
    else:
        inst, obs = ib.construct(h, ctor, None, True)
        if obs["exc"] is not None:
            return None, None, C
    ib.SELF[0] = inst
    # warm-up: evolve/assoc instances of ancestor classes and of an ad-hoc subclass first (anything cached
    # per class by evolve/assoc must not leak along the inheritance chain)
    for i, wctor in hist.get("warm", []):
        try:
            A = classes[i]
            a = A(*[ib.decode(v) for v in wctor["pos"]], **{k: ib.decode(v) for k, v in wctor["kw"]})
            attr.evolve(a)
            attr.assoc(a)
        except BaseException:  # noqa: BLE001
            pass
    if hist.get("warm_sub"):
        try:
            Sub = attr.s(these={"zz_extra": attr.ib(default="zz")}, slots=False)(type("Sub", (classes[-1],), {}))
            s_ = Sub(*[ib.decode(v) for v in ctor["pos"]], **{k: ib.decode(v) for k, v in ctor["kw"]})
            attr.evolve(s_)
            attr.assoc(s_)
        except BaseException:  # noqa: BLE001
            pass
    del ib.TRACE[:]
    ib.SELF[0] = inst
    if hist.get("hash_before"):
        try:
            hash(inst)
        except Exception:  # noqa: BLE001
            pass
    for name, val in hist.get("reassign", []):
        try:
            setattr(inst, name, ib.decode(val))
        except Exception:  # noqa: BLE001
            pass
    del ib.TRACE[:]
    names = [f["name"] for f in ib.expected_fields(h)]
    return inst, ib.read_values(inst, names), C


def make_case(h, ctor, hist, op, changes, cur, passed_as="sub"):
    run, is_define, cls_on = ib.run_in(h)
    return {"base": {"run": run, "call": {"pos": [], "kw": []}, "isDefine": is_define, "clsOnSet": cls_on},
            "op": op, "cur": cur, "changes": changes, "hspec": h, "ctor": ctor, "hist": hist, "passed_as": passed_as}


def _passed(v, mode):
    """the object passed for protocol value `v`: always a NEW object (so that identity tells it from the object
    the original holds, also when the two are equal); mode "sub": an instance of a str subclass, mode "plain": a
    plain str built at run time (strings shorter than 2 characters are shared by the interpreter: str subclass)"""
    if v == "None":
        return None
    if mode == "plain" and len(v) >= 2:
        out = "".join((v[:1], v[1:]))
        if type(out) is str and out is not v:
            return out
    return ib.Fresh(v)


def gen_cases(tier, rng):
    n_classes = 2500 if tier == "quick" else 50000
    for _ in range(n_classes):
        h = ib.gen_hspec(rng)
        h["classes"][-1].pop("init", None)   # evolve goes through cls(...): a class without generated __init__ is out of scope
        for cs in h["classes"]:
            if cs["kind"] == "attrs" and not cs.get("cache_hash") and rng.random() < 0.4:
                cs["unsafe_hash"] = True
        try:
            ib.build(h)
        except Exception as e:  # noqa: BLE001
            yield {"__gen_error__": f"{type(e).__name__}: {e}", "hspec": h}
            continue
        fields = ib.expected_fields(h)
        frozen = ib.leaf_frozen(h)
        ctor = ib.gen_call(rng, h, malformed=0.0)
        anc_slotted = any(cs["kind"] == "attrs" and ib.leaf_slots(cs) for cs in h["classes"][:-1])
        for _ in range(3):
            hist = {"hash_before": rng.random() < 0.6, "reassign": [], "warm": [], "warm_sub": rng.random() < 0.3,
                    "plain_sub": rng.choice([None, None, None, None, None, "dict", "dict", "slots"])}
            if len(h["classes"]) > 1 and rng.random() < 0.6:
                for i, cs in enumerate(h["classes"][:-1]):
                    if cs["kind"] == "attrs" and cs.get("init") is not False:
                        hist["warm"].append([i, ib.gen_call(rng, {"classes": h["classes"][: i + 1]}, malformed=0.0)])
            if not frozen and fields and rng.random() < 0.4:
                f = rng.choice(fields)
                hist["reassign"] = [[f["name"], "r1"]]
            inst, cur, C = _history(h, ctor, hist)
            if inst is None:
                break
            if any(v is not None and (v == "NOTHING" or v.startswith("exc:")) for _, v in cur):
                continue
            curd = dict(map(tuple, cur))
            init_fields = [f for f in fields if f.get("init", True)]
            if any(curd.get(f["name"]) is None for f in init_fields):
                continue  # an init field is unset on the original (K3 shapes): evolve's precondition fails
            op = rng.choice(["evolve", "evolve", "assoc"])
            if op == "assoc" and any(v is None for _, v in cur):
                op = "evolve"      # copying needs every field set (C10's stated precondition)
            if op == "assoc" and (ib.run_in(h)[0]["cfg"]["isExc"] or h["classes"][0].get("exc_base")):
                op = "evolve"
            if op == "evolve":
                keys = [(f.get("alias") or ib.default_alias(f["name"]), f["name"]) for f in init_fields]
            else:
                keys = [(f["name"], f["name"]) for f in fields]
            k = rng.randint(0, len(keys))
            chosen = rng.sample(keys, k)
            if rng.random() < 0.12:
                chosen.append((rng.choice(["nope", "x_", "_" + (keys[0][0] if keys else "q")]), None))
                chosen = list({c[0]: c for c in chosen}.values())
            changes = []
            for i, (key, fname) in enumerate(chosen):
                r = rng.random()
                if r < 0.2:
                    val = rng.choice(["None", "None", ""])
                elif r < 0.5 and fname is not None and curd.get(fname) is not None:
                    val = curd[fname]      # EQUAL to what the field holds now (but a distinct object, see _passed)
                else:
                    val = f"n{i + 1}"
                changes.append([key, val])
            yield make_case(h, ctor, hist, op, changes, cur, rng.choice(["sub", "plain"]))


def defines(case):
    """re-try the class definitions of a case the generator could not build; error text or None"""
    ib._CACHE.clear()
    try:
        ib.build(case["hspec"])
        return None
    except Exception as e:  # noqa: BLE001
        return f"{type(e).__name__}: {e}"


def observe(case):
    if "__gen_error__" in case:
        raise RuntimeError("class spec did not define: " + case["__gen_error__"])
    h = case["hspec"]
    inst, cur, C = _history(h, case["ctor"], case["hist"])
    names = [f["name"] for f in ib.expected_fields(h)]
    frozen_expected = case["base"]["run"]["cfg"]["frozen"]
    ib.SELF[0] = None
    ib.SELF_CLASS[0] = C
    exc = None
    res = None
    passed = {k: _passed(v, case.get("passed_as", "sub")) for k, v in case["changes"]}
    try:
        with warnings.catch_warnings():
            warnings.simplefilter("ignore")
            if case["op"] == "evolve":
                res = attr.evolve(inst, **passed)
            else:
                res = attr.assoc(inst, **passed)
    except BaseException as e:  # noqa: BLE001
        exc = ib.exc_enum(e)
    finally:
        ib.SELF_CLASS[0] = None
        del ib.TRACE[:]
    ib.SELF[0] = inst
    orig = ib.read_values(inst, names)
    if cur != case["cur"]:
        orig = [["<history not reproducible>", None]]
    if exc is not None:
        return {"exc": exc, "values": [], "orig": orig, "fresh": False, "invariants": False, "ident": []}
    ib.SELF[0] = res
    values = ib.read_values(res, names)
    # which object each judged field of the result holds, read back with getattr: the one passed for it, the
    # original's, another one
    ident = []
    unset = object()
    for f in ib.expected_fields(h):
        if case["op"] == "evolve":
            if not f.get("init", True):
                continue
            key = f.get("alias") or ib.default_alias(f["name"])
        else:
            key = f["name"]
        try:
            rv = getattr(res, f["name"])
        except BaseException:  # noqa: BLE001
            ident.append([f["name"], "unset"])
            continue
        try:
            ov = getattr(inst, f["name"])
        except BaseException:  # noqa: BLE001
            ov = unset
        if key in passed and rv is passed[key]:
            ident.append([f["name"], "passed"])
        elif rv is ov:
            ident.append([f["name"], "orig"])
        else:
            ident.append([f["name"], "other"])
    fresh = res is not inst and type(res) is type(inst)
    # invariants: compare with an instance rebuilt from the result's own values
    inv = True
    try:
        rebuilt = type(inst).__new__(type(inst))
        for n in names:
            try:
                object.__setattr__(rebuilt, n, getattr(res, n))
            except AttributeError:
                pass
        if h["classes"][-1].get("cache_hash"):
            object.__setattr__(rebuilt, "_attrs_cached_hash", None)
        eq_generated = "__eq__" in C.__dict__ or any("__eq__" in k.__dict__ and hasattr(k, "__attrs_attrs__") for k in C.__mro__[1:-1])
        if eq_generated and all(v is not None for _, v in values):
            if not (res == rebuilt):
                inv = False
            if C.__hash__ is not None and C.__hash__ is not object.__hash__ and not case["base"]["run"]["cfg"]["isExc"]:
                if hash(res) != hash(rebuilt):
                    inv = False
        try:
            setattr(res, "zz_probe", 1)
            was_frozen = False
        except attr.exceptions.FrozenInstanceError:
            was_frozen = True
        except AttributeError:
            was_frozen = False
        if was_frozen != frozen_expected:
            inv = False
    except Exception:  # noqa: BLE001
        inv = False
    return {"exc": None, "values": values, "orig": orig, "fresh": bool(fresh), "invariants": inv, "ident": ident}


def nontrivial(case, model):
    return bool(case["changes"]) or any(a["conv"] is not None or not a["init"] for a in case["base"]["run"]["attrs"])


def dist(case, obs):
    d = c01.dist({"hspec": case["hspec"], "run": case["base"]["run"], "call": {"pos": [], "kw": case["changes"]}}, obs)
    d.pop("n_pos", None)
    d["op"] = case["op"]
    d["hash_before"] = case["hist"].get("hash_before")
    d["reassigned"] = bool(case["hist"].get("reassign"))
    d["warm"] = len(case["hist"].get("warm", [])) + (10 if case["hist"].get("warm_sub") else 0)
    d["none_change"] = any(v == "None" for _, v in case["changes"])
    curd = {k: v for k, v in case["cur"]}
    by_key = {}
    for a in case["base"]["run"]["attrs"]:
        by_key[a["alias"] if case["op"] == "evolve" else a["name"]] = a
    d["equal_change"] = sum(1 for k, v in case["changes"] if k in by_key and curd.get(by_key[k]["name"]) == v and v != "None")
    d["passed_as"] = case.get("passed_as", "sub")
    d["plain_sub"] = case["hist"].get("plain_sub") or "no"
    # storage layout: where the instance's class keeps the changed fields
    cls_slots = case["base"]["run"]["cfg"]["slots"] if not case["hist"].get("plain_sub") else case["hist"]["plain_sub"] == "slots"
    slot_changed = any(k in by_key and by_key[k]["isSlot"] for k, _ in case["changes"])
    d["layout"] = ("cls-slots" if cls_slots else "cls-dict") + ("/changes-a-slot-field" if slot_changed else "")
    return d


def shrink(case):
    ch = case["changes"]
    for i in range(len(ch)):
        yield dict(case, changes=ch[:i] + ch[i + 1:])
    if case["hist"].get("hash_before"):
        yield dict(case, hist=dict(case["hist"], hash_before=False))
    if case["hist"].get("warm"):
        yield dict(case, hist=dict(case["hist"], warm=[]))
    if case["hist"].get("warm_sub"):
        yield dict(case, hist=dict(case["hist"], warm_sub=False))
    if case["hist"].get("plain_sub"):
        yield dict(case, hist=dict(case["hist"], plain_sub=None))
    if case.get("passed_as") == "plain":
        yield dict(case, passed_as="sub")
    for i, (k, v) in enumerate(ch):
        if v in ("None", ""):
            yield dict(case, changes=ch[:i] + [[k, "n9"]] + ch[i + 1:])


def neighbours(case, rng):
    yield from shrink(case)
