"""C12 -- evolve / assoc build an independent, invariant-respecting copy."""
from __future__ import annotations

import copy
import warnings

import attr

import common
import initbuild as ib
from props import c01

ID = "C12"
RULE = ("class chains of C01 (aliases, private names, kw_only, init=False, converters, validators, frozen, slots, "
        "cache_hash, inheritance) x validator behaviour (per validated field possibly one validator that REJECTS when the "
        "instance holds a value marked bad in its own or in another field; raising the marker exception alone or combined "
        "with ValueError / TypeError) x histories {hash taken before, a field reassigned before (mutable classes) -- also to "
        "a bad value the class's validators would reject --, an instance attribute that is no field added, validators "
        "switched off process-wide during the operation} x operation {evolve, assoc} x change sets (random subsets of init "
        "aliases / field names in random order; new values are fresh tokens, None, the empty string, a value EQUAL to the "
        "field's current one, the very object the original holds, a bad value, or a non-string SHAPE: field values "
        "(constructor arguments) may be instances of attrs classes -- two other classes, the class under test itself --, a "
        "dict or a list, and new values dicts (empty, keyed by init names / aliases of the nested instance's class or of "
        "another class, by other names), lists or such instances; in ~30% of the classes the fields and explicit aliases "
        "are renamed (injectively, harness-only: the model treats names as opaque strings) onto parameter / local names "
        "used inside attrs's own functions -- inst, cls, changes, source, attrs (also the private _attrs), a, fields, "
        "args, kwargs, k, v, new ... -- and such keys are usually part of the change set; sometimes one name that is no key: unknown, a field's name where the alias "
        "is wanted (or the alias where the name is wanted), an init=False field, a method / property / class constant of "
        "the class, an instance-dict extra, dunder names of attrs classes, names resolving on every tuple) x "
        "harness-only variation the model is independent of: about 15% of the leaves are declared with init=False and get a "
        "hand-written __init__(self, *args, **kw) (on a plain subclass) that logs its call, sets non-field state and "
        "delegates to __attrs_init__ -- evolve must go through it; the instance's class is the leaf or a plain subclass of it "
        "(with or without __slots__ = (); it defines a method, a property and a constant); every passed value is a new "
        "object, either of a str subclass or a plain str. assoc runs on every layout (dict classes below slotted attrs "
        "classes, plain classes in between, plain subclasses; instances with unset init=False fields where copying does "
        "not go through a generated __getstate__) except exception classes. "
        "Non-trivial = at least one change or one converter/init=False field; distinct = distinct (class spec, history, op, changes)")
ASSUMPTIONS = c01.ASSUMPTIONS + [
    "assoc is not exercised on exception classes (copy.copy of a BaseException re-runs the constructor with .args)",
    "identity of stored values is judged for the fields the property speaks about: assoc -- every field; evolve -- init "
    "fields without converter (a converter's result is whatever the converter returns); passed values are new objects, "
    "so 'is the passed object' and 'is the original's object' never coincide except for None / the empty string, where "
    "'passed' is reported first on both sides",
    "invariants are observed against an instance rebuilt from the result's own field values (eq, hash incl. cached hash, frozenness)",
    "likeDirect is a run-time comparison: after evolve the class is called directly with the same argument objects "
    "(current values read with getattr) and exception kind, stored values and callback trace are compared; it also "
    "requires the process-wide validator switch to be what it was before the operation, and -- for classes with a "
    "hand-written __init__ -- the same log of __init__ calls (once, with the changed + carried values) and the same "
    "non-field state on the result; the hand-written __init__ hands its arguments on unchanged and never raises itself "
    "(a normalising or rejecting __init__ would need a model of that code; bypassing it is what is observed)",
    "state-dependent validators are harness callbacks (one rule shape: reject iff a watched field of the instance "
    "handed in holds a value whose text contains 'bad'); the Lean model knows the rules (Case.veto) and the order in "
    "which the generated initializer calls validators",
    "layout fact copyNeedsAll is read from the real class of the instance (like isSlot)",
    "non-string values are protocol tokens (inst:*, dict:*, list:*) the Lean model treats as opaque texts; the harness "
    "maps token <-> object by identity (ib.DECODE_EXTRA / ib.CANON_EXTRA), so an object the code under test makes up in "
    "place of the one handed in canonicalises differently and its identity is not 'passed'",
]
EXHAUSTIVE = {"quick": False, "thorough": False}
BUDGET_S = {"quick": 40, "thorough": 420}
LEVEL_TEXT = ("Lean: evolve is defined through the initializer model, so the C01/C02 theorems apply to its result; theorems "
              "C12_evolve_is_init, C12_original_untouched, C12_evolve_values, C12_evolve_vetoed (what a validator of ANY field "
              "-- changed or carried over, looking at its own or another field -- rejects, evolve refuses with that "
              "validator's exception after the callbacks of a direct call up to it), C12_evolve_trace (a successful evolve "
              "runs exactly the callbacks of a direct call), C12_unknown_typeerror, C12_typeerror_iff, C12_assoc_spec (raw "
              "replacement, no callback runs, unset fields stay unset), C12_assoc_unknown_notfound (every non-field name "
              "-- tuple attributes like count / index / __len__ included), C12_assoc_notfound_iff, C12_tuple_names_rejected (the "
              "repaired K12a), C12_evolve_identity, C12_assoc_identity (named fields hold the very object given -- also when "
              "it equals the old one -- and the others share the original's), C12_result_invariants, C12_model_meets_spec; "
              "witnesses for K2, K3. Tied to /repo by differential correspondence over class chains (incl. mixed "
              "slotted/dict storage and plain subclasses) x validator behaviour x histories x change sets, observing result "
              "values read back with getattr, which object each field holds (identity with the passed / the original's "
              "object), the callback trace of the operation, evolve against a direct call of the class with the same "
              "arguments (exception, values, trace, validator switch restored), the original afterwards, exception kind, "
              "and eq/hash/frozenness of the result against an instance rebuilt from its values (detects stale cached hashes).")


# ------------------------------------------------------------------------------------------ value shapes
@attr.s(frozen=True)
class Point:
    """an attrs class whose instances are field VALUES (init names: x, y -- alias of _y --, tag)"""
    x = attr.ib()
    _y = attr.ib()
    tag = attr.ib(default="p")


@attr.s(slots=True)
class Other:
    x = attr.ib(default=0)
    name = attr.ib(default="q")


# protocol tokens for values that are not strings: instances of attrs classes (Point, Other, the class under test
# itself), dicts (empty, keyed by init names of those classes, by other names), lists.  The Lean model treats values as
# opaque texts; `ib.DECODE_EXTRA` / `ib.CANON_EXTRA` translate (by object identity: an object some code under test
# makes up instead -- e.g. an "evolved" nested instance -- canonicalises as `other:<type>`).
SHAPE_TOKENS = ["inst:P1", "inst:P2", "inst:Q1", "inst:SELF", "dict:{}", "dict:x", "dict:y", "dict:xy", "dict:tag",
                "dict:foo", "dict:_y", "dict:name", "list:0", "list:1"]
DICT_TOKENS = [t for t in SHAPE_TOKENS if t.startswith("dict:")]
_SHAPE_SET = set(SHAPE_TOKENS)
_SHAPES: dict = {}         # id(object) -> (object, token), per observation
_SHAPE_CLS = [None]        # the class under test (for inst:SELF)
_DICTS = {"{}": {}, "x": {"x": 10}, "y": {"y": 7}, "xy": {"x": 10, "y": 7}, "tag": {"tag": "t"}, "foo": {"foo": 1},
          "_y": {"_y": 2}, "name": {"name": "z"}}


def _mk_shape(tok):
    kind, _, arg = tok.partition(":")
    if kind == "dict":
        o = dict(_DICTS[arg])
    elif kind == "list":
        o = [] if arg == "0" else [1, 2]
    elif arg == "P1":
        o = Point(1, 2)
    elif arg == "P2":
        o = Point(3, 4, "r")
    elif arg == "Q1":
        o = Other(5)
    else:
        # an instance of the very class under test, every field holding a marker
        C = _SHAPE_CLS[0]
        o = C.__new__(C)
        for a in getattr(C, "__attrs_attrs__", ()):
            try:
                object.__setattr__(o, a.name, "nested." + a.name)
            except Exception:  # noqa: BLE001
                pass
        try:
            object.__setattr__(o, "_attrs_cached_hash", None)
        except Exception:  # noqa: BLE001
            pass
    _SHAPES[id(o)] = (o, tok)
    return o


def _decode_extra(v):
    return _mk_shape(v) if v in _SHAPE_SET else v


def _canon_extra(o):
    e = _SHAPES.get(id(o))
    return e[1] if e is not None and e[0] is o else None


def _reset_hooks():
    ib.VETO[0] = None
    ib.DECODE_EXTRA[0] = None
    ib.CANON_EXTRA[0] = None
    _SHAPE_CLS[0] = None
    _SHAPES.clear()


class VetoValueError(common.UserError, ValueError):
    """what a rejecting validator conventionally raises"""


class VetoTypeError(common.UserError, TypeError):
    pass


VETO_EXC = {"plain": common.UserError, "value": VetoValueError, "type": VetoTypeError}


def _veto_rule(veto, exc_kind="plain"):
    """the state-dependent validators of a case: validator `idx` of `field` raises iff the instance it is handed
    currently holds a value whose text contains "bad" in field `watch` (its own or another field); what it raises
    is the harness's marker exception, alone or combined with ValueError / TypeError"""
    if not veto:
        return None
    exc_cls = VETO_EXC[exc_kind]
    table = {}
    for r in veto:
        table.setdefault((r["field"], r["idx"]), []).append(r["watch"])

    def rule(kind, field, idx, args, tag):
        if kind != "validator" or tag:
            return False
        for w in table.get((field, idx), ()):
            try:
                v = getattr(args[0], w)
            except BaseException:  # noqa: BLE001
                continue
            if "bad" in ib._canon(v):
                raise exc_cls(f"veto:{field}.{idx}")
        return False
    return rule


# names that are no fields of any generated class
CLEAN_NAMES = ["nope", "x_", "__attrs_attrs__", "__match_args__", "__setstate__", "__slots__", "__weakref__",
               "_attrs_cached_hash", "__attrs_post_init__", "__attrs_pre_init__", "__attrs_init__",
               "describe", "LIMIT", "area", "zz_note"]
# ... and those that resolve on every fields tuple (attributes of tuple / object): no fields either (K12a, repaired
# in /repo: assoc used to take them for fields) -- unless a class really has a field of that name (see _rename_fields)
TUPLE_NAMES = ["count", "index", "__len__", "__doc__", "__module__", "__getstate__", "__init__"]


CUSTOM_CALLS: list = []    # calls of the hand-written __init__ (positional args, sorted keyword args), canonicalised


def _custom_init(self, *args, **kw):
    """a hand-written initializer of a class declared with init=False: logs its call, sets state that is no field, then
    delegates to the generated __attrs_init__ with the very objects it was given"""
    CUSTOM_CALLS.append([[ib._canon(a) for a in args], sorted([k, ib._canon(v)] for k, v in kw.items())])
    try:
        object.__setattr__(self, "zz_audit", "set-by-__init__")
    except Exception:  # noqa: BLE001  -- no __dict__
        pass
    self.__attrs_init__(*args, **kw)


def _ps_body(L, ps, custom_init=False):
    """a plain subclass with the usual non-field members: a method, a class constant, a read-only property; and, below
    a leaf declared with init=False, the hand-written __init__"""
    ns = {"__module__": L.__module__, "describe": lambda self: "described", "LIMIT": 5,
          "area": property(lambda self: "area")}
    if custom_init:
        ns["__init__"] = _custom_init
    if ps == "slots":
        ns["__slots__"] = ()
    return ns


def _history(h, ctor, hist, veto=None, veto_exc="plain"):
    """builds the original and replays its history; leaves the case's validator rule installed in ib.VETO (the
    caller resets it)"""
    classes = ib.build(h)
    C = classes[-1]
    ib.VETO[0] = _veto_rule(veto, veto_exc)
    _SHAPES.clear()
    ib.DECODE_EXTRA[0] = _decode_extra
    ib.CANON_EXTRA[0] = _canon_extra
    _SHAPE_CLS[0] = C
    ps = hist.get("plain_sub")
    if ps:
        # the instance's class is a plain (undecorated) subclass of the leaf: same fields, same initializer, but
        # `type(inst).__dict__` has no __slots__ (or an empty one) whatever the storage of the fields is
        L = C
        C = type("PS", (L,), _ps_body(L, ps, bool(hist.get("custom_init"))))
        _SHAPE_CLS[0] = C
        inst = C.__new__(C)
        ib.SELF[0] = inst
        del ib.TRACE[:]
        try:
            C.__init__(inst, *[ib.decode(v) for v in ctor["pos"]], **{k: ib.decode(v) for k, v in ctor["kw"]})
        except BaseException:  # noqa: BLE001
            return None, None, C
        finally:
            del ib.TRACE[:]
    else:
        inst, obs = ib.construct(h, ctor, None, True)
        if obs["exc"] is not None:
            return None, None, C
    ib.SELF[0] = inst
    # warm-up: evolve/assoc instances of ancestor classes and of an ad-hoc subclass first (anything cached
    # per class by evolve/assoc must not leak along the inheritance chain)
    for i, wctor in hist.get("warm", []):
        try:
            A = classes[i]
            a = A(*[ib.decode(v) for v in wctor["pos"]], **{k: ib.decode(v) for k, v in wctor["kw"]})
            attr.evolve(a)
            attr.assoc(a)
        except BaseException:  # noqa: BLE001
            pass
    if hist.get("warm_sub"):
        try:
            Sub = attr.s(these={"zz_extra": attr.ib(default="zz")}, slots=False)(type("Sub", (classes[-1],), {}))
            s_ = Sub(*[ib.decode(v) for v in ctor["pos"]], **{k: ib.decode(v) for k, v in ctor["kw"]})
            attr.evolve(s_)
            attr.assoc(s_)
        except BaseException:  # noqa: BLE001
            pass
    del ib.TRACE[:]
    ib.SELF[0] = inst
    if hist.get("hash_before"):
        try:
            hash(inst)
        except Exception:  # noqa: BLE001
            pass
    for name, val in hist.get("reassign", []):
        try:
            setattr(inst, name, ib.decode(val))
        except Exception:  # noqa: BLE001
            pass
    if hist.get("extra_attr") and hasattr(inst, "__dict__"):
        # an instance attribute that is no field (as an __attrs_post_init__ or later code would leave it)
        try:
            object.__setattr__(inst, "zz_note", "post")
        except Exception:  # noqa: BLE001
            pass
    del ib.TRACE[:]
    names = [f["name"] for f in ib.expected_fields(h)]
    return inst, ib.read_values(inst, names), C


def _rename_fields(node, mapping):
    """rename fields throughout a hierarchy spec (real chain and siblings alike): a pure renaming, so every repair
    gen_hspec made stays valid"""
    if isinstance(node, dict):
        if "default" in node and node.get("name") in mapping:
            node["name"] = mapping[node["name"]]
        for v in node.values():
            _rename_fields(v, mapping)
    elif isinstance(node, list):
        for v in node:
            _rename_fields(v, mapping)


# names attrs's own functions use for parameters and locals (evolve / assoc / fields / the carry-over loop): a field, or
# the init alias of a field, may be called any of them -- evolve(*args, **changes) exists for exactly that reason
INTERNAL_FIELD_NAMES = ["inst", "cls", "changes", "source", "attrs", "a", "fields", "attr_name", "init_name", "new", "k", "v",
                        "value", "other", "obj", "instance", "target", "mapping", "result", "orig", "original", "kw"]
INTERNAL_ALIAS_ONLY = ["args", "kwargs"]     # `args` is taken on exception classes as an attribute; as an alias it is free


_INTERNAL_SET = set(INTERNAL_FIELD_NAMES + INTERNAL_ALIAS_ONLY)


def internal_renaming(rng, p_each=0.6):
    """an injective renaming of initbuild's field names AND explicit aliases onto names used inside attrs's own functions;
    `_p` / `p` keep sharing their base (so the derived-alias clash gen_hspec repaired stays the same clash)"""
    bases = ["x", "y", "z", "p", "a_b", "w"]
    pool = rng.sample(INTERNAL_FIELD_NAMES, len(bases)) + \
        rng.sample([n for n in INTERNAL_FIELD_NAMES + INTERNAL_ALIAS_ONLY], len(INTERNAL_FIELD_NAMES + INTERNAL_ALIAS_ONLY))
    names, aliases, used = {}, {}, set()
    for b in bases:
        if rng.random() < p_each:
            n = pool.pop(0)
            used.add(n)
            names[b] = n
            if b == "p":
                names["_p"] = "_" + n
    for b in bases:
        if rng.random() < p_each:
            n = next(q for q in reversed(pool) if q not in used)
            used.add(n)
            aliases["al_" + b] = n
    return names, aliases


def _rename_aliases(node, mapping):
    if isinstance(node, dict):
        if "default" in node and node.get("alias") in mapping:
            node["alias"] = mapping[node["alias"]]
        for v in node.values():
            _rename_aliases(v, mapping)
    elif isinstance(node, list):
        for v in node:
            _rename_aliases(v, mapping)


def layout_facts(inst):
    gs = getattr(type(inst), "__getstate__", None)
    return {"copyNeedsAll": getattr(gs, "__name__", None) == "slots_getstate"}


def make_case(h, ctor, hist, op, changes, cur, passed_as="sub", veto=(), facts=None, veto_exc="plain"):
    run, is_define, cls_on = ib.run_in(h)
    facts = facts or {"copyNeedsAll": True}
    return {"base": {"run": run, "call": {"pos": [], "kw": []}, "isDefine": is_define, "clsOnSet": cls_on},
            "op": op, "cur": cur, "changes": changes, "veto": list(veto),
            "copyNeedsAll": facts["copyNeedsAll"],
            "hspec": h, "ctor": ctor, "hist": hist, "passed_as": passed_as, "veto_exc": veto_exc}


def _passed(v, mode):
    """the object passed for protocol value `v`: always a NEW object (so that identity tells it from the object
    the original holds, also when the two are equal); mode "sub": an instance of a str subclass, mode "plain": a
    plain str built at run time (strings shorter than 2 characters are shared by the interpreter: str subclass)"""
    if v == "None":
        return None
    if v in _SHAPE_SET:
        return _mk_shape(v)
    if mode == "plain" and len(v) >= 2:
        out = "".join((v[:1], v[1:]))
        if type(out) is str and out is not v:
            return out
    return ib.Fresh(v)


def gen_cases(tier, rng):
    n_classes = 2500 if tier == "quick" else 50000
    for _ in range(n_classes):
        h = ib.gen_hspec(rng)
        # a leaf declared with init=False keeps the generated initializer as __attrs_init__; evolve goes through
        # cls(...), i.e. through the hand-written __init__ the (plain sub)class provides (hist["custom_init"])
        leaf_ = h["classes"][-1]
        custom = leaf_.get("init") is False or (not leaf_.get("cache_hash") and rng.random() < 0.08)
        if custom:
            leaf_["init"] = False
        else:
            leaf_.pop("init", None)
        if rng.random() < 0.12:
            # fields that are themselves named like attributes of every tuple: genuine fields all the same
            _rename_fields(h, {"w": "count", "z": "index"})
        internal = False
        if rng.random() < 0.3:
            # fields / init aliases named like the parameters and locals of attrs's own functions (inst, cls, changes,
            # source, attrs, a, fields, kwargs, args ...; a private `_attrs` has the alias `attrs`)
            nm_, al_ = internal_renaming(rng)
            _rename_fields(h, nm_)
            _rename_aliases(h, al_)
            internal = True
        for cs in h["classes"]:
            if cs["kind"] == "attrs" and not cs.get("cache_hash") and rng.random() < 0.4:
                cs["unsafe_hash"] = True
        try:
            ib.build(h)
        except Exception as e:  # noqa: BLE001
            yield {"__gen_error__": f"{type(e).__name__}: {e}", "hspec": h}
            continue
        fields = ib.expected_fields(h)
        frozen = ib.leaf_frozen(h)
        ctor = ib.gen_call(rng, h, malformed=0.0)
        if rng.random() < 0.4:
            # field values that are no strings: instances of attrs classes (another class, the class under test), a dict, a list
            slots_ = [("pos", i) for i in range(len(ctor["pos"]))] + [("kw", i) for i in range(len(ctor["kw"]))]
            for where, i in rng.sample(slots_, min(len(slots_), rng.choice([1, 1, 2]))):
                tok = rng.choice(["inst:P1", "inst:P1", "inst:P2", "inst:Q1", "inst:Q1", "inst:SELF", "dict:foo", "list:1"])
                if where == "pos":
                    ctor["pos"][i] = tok
                else:
                    ctor["kw"][i][1] = tok
        mutable_validate_free = not frozen
        # validators whose verdict depends on the instance: own value or another field's
        veto = []
        names_all = [f["name"] for f in fields]
        for f in fields:
            nv = f.get("validators", 0)
            if nv and (f.get("init", True) or f["default"] != "none") and rng.random() < 0.7:
                veto.append({"field": f["name"], "idx": rng.randrange(nv),
                             "watch": f["name"] if rng.random() < 0.5 else rng.choice(names_all)})
        watched = sorted({r["watch"] for r in veto})
        veto_exc = rng.choice(["plain", "value", "value", "type"])
        if rng.random() < 0.1:
            h = dict(h, validators_enabled=False)     # evolve while validators are switched off process-wide
        try:
            for _ in range(3):
                hist = {"hash_before": rng.random() < 0.6, "reassign": [], "warm": [], "warm_sub": rng.random() < 0.3,
                        "plain_sub": rng.choice([None, None, None, None, None, "dict", "dict", "slots"]),
                        "extra_attr": rng.random() < 0.3}
                if custom:
                    hist["custom_init"] = True
                    hist["plain_sub"] = rng.choice(["dict", "dict", "slots"])
                if len(h["classes"]) > 1 and rng.random() < 0.6:
                    for i, cs in enumerate(h["classes"][:-1]):
                        if cs["kind"] == "attrs" and cs.get("init") is not False:
                            hist["warm"].append([i, ib.gen_call(rng, {"classes": h["classes"][: i + 1]}, malformed=0.0)])
                if mutable_validate_free and fields and rng.random() < 0.4:
                    if watched and rng.random() < 0.5:
                        # the original is mutated into a state its validators would reject
                        hist["reassign"] = [[rng.choice(watched), "bad0"]]
                    else:
                        hist["reassign"] = [[rng.choice(fields)["name"], "r1"]]
                inst, cur, C = _history(h, ctor, hist, veto, veto_exc)
                if inst is None:
                    break
                if any(v is not None and (v == "NOTHING" or v.startswith("exc:")) for _, v in cur):
                    continue
                curd = dict(map(tuple, cur))
                init_fields = [f for f in fields if f.get("init", True)]
                if any(curd.get(f["name"]) is None for f in init_fields):
                    continue  # an init field is unset on the original (K3 shapes): evolve's precondition fails
                facts = layout_facts(inst)
                op = rng.choice(["evolve", "evolve", "assoc"])
                if op == "assoc" and any(v is None for _, v in cur) and facts["copyNeedsAll"]:
                    op = "evolve"      # copying through a generated __getstate__ needs every field set (C10's precondition)
                if op == "assoc" and (ib.run_in(h)[0]["cfg"]["isExc"] or h["classes"][0].get("exc_base")):
                    op = "evolve"
                if op == "assoc" and internal and any("inst" in (f["name"], f.get("alias")) for f in fields):
                    op = "evolve"      # assoc(inst, **changes) (deprecated) cannot take the name `inst`; evolve(*args, **changes) can
                if op == "evolve":
                    keys = [(f.get("alias") or ib.default_alias(f["name"]), f["name"]) for f in init_fields]
                    # names evolve must refuse: a field's name where the alias differs, an init=False field
                    near = [f["name"] for f in fields if not f.get("init", True)
                            or (f.get("alias") or ib.default_alias(f["name"])) != f["name"]]
                else:
                    keys = [(f["name"], f["name"]) for f in fields]
                    near = [f.get("alias") or ib.default_alias(f["name"]) for f in fields]
                taken = {k_ for k_, _ in keys}
                k = rng.randint(0, len(keys))
                chosen = rng.sample(keys, k)
                for kf in keys:
                    # a field that holds an attrs instance is usually part of the change set
                    if kf not in chosen and (curd.get(kf[1]) or "").startswith("inst:") and rng.random() < 0.6:
                        chosen.insert(rng.randint(0, len(chosen)), kf)
                if internal:
                    # a key that is a parameter / local name inside attrs is usually part of the change set
                    for kf in keys:
                        if kf not in chosen and kf[0] in _INTERNAL_SET and rng.random() < 0.5:
                            chosen.insert(rng.randint(0, len(chosen)), kf)
                if rng.random() < 0.2:
                    r = rng.random()
                    pool = TUPLE_NAMES if r < 0.25 else near if (r < 0.45 and near) else CLEAN_NAMES
                    bad_name = rng.choice(pool)
                    if bad_name not in taken:
                        chosen.insert(rng.randint(0, len(chosen)), (bad_name, None))
                changes = []
                same_obj = []
                for i, (key, fname) in enumerate(chosen):
                    r = rng.random()
                    cv = curd.get(fname) if fname is not None else None
                    if cv is not None and cv.startswith("inst:") and r < 0.7:
                        # the field holds an attrs instance and is given a dict (empty, keyed by init names of that class
                        # or of another, by other names): a plain new value
                        val = rng.choice(DICT_TOKENS)
                    elif cv is not None and cv.startswith(("dict:", "list:")) and r < 0.5:
                        val = rng.choice(DICT_TOKENS + ["list:0", "list:1"])     # a container replaced by a container
                    elif r < 0.08:
                        val = rng.choice(SHAPE_TOKENS)
                    elif cv is not None and r < 0.14:
                        val = cv                # the very object the original holds is handed back
                        same_obj.append(key)
                    elif fname in watched and r < 0.3:
                        val = f"bad{i + 1}"     # a value some validator rejects (its own field's or another's)
                    elif r < 0.2:
                        val = rng.choice(["None", "None", ""])
                    elif r < 0.5 and fname is not None and curd.get(fname) is not None:
                        val = curd[fname]      # EQUAL to what the field holds now (but a distinct object, see _passed)
                    else:
                        val = f"n{i + 1}"
                    changes.append([key, val])
                case = make_case(h, ctor, hist, op, changes, cur, rng.choice(["sub", "plain"]), veto, facts, veto_exc)
                case["same_obj"] = same_obj
                yield case
        finally:
            _reset_hooks()


def defines(case):
    """re-try the class definitions of a case the generator could not build; error text or None"""
    ib._CACHE.clear()
    try:
        ib.build(case["hspec"])
        return None
    except Exception as e:  # noqa: BLE001
        return f"{type(e).__name__}: {e}"


def _direct(inst, C, h, passed):
    """what calling the class directly with evolve's arguments does: (exception kind, values, callback trace, calls of
    a hand-written __init__, the non-field state it leaves)"""
    names = [f["name"] for f in ib.expected_fields(h)]
    kwargs = dict(passed)
    for f in ib.expected_fields(h):
        if not f.get("init", True):
            continue
        al = f.get("alias") or ib.default_alias(f["name"])
        if al not in kwargs:
            try:
                kwargs[al] = getattr(inst, f["name"])
            except AttributeError:
                return "attributeError", [], [], [], None
    ib.SELF[0] = None
    ib.SELF_CLASS[0] = C
    del ib.TRACE[:]
    del CUSTOM_CALLS[:]
    exc, res = None, None
    try:
        res = C(**kwargs)
    except BaseException as e:  # noqa: BLE001
        exc = ib.exc_enum(e)
    finally:
        ib.SELF_CLASS[0] = None
    trace = list(ib.TRACE)
    del ib.TRACE[:]
    calls = list(CUSTOM_CALLS)
    del CUSTOM_CALLS[:]
    if exc is not None:
        return exc, [], trace, calls, None
    ib.SELF[0] = res
    return None, ib.read_values(res, names), trace, calls, getattr(res, "zz_audit", None)


def observe(case):
    if "__gen_error__" in case:
        raise RuntimeError("class spec did not define: " + case["__gen_error__"])
    prev_disabled = attr.validators.get_disabled()
    try:
        return _observe(case)
    finally:
        _reset_hooks()
        ib.SELF_CLASS[0] = None
        attr.validators.set_disabled(prev_disabled)
        del ib.TRACE[:]


def _observe(case):
    h = case["hspec"]
    inst, cur, C = _history(h, case["ctor"], case["hist"], case.get("veto"), case.get("veto_exc", "plain"))
    names = [f["name"] for f in ib.expected_fields(h)]
    frozen_expected = case["base"]["run"]["cfg"]["frozen"]
    # the operation may run while validators are switched off process-wide (the original was built with them on)
    switch = not case["base"]["run"]["cfg"]["runValidators"]
    attr.validators.set_disabled(switch)
    ib.SELF[0] = None
    ib.SELF_CLASS[0] = C
    exc = None
    res = None
    passed = {k: _passed(v, case.get("passed_as", "sub")) for k, v in case["changes"]}
    del CUSTOM_CALLS[:]
    if case.get("same_obj"):
        # the object the original holds itself is the new value
        by_key = {(f.get("alias") or ib.default_alias(f["name"])) if case["op"] == "evolve" else f["name"]: f["name"]
                  for f in ib.expected_fields(h) if case["op"] == "assoc" or f.get("init", True)}
        for k in case["same_obj"]:
            if k in passed and k in by_key:
                try:
                    passed[k] = getattr(inst, by_key[k])
                except AttributeError:
                    pass
    del ib.TRACE[:]
    try:
        with warnings.catch_warnings():
            warnings.simplefilter("ignore")
            if case["op"] == "evolve":
                res = attr.evolve(inst, **passed)
            else:
                res = attr.assoc(inst, **passed)
    except BaseException as e:  # noqa: BLE001
        exc = ib.exc_enum(e)
    finally:
        ib.SELF_CLASS[0] = None
    trace = list(ib.TRACE)
    del ib.TRACE[:]
    calls = list(CUSTOM_CALLS)
    del CUSTOM_CALLS[:]
    switch_kept = attr.validators.get_disabled() == switch
    ib.SELF[0] = inst
    orig = ib.read_values(inst, names)
    if cur != case["cur"]:
        orig = [["<history not reproducible>", None]]
    like = True
    if case["op"] == "evolve":
        # evolve against a direct call of the class with the same argument objects
        if res is not None:
            ib.SELF[0] = res
        ev_values = ib.read_values(res, names) if exc is None else []
        ev_audit = getattr(res, "zz_audit", None) if exc is None else None
        d_exc, d_values, d_trace, d_calls, d_audit = _direct(inst, C, h, passed)
        like = bool(switch_kept and d_exc == exc and d_values == ev_values and d_trace == trace
                    # a hand-written __init__ is gone through exactly as a direct call goes through it: called once
                    # with the changed + carried values, leaving the same non-field state
                    and d_calls == calls and d_audit == ev_audit)
        ib.SELF[0] = inst
    elif not switch_kept:
        like = False
    if exc is not None:
        return {"exc": exc, "values": [], "orig": orig, "fresh": False, "invariants": False, "ident": [],
                "trace": trace, "likeDirect": like}
    ib.SELF[0] = res
    values = ib.read_values(res, names)
    # which object each judged field of the result holds, read back with getattr: the one passed for it, the
    # original's, another one
    ident = []
    unset = object()
    for f in ib.expected_fields(h):
        if case["op"] == "evolve":
            if not f.get("init", True):
                continue
            key = f.get("alias") or ib.default_alias(f["name"])
        else:
            key = f["name"]
        try:
            rv = getattr(res, f["name"])
        except BaseException:  # noqa: BLE001
            ident.append([f["name"], "unset"])
            continue
        try:
            ov = getattr(inst, f["name"])
        except BaseException:  # noqa: BLE001
            ov = unset
        if key in passed and rv is passed[key]:
            ident.append([f["name"], "passed"])
        elif rv is ov:
            ident.append([f["name"], "orig"])
        else:
            ident.append([f["name"], "other"])
    fresh = res is not inst and type(res) is type(inst)
    # invariants: compare with an instance rebuilt from the result's own values
    inv = True
    try:
        rebuilt = type(inst).__new__(type(inst))
        for n in names:
            try:
                object.__setattr__(rebuilt, n, getattr(res, n))
            except AttributeError:
                pass
        if h["classes"][-1].get("cache_hash"):
            object.__setattr__(rebuilt, "_attrs_cached_hash", None)
        eq_generated = "__eq__" in C.__dict__ or any("__eq__" in k.__dict__ and hasattr(k, "__attrs_attrs__") for k in C.__mro__[1:-1])
        if eq_generated and all(v is not None for _, v in values):
            if not (res == rebuilt):
                inv = False
            if C.__hash__ is not None and C.__hash__ is not object.__hash__ and not case["base"]["run"]["cfg"]["isExc"]:
                def _hash_outcome(o):
                    try:
                        return ("ok", hash(o))
                    except TypeError:          # a field value that cannot be hashed (dict, list, unhashable instance)
                        return ("unhashable-value", None)
                if _hash_outcome(res) != _hash_outcome(rebuilt):
                    inv = False
        try:
            setattr(res, "zz_probe", 1)
            was_frozen = False
        except attr.exceptions.FrozenInstanceError:
            was_frozen = True
        except AttributeError:
            was_frozen = False
        if was_frozen != frozen_expected:
            inv = False
    except Exception:  # noqa: BLE001
        inv = False
    return {"exc": None, "values": values, "orig": orig, "fresh": bool(fresh), "invariants": inv, "ident": ident,
            "trace": trace, "likeDirect": like}


def nontrivial(case, model):
    return bool(case["changes"]) or any(a["conv"] is not None or not a["init"] for a in case["base"]["run"]["attrs"])


def dist(case, obs):
    d = c01.dist({"hspec": case["hspec"], "run": case["base"]["run"], "call": {"pos": [], "kw": case["changes"]}}, obs)
    d.pop("n_pos", None)
    d["op"] = case["op"]
    d["hash_before"] = case["hist"].get("hash_before")
    d["reassigned"] = bool(case["hist"].get("reassign"))
    d["warm"] = len(case["hist"].get("warm", [])) + (10 if case["hist"].get("warm_sub") else 0)
    d["none_change"] = any(v == "None" for _, v in case["changes"])
    curd = {k: v for k, v in case["cur"]}
    by_key = {}
    for a in case["base"]["run"]["attrs"]:
        by_key[a["alias"] if case["op"] == "evolve" else a["name"]] = a
    d["equal_change"] = sum(1 for k, v in case["changes"] if k in by_key and curd.get(by_key[k]["name"]) == v and v != "None")
    d["passed_as"] = case.get("passed_as", "sub")
    d["hand_written_init"] = bool(case["hist"].get("custom_init"))
    # value shapes: what the changed field holds now / what it is given
    def _shape(v):
        return "unset" if v is None else v.split(":")[0] if v in _SHAPE_SET else "text"
    pairs = sorted({_shape(curd.get(by_key[k]["name"])) + "<-" + _shape(v) for k, v in case["changes"] if k in by_key})
    shaped = [p_ for p_ in pairs if p_ != "text<-text"]
    d["value_shapes"] = shaped[0] if shaped else "text only"
    d["old_object_handed_back"] = bool(case.get("same_obj"))
    # validators depending on state: is a bad value around, where does it come from, what happened
    bad_change = [k for k, v in case["changes"] if "bad" in v]
    bad_cur = [k for k, v in case["cur"] if v is not None and "bad" in v]
    d["veto_rules"] = min(len(case.get("veto", [])), 3)
    d["bad_value"] = ("change" if bad_change else "") + ("+carried" if bad_cur else "") or "none"
    d["validators_switch"] = "on" if case["base"]["run"]["cfg"]["runValidators"] else "off"
    # the name space of the change set
    fld = {a["name"] for a in case["base"]["run"]["attrs"]}
    other = [k for k, _ in case["changes"] if k not in by_key]
    d["non_key_name"] = ("none" if not other else "tuple-name" if other[0] in TUPLE_NAMES else
                         "near(field/alias)" if other[0] in fld or other[0] in {a["alias"] for a in case["base"]["run"]["attrs"]}
                         else "dunder" if other[0].startswith("__") else "member/extra/unknown")
    d["unset_field"] = ("named" if any(curd.get(k, "") is None and k in fld for k, _ in case["changes"]) else
                        "present" if any(v is None for v in curd.values()) else "no")
    # keys that are parameter / local names of attrs's own functions (inst, cls, changes, source, attrs, a, fields ...)
    keyset = set(by_key)
    d["attrs_internal_name"] = ("changed" if any(k in _INTERNAL_SET and k in by_key for k, _ in case["changes"]) else
                                "carried" if keyset & _INTERNAL_SET else "no")
    d["plain_sub"] = case["hist"].get("plain_sub") or "no"
    # storage layout: where the instance's class keeps the changed fields
    cls_slots = case["base"]["run"]["cfg"]["slots"] if not case["hist"].get("plain_sub") else case["hist"]["plain_sub"] == "slots"
    slot_changed = any(k in by_key and by_key[k]["isSlot"] for k, _ in case["changes"])
    d["layout"] = ("cls-slots" if cls_slots else "cls-dict") + ("/changes-a-slot-field" if slot_changed else "")
    return d


def shrink(case):
    ch = case["changes"]
    for i in range(len(ch)):
        yield dict(case, changes=ch[:i] + ch[i + 1:])
    if case["hist"].get("hash_before"):
        yield dict(case, hist=dict(case["hist"], hash_before=False))
    if case["hist"].get("warm"):
        yield dict(case, hist=dict(case["hist"], warm=[]))
    if case["hist"].get("warm_sub"):
        yield dict(case, hist=dict(case["hist"], warm_sub=False))
    if case["hist"].get("plain_sub") and not case["hist"].get("custom_init"):
        # the layout facts of the instance's class go with the class
        cand = dict(case, hist=dict(case["hist"], plain_sub=None))
        try:
            inst, _, _ = _history(cand["hspec"], cand["ctor"], cand["hist"], cand.get("veto"), cand.get("veto_exc", "plain"))
            if inst is not None:
                yield dict(cand, **layout_facts(inst))
        except Exception:  # noqa: BLE001
            pass
        finally:
            _reset_hooks()
    if case["hist"].get("extra_attr"):
        yield dict(case, hist=dict(case["hist"], extra_attr=False))
    if case.get("same_obj"):
        yield dict(case, same_obj=[])
    vt = case.get("veto", [])
    for i in range(len(vt)):
        yield dict(case, veto=vt[:i] + vt[i + 1:])
    if case.get("passed_as") == "plain":
        yield dict(case, passed_as="sub")
    for i, (k, v) in enumerate(ch):
        if v in ("None", ""):
            yield dict(case, changes=ch[:i] + [[k, "n9"]] + ch[i + 1:])


def neighbours(case, rng):
    yield from shrink(case)
