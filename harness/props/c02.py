"""C02 -- init protocol: step order, exactly-once, hook arguments, failure propagation."""
from __future__ import annotations

import copy

import initbuild as ib
from props import c01

ID = "C02"
RULE = ("class chains and well-formed call shapes of C01; for each, the complete callback trace is compared, then for "
        "EVERY position k of that trace a run is made in which the k-th callback raises (single-fault enumeration), plus "
        "a run with validators globally disabled. The chains carry C01's harness-only variation: exception roots outside the "
        "Exception branch (args of auto_exc classes), definition histories (decoy, sibling and warm-up classes; decorator "
        "objects, and_() validator composites and attr.ib() objects shared between fields and classes and decorated further "
        "with `@x.validator` by one of them), `@x.validator` / `@x.default` spellings, argument objects with unusual special "
        "methods, per-field on_setattr hooks that are falsy / empty-container callable objects (hook_odd; a hook is a hook whatever its "
        "truth value), converters bound through keyword defaults sharing one code object (conv_bind), hostile-but-valid callable objects as factory / converter / validator (falsy callables also as THE validator of a field: "
        "attrs judged a validator by truthiness and never ran such an object -- K02a, repaired; corpus/C02/falsy-validator-*), post-init hooks that re-store init fields as new equal objects or "
        "call BaseException.__init__ themselves, with `args` compared AFTER construction element by element against the objects "
        "the fields hold (`not-stored:` marks a stale element), multiple inheritance with a plain mixin, equal-comparing twin chains; converter CHAINS (list / pipe of 2-3 "
        "plain and Converter members) are modelled member by member, so the single-fault enumeration also fails every member "
        "of every chain in turn. Non-trivial = expected trace has >= 3 events or a fault is injected; "
        "distinct = distinct (class spec, call, fault, switch)")
ASSUMPTIONS = c01.ASSUMPTIONS + [
    "callbacks are instrumented closures recording (kind, field, index, canonical arguments); a fault is ONE exception object raised "
    "by exactly one of them, of a class drawn per case from: an Exception subclass, StopIteration, a StopIteration subclass, "
    "StopAsyncIteration, GeneratorExit, a BaseException subclass, subclasses of AttributeError / TypeError / KeyError; `exc = user` "
    "means that very object came out of the call; during construction every Attribute handed to a callback must be the one "
    "`fields(type(inst))` lists (else it prints as `foreign-attr.<name>`)",
    "the 'slotted confused' hierarchy shape (plain class between a hooked attrs base and a slotted subclass) is generated only by C06, where it is known finding K6",
]
EXHAUSTIVE = {"quick": False, "thorough": False}
BUDGET_S = {"quick": 45, "thorough": 480}
LEVEL_TEXT = ("Lean theorems about the trace semantics of the modelled initializer (order, exactly-once, arguments, fault "
              "prefix, no hooks during construction, exception args, converter chains run member by member left to right "
              "with each member's own arguments; see Properties/C02.lean); tied to /repo by differential "
              "correspondence with single-fault enumeration at every trace position and runs with validators disabled.")


FAULT_KINDS = sorted(ib.FAULT_EXCS)


def make_case(hspec, call, fault, enabled, exc=None):
    h = dict(hspec, validators_enabled=enabled)
    if fault and (exc or hspec.get("fault_exc")):
        h["fault_exc"] = exc or hspec.get("fault_exc")      # which exception class the faulty callback raises
    else:
        h.pop("fault_exc", None)
    run, is_define, cls_on = ib.run_in(h, fault)
    return {"run": run, "call": call, "isDefine": is_define, "clsOnSet": cls_on, "hspec": h, "fault": fault}


def gen_cases(tier, rng):
    n_classes = 1500 if tier == "quick" else 40000
    for _ in range(n_classes):
        h = ib.gen_hspec(rng, pipes=c01.PIPES, post_modes=c01.POST_MODES, dflt_objs=True)
        try:
            ib.build(h)
        except Exception as e:  # noqa: BLE001
            yield {"__gen_error__": f"{type(e).__name__}: {e}", "hspec": h}
            continue
        for _ in range(2):
            call = ib.gen_call(rng, h, malformed=0.0, odd=c01.ODD)
            _, obs = ib.construct(h, call, None, True)
            if obs["exc"] == "typeError" and not obs["trace"]:
                continue  # not a well-formed call (generator corner); C01 covers malformed calls
            yield make_case(h, call, None, True)
            yield make_case(h, call, None, False)
            for e in obs["trace"]:
                i = e["id"]
                yield make_case(h, call, [i["kind"], i["field"], i["idx"]], True, rng.choice(FAULT_KINDS))


def defines(case):
    """re-try the class definitions of a case the generator could not build; error text or None"""
    ib._CACHE.clear()
    try:
        ib.build(case["hspec"])
        return None
    except Exception as e:  # noqa: BLE001
        return f"{type(e).__name__}: {e}"


def observe(case):
    if "__gen_error__" in case:
        raise RuntimeError("class spec did not define: " + case["__gen_error__"])
    bad = c01.definition_failure(case["hspec"])
    if bad is not None:
        return bad
    _, obs = ib.construct(case["hspec"], case["call"], case.get("fault"), case["hspec"].get("validators_enabled", True))
    obs["cache"] = None
    return obs


def nontrivial(case, model):
    return bool(case.get("fault")) or (model is not None and len(model.get("trace", [])) >= 3)


def dist(case, obs):
    d = c01.dist(case, obs)
    d["fault_kind"] = (case.get("fault") or ["none"])[0]
    d["fault_exc"] = case["hspec"].get("fault_exc") or ("user" if case.get("fault") else "-")
    d["validators_enabled"] = case["hspec"].get("validators_enabled", True)
    d["trace_len"] = len(obs.get("trace", [])) if isinstance(obs, dict) else -1
    return d


def shrink(case):
    for c in c01.shrink({k: v for k, v in case.items()}):
        try:
            yield make_case(c["hspec"], c["call"], case.get("fault"), case["hspec"].get("validators_enabled", True))
        except Exception:  # noqa: BLE001
            continue
    if case.get("fault") and case["hspec"].get("fault_exc") not in (None, "user"):
        yield make_case(case["hspec"], case["call"], case["fault"], case["hspec"].get("validators_enabled", True), "user")
    if case.get("fault"):
        yield make_case(case["hspec"], case["call"], None, case["hspec"].get("validators_enabled", True))


def neighbours(case, rng):
    h = case["hspec"]
    for _ in range(4):
        call = ib.gen_call(rng, h, malformed=0.0, odd=c01.ODD)
        _, obs = ib.construct(h, call, None, True)
        yield make_case(h, call, None, True)
        for e in obs["trace"]:
            i = e["id"]
            yield make_case(h, call, [i["kind"], i["field"], i["idx"]], True, rng.choice(FAULT_KINDS))
