"""T3 for C04: translate the *actual* source of a generated `__hash__` into the IR of `Model/C04IR.lean`
(JSON in the shape Lean's derived `FromJson` reads).

The translation is strict: it recognises exactly the forms `_make_hash_script` emits and turns anything else into an
`unknown` node, so a change of the emitted text shows up as a visible difference with the model generator's script,
never as an exception or a silent skip.  Nothing is normalised.  The cache attribute and the key-helper naming
pattern are read from the source under test through the T1 extractor (`hashCacheField`, `c17HashKeyAffix`), with
the pinned values as fallback.  Fields are identified by position: `self.<x>` must name the attribute of a field of
`attr.fields(C)` (otherwise `noSuchAttr`), a key helper must be named after a field.  For every key helper the
object the name is bound to in the method's `__globals__` is compared with the key function the class was given.
The salt literal is compared with `hash("<attrs generated hash <module>.<qualname>>")`, computed here.
"""
from __future__ import annotations

import ast
import builtins
import inspect
import io
import json
import textwrap
import tokenize

import attr

import ir_from_source
import tables_from_source as tfs

_PINNED = {"cache": "_attrs_cached_hash", "key_affix": ("__attr_key_", "")}
_PATTERNS = None
WRAPPER_DEFAULT = "__import__('attr._make')._make._CacheHashWrapper"


def patterns():
    global _PATTERNS
    if _PATTERNS is not None:
        return _PATTERNS
    p = dict(_PINNED)
    broken = []
    try:
        vals, _ = tfs.extract()
        p["cache"] = json.loads(vals["hashCacheField"])
        affix = ast.literal_eval(vals["c17HashKeyAffix"])
        if not (isinstance(affix, tuple) and len(affix) == 2 and all(isinstance(a, str) for a in affix)):
            raise ValueError("affix shape")
        p["key_affix"] = affix
    except Exception as e:  # noqa: BLE001
        broken.append(f"tables: {e}")
    p["broken"] = broken
    _PATTERNS = p
    return p


def _unknown(text):
    return {"unknown": {"src": " ".join(str(text).split())[:200]}}


def _name(n, ident):
    return isinstance(n, ast.Name) and n.id == ident


def _self_attr(n):
    if isinstance(n, ast.Attribute) and _name(n.value, "self"):
        return n.attr
    return None


def _plain_call(n, nargs):
    return (isinstance(n, ast.Call) and not n.keywords and len(n.args) == nargs
            and not any(isinstance(a, ast.Starred) for a in n.args))


def _int_literal(n):
    if isinstance(n, ast.Constant) and type(n.value) is int:
        return n.value
    if (isinstance(n, ast.UnaryOp) and isinstance(n.op, ast.USub) and isinstance(n.operand, ast.Constant)
            and type(n.operand.value) is int):
        return -n.operand.value
    return None


class _Tr:
    def __init__(self, names, keyed_fields, key_obj, globs, salt, pat):
        self.names = names              # attribute names, by field position
        self.keyed = keyed_fields       # positions of the fields that were given a key function
        self.key_obj = key_obj
        self.globs = globs
        self.salt = salt
        self.pat = pat

    def field(self, attr_name):
        return self.names.index(attr_name) if attr_name in self.names else None

    def operand(self, e, first):
        lit = _int_literal(e)
        if lit is not None:
            if not first:
                return _unknown(ast.unparse(e))
            return "salt" if lit == self.salt else "otherInt"
        a = _self_attr(e)
        if a is not None:
            i = self.field(a)
            return {"field": {"i": i}} if i is not None else {"noSuchAttr": {"name": a}}
        if _plain_call(e, 1) and isinstance(e.func, ast.Name):
            helper = e.func.id
            pre, suf = self.pat["key_affix"]
            arg = _self_attr(e.args[0])
            if (arg is not None and helper.startswith(pre) and helper.endswith(suf)
                    and len(helper) > len(pre) + len(suf)):
                h = self.field(helper[len(pre):len(helper) - len(suf)])
                i = self.field(arg)
                if h is not None and i is not None:
                    if helper not in self.globs:
                        bound = "missing"
                    elif h in self.keyed and self.globs[helper] is self.key_obj:
                        bound = "own"
                    else:
                        bound = "foreign"
                    return {"keyed": {"h": h, "bound": bound, "i": i}}
        return _unknown(ast.unparse(e))

    def hash_expr(self, e):
        """`hash((…))` or `_cache_wrapper(hash((…)))` -> HashExpr or None"""
        wrapped = False
        if _plain_call(e, 1) and _name(e.func, "_cache_wrapper"):
            wrapped = True
            e = e.args[0]
        if not (_plain_call(e, 1) and _name(e.func, "hash") and isinstance(e.args[0], ast.Tuple)):
            return None
        elts = e.args[0].elts
        return {"wrapped": wrapped, "operands": [self.operand(x, k == 0) for k, x in enumerate(elts)]}

    def stmt(self, st):
        if isinstance(st, ast.Return) and st.value is not None:
            a = _self_attr(st.value)
            if a is not None:
                return {"retCache": {"cache": a}}
            he = self.hash_expr(st.value)
            if he is not None and not he["wrapped"]:
                return {"retHash": {"e": he}}
            return None
        if (isinstance(st, ast.If) and not st.orelse and len(st.body) == 1 and isinstance(st.test, ast.Compare)
                and len(st.test.ops) == 1 and isinstance(st.test.ops[0], ast.Is) and len(st.test.comparators) == 1
                and isinstance(st.test.comparators[0], ast.Constant) and st.test.comparators[0].value is None):
            cache = _self_attr(st.test.left)
            inner = st.body[0]
            if cache is None:
                return None
            if (isinstance(inner, ast.Assign) and len(inner.targets) == 1 and _self_attr(inner.targets[0]) == cache):
                he = self.hash_expr(inner.value)
                if he is not None:
                    return {"fillCache": {"cache": cache, "how": "assign", "e": he}}
            if (isinstance(inner, ast.Expr) and _plain_call(inner.value, 3)
                    and isinstance(inner.value.func, ast.Attribute) and inner.value.func.attr == "__setattr__"
                    and _name(inner.value.func.value, "object") and _name(inner.value.args[0], "self")
                    and isinstance(inner.value.args[1], ast.Constant) and inner.value.args[1].value == cache):
                he = self.hash_expr(inner.value.args[2])
                if he is not None:
                    return {"fillCache": {"cache": cache, "how": "objSetattr", "e": he}}
        return None


def parse_source(src, tr, kwdefaults):
    try:
        tree = ast.parse(textwrap.dedent(src))
        fns = [n for n in tree.body if isinstance(n, ast.FunctionDef)]
        if len(fns) != 1 or len(tree.body) != 1 or fns[0].name != "__hash__":
            return {"params": _unknown("not a single def __hash__"), "body": [], "builtinsOk": True}
        fn = fns[0]
    except Exception as e:  # noqa: BLE001
        return {"params": _unknown(f"unparsable: {type(e).__name__}"), "body": [], "builtinsOk": True}
    a = fn.args
    params = None
    if (not a.posonlyargs and not a.vararg and not a.kwarg and not fn.decorator_list and not a.defaults
            and len(a.args) == 1 and a.args[0].arg == "self"):
        if not a.kwonlyargs:
            params = "plain"
        elif (len(a.kwonlyargs) == 1 and a.kwonlyargs[0].arg == "_cache_wrapper" and a.kw_defaults[0] is not None
              and ast.unparse(a.kw_defaults[0]) == WRAPPER_DEFAULT):
            import attr._make as mk
            params = {"cached": {"isWrapper": (kwdefaults or {}).get("_cache_wrapper") is mk._CacheHashWrapper}}
    if params is None:
        params = _unknown("signature: " + ast.unparse(a))
    body = []
    for st in fn.body:
        try:
            r = tr.stmt(st)
        except Exception:  # noqa: BLE001
            r = None
        body.append(r if r is not None else _unknown(ast.unparse(st)))
    return {"params": params, "body": body}


def parse_hash(C, key_obj, keyed_fields):
    """the real generated source of `C.__hash__` (own `__dict__` entry) -> HashScript JSON (never raises)"""
    pat = patterns()
    try:
        fn = C.__dict__["__hash__"]
        src = textwrap.dedent(inspect.getsource(fn))
        code = fn.__code__
        globs = fn.__globals__
        names = [a.name for a in attr.fields(C)]
        salt = hash(f"<attrs generated hash {C.__module__}.{C.__qualname__}>")
    except Exception as e:  # noqa: BLE001
        return {"params": _unknown(f"no source: {type(e).__name__}"), "body": [], "builtinsOk": True}
    tr = _Tr(names, set(keyed_fields), key_obj, globs, salt, pat)
    script = parse_source(src, tr, getattr(fn, "__kwdefaults__", None))
    script["builtinsOk"] = globs.get("hash") is builtins.hash and globs.get("object") is builtins.object
    try:
        if any(t.type == tokenize.COMMENT for t in tokenize.generate_tokens(io.StringIO(src).readline)):
            script["body"].insert(0, _unknown("comment in the generated text"))
    except Exception:  # noqa: BLE001
        script["body"].insert(0, _unknown("untokenizable"))
    if not ir_from_source._same_code(src, code):
        script["body"].insert(0, _unknown("source text is not the code object that runs"))
    if pat["broken"]:
        script["body"].insert(0, _unknown("T1 patterns: " + "; ".join(pat["broken"])))
    return script
