"""T3 for C11: translate the *actual* source of a generated `__repr__` into the IR of `Model/C11IR.lean`
(JSON in the shape Lean's derived `FromJson` reads).

Strict: exactly the statement / expression forms `_make_repr_script` emits are recognised (plus the few sibling
forms the IR has a meaning for: `set()`, `discard`, `clear`, `split`, `__name__`, `__qualname__`); anything else
becomes `{"unknown": {"src": "<source>"}}`, never an exception or a silent skip.  Nothing is normalised.  The
naming pattern of the helper globals is read from the source under test through the T1 extractor; the object each
helper global is bound to is read from the function's `__globals__` (which callable, by the description the
harness attached to it when it made it).
"""
from __future__ import annotations

import ast
import inspect
import re
import textwrap

import tables_from_source as tfs

_PINNED_AFFIX = ("__attr_repr_", "")
_AFFIX = None


def helper_affix():
    """(prefix, suffix) of the global that holds a field's repr callable, from the source under test"""
    global _AFFIX
    if _AFFIX is None:
        try:
            vals, _ = tfs.extract()
            m = re.fullmatch(r'\("((?:[^"\\]|\\.)*)", "((?:[^"\\]|\\.)*)"\)', vals["c17ReprAffix"])
            _AFFIX = (m.group(1), m.group(2)) if m else _PINNED_AFFIX
        except Exception:  # noqa: BLE001
            _AFFIX = _PINNED_AFFIX
    return _AFFIX


def generated_repr(cls):
    """the attrs-generated `__repr__` an instance of `cls` runs (it may sit on an ancestor)"""
    for k in cls.__mro__:
        fn = k.__dict__.get("__repr__")
        code = getattr(fn, "__code__", None)
        if code is not None and code.co_filename.startswith("<attrs generated"):
            return fn
    return None


def _unknown(node):
    try:
        src = ast.unparse(node)
    except Exception:  # noqa: BLE001
        src = type(node).__name__
    return {"unknown": {"src": src[:300]}}


def _is_name(n, ident):
    return isinstance(n, ast.Name) and n.id == ident


def _is_id_self(n):
    return (isinstance(n, ast.Call) and _is_name(n.func, "id") and len(n.args) == 1 and not n.keywords
            and _is_name(n.args[0], "self"))


def _is_ctx_attr(n):
    """_compat.repr_context.already_repring"""
    return (isinstance(n, ast.Attribute) and n.attr == "already_repring" and isinstance(n.value, ast.Attribute)
            and n.value.attr == "repr_context" and _is_name(n.value.value, "_compat"))


def _self_class_attr(n, attr):
    """self.__class__.<attr>"""
    return (isinstance(n, ast.Attribute) and n.attr == attr and isinstance(n.value, ast.Attribute)
            and n.value.attr == "__class__" and _is_name(n.value.value, "self"))


def _name_expr(e):
    if _self_class_attr(e, "__qualname__"):
        return "qualname"
    if _self_class_attr(e, "__name__"):
        return "name"
    # self.__class__.__qualname__.rsplit(">.", 1)[-1]
    if (isinstance(e, ast.Subscript) and isinstance(e.slice, ast.UnaryOp) and isinstance(e.slice.op, ast.USub)
            and isinstance(e.slice.operand, ast.Constant) and e.slice.operand.value == 1
            and isinstance(e.value, ast.Call) and isinstance(e.value.func, ast.Attribute)
            and e.value.func.attr in ("rsplit", "split") and _self_class_attr(e.value.func.value, "__qualname__")
            and not e.value.keywords and len(e.value.args) == 2
            and isinstance(e.value.args[0], ast.Constant) and e.value.args[0].value == ">."
            and isinstance(e.value.args[1], ast.Constant) and e.value.args[1].value == 1):
        return "qualRsplit" if e.value.func.attr == "rsplit" else "qualSplit"
    return None


def _accessor(e):
    if isinstance(e, ast.Attribute) and _is_name(e.value, "self"):
        return {"selfDot": {"n": e.attr}}
    if (isinstance(e, ast.Call) and _is_name(e.func, "getattr") and not e.keywords and len(e.args) == 3
            and _is_name(e.args[0], "self") and isinstance(e.args[1], ast.Constant) and isinstance(e.args[1].value, str)
            and _is_name(e.args[2], "NOTHING")):
        return {"getattrNothing": {"n": e.args[1].value}}
    return None


def _frag(label, fv):
    if fv.format_spec is not None:
        return None
    if fv.conversion == 114:                      # !r
        acc = _accessor(fv.value)
        return None if acc is None else {"label": label, "acc": acc, "fmt": "bangR"}
    if fv.conversion == -1 and isinstance(fv.value, ast.Call) and isinstance(fv.value.func, ast.Name) \
            and not fv.value.keywords and len(fv.value.args) == 1:
        acc = _accessor(fv.value.args[0])
        return None if acc is None else {"label": label, "acc": acc, "fmt": {"helper": {"g": fv.value.func.id}}}
    return None


def _fstring(js):
    """-> (name expr, fragments) or None"""
    vals = list(js.values)
    if not vals:
        return None
    if isinstance(vals[0], ast.FormattedValue):
        fv = vals[0]
        if fv.conversion != -1 or fv.format_spec is not None:
            return None
        name = _name_expr(fv.value)
        rest = vals[1:]
    elif (isinstance(vals[0], ast.Constant) and isinstance(vals[0].value, str) and vals[0].value.endswith(".")
          and len(vals) > 1 and isinstance(vals[1], ast.FormattedValue) and vals[1].conversion == -1
          and vals[1].format_spec is None and _self_class_attr(vals[1].value, "__name__")):
        name = {"nsName": {"ns": vals[0].value[:-1]}}
        rest = vals[2:]
    else:
        return None
    if name is None:
        return None
    if len(rest) == 1 and isinstance(rest[0], ast.Constant) and rest[0].value == "()":
        return name, []
    if len(rest) < 3 or len(rest) % 2 == 0:
        return None
    frags = []
    for i in range(0, len(rest) - 1, 2):
        lit, fv = rest[i], rest[i + 1]
        if not (isinstance(lit, ast.Constant) and isinstance(lit.value, str) and isinstance(fv, ast.FormattedValue)):
            return None
        m = re.fullmatch(r"\((\w+)=" if i == 0 else r", (\w+)=", lit.value)
        if not m:
            return None
        fr = _frag(m.group(1), fv)
        if fr is None:
            return None
        frags.append(fr)
    last = rest[-1]
    if not (isinstance(last, ast.Constant) and last.value == ")"):
        return None
    return name, frags


def _stmt(n):
    if isinstance(n, ast.Try):
        if (len(n.handlers) == 1 and not n.finalbody and n.handlers[0].name is None
                and _is_name(n.handlers[0].type, "AttributeError")):
            return {"tryAttr": {"body": _block(n.body), "handler": _block(n.handlers[0].body), "orelse": _block(n.orelse)}}
        if not n.handlers and not n.orelse and n.finalbody:
            return {"tryFinally": {"body": _block(n.body), "fin": _block(n.finalbody)}}
        return _unknown(n)
    if isinstance(n, ast.If):
        t = n.test
        if (isinstance(t, ast.Compare) and len(t.ops) == 1 and isinstance(t.ops[0], ast.In) and _is_id_self(t.left)
                and _is_name(t.comparators[0], "already_repring")):
            return {"ifIn": {"thn": _block(n.body), "els": _block(n.orelse)}}
        return _unknown(n)
    if isinstance(n, ast.Assign) and len(n.targets) == 1:
        tgt, val = n.targets[0], n.value
        if _is_name(tgt, "already_repring"):
            if _is_ctx_attr(val):
                return "bindLookup"
            if isinstance(val, ast.Set) and len(val.elts) == 1 and _is_id_self(val.elts[0]):
                return "bindNewSelf"
            if isinstance(val, ast.Call) and _is_name(val.func, "set") and not val.args and not val.keywords:
                return "bindNewEmpty"
        if _is_ctx_attr(tgt) and _is_name(val, "already_repring"):
            return "storeCtx"
        return _unknown(n)
    if isinstance(n, ast.Expr) and isinstance(n.value, ast.Call) and isinstance(n.value.func, ast.Attribute) \
            and _is_name(n.value.func.value, "already_repring") and not n.value.keywords:
        meth, args = n.value.func.attr, n.value.args
        if len(args) == 1 and _is_id_self(args[0]) and meth in ("add", "remove", "discard"):
            return {"add": "addSelf", "remove": "removeSelf", "discard": "discardSelf"}[meth]
        if not args and meth == "clear":
            return "clear"
        return _unknown(n)
    if isinstance(n, ast.Return):
        if isinstance(n.value, ast.Constant) and isinstance(n.value.value, str):
            return {"retLit": {"s": n.value.value}}
        if isinstance(n.value, ast.JoinedStr):
            got = _fstring(n.value)
            if got is not None:
                return {"retF": {"nm": got[0], "frags": got[1]}}
        return _unknown(n)
    return _unknown(n)


def _block(stmts):
    return [_stmt(s) for s in stmts]


def _spec_of(obj):
    """what the object bound to a helper global does, as the harness described it when it made it"""
    fn = getattr(obj, "fn", obj)              # CallableObj wraps the function
    spec = getattr(fn, "spec", None)
    if not isinstance(spec, dict):
        return {"tag": "?" + type(obj).__name__, "recurse": False, "fault": "no", "tol": False}
    return {"tag": spec["tag"], "recurse": spec["recurse"], "fault": getattr(fn, "fault", "no"), "tol": spec["tol"]}


def _free_names(fdef):
    """names the function body loads that are neither its parameters nor assigned in it"""
    local = {a.arg for a in fdef.args.args}
    loads = set()
    for n in ast.walk(fdef):
        if isinstance(n, ast.Name):
            (loads if isinstance(n.ctx, ast.Load) else local).add(n.id)
    return sorted(loads - local)


def _binding(fn, name):
    """what a free name of the generated function resolves to"""
    import builtins

    import attr
    from attr import _compat
    g = fn.__globals__
    if name not in g:
        return "unpinned"
    obj = g[name]
    if name == "_compat":
        return "attr._compat" if obj is _compat else "foreign:" + type(obj).__name__
    if name == "NOTHING":
        return "attr.NOTHING" if obj is attr.NOTHING else "foreign:" + type(obj).__name__
    if hasattr(builtins, name) and obj is getattr(builtins, name):
        return "builtin"
    return "foreign:" + type(obj).__name__


def parse_repr(cls):
    """-> Script JSON for the generated `__repr__` that instances of `cls` run"""
    fn = generated_repr(cls)
    if fn is None:
        return {"body": [{"unknown": {"src": "no attrs-generated __repr__ in the MRO"}}], "globs": [], "free": []}
    try:
        tree = ast.parse(textwrap.dedent(inspect.getsource(fn)))
        fdef = tree.body[0]
        ok = (isinstance(fdef, ast.FunctionDef) and fdef.name == "__repr__" and not fdef.decorator_list
              and [a.arg for a in fdef.args.args] == ["self"] and not fdef.args.vararg and not fdef.args.kwarg
              and not fdef.args.kwonlyargs and not fdef.args.defaults)
        body = _block(fdef.body) if ok else [_unknown(fdef)]
        names = _free_names(fdef)
    except Exception as e:  # noqa: BLE001
        body = [{"unknown": {"src": f"source not available: {type(e).__name__}"}}]
        names = []
    pre, suf = helper_affix()

    def is_helper(g):
        return g.startswith(pre) and g.endswith(suf) and len(g) > len(pre) + len(suf)
    free = [[nm, _binding(fn, nm)] for nm in names if not is_helper(nm)]
    globs = [[g, _spec_of(o)] for g, o in fn.__globals__.items()
             if g.startswith(pre) and g.endswith(suf) and len(g) > len(pre) + len(suf) and g != "__repr__"]
    return {"body": body, "globs": globs, "free": free}
