#!/bin/sh
# usage: harness/sweep_par.sh <N lanes> <quick|thorough> <seed> [<seed> ...]
# Runs ./check Cxx --tier <tier> --seed <s> for all claimed properties and seeds on N parallel private copies of
# /verif (see lanes.sh).  Prints one status line per run and the list of runs that did not exit 0.
N=$1; TIER=$2; shift 2
cd /verif
OUT=/verif/.work/sweep_$TIER; rm -rf $OUT; mkdir -p $OUT
python3 - "$TIER" "$OUT/jobs.txt" "$@" <<'PY'
import json, sys
tier, out, seeds = sys.argv[1], sys.argv[2], sys.argv[3:]
props = [x["property_id"] for x in json.load(open("MANIFEST.json"))["checks"]]
with open(out, "w") as f:
    for s in seeds:
        for p in props:
            f.write(f"./check {p} --tier {tier} --seed {s} > .sweep.out 2>&1; rc=$?; "
                    f"echo \"rc=$rc {p} seed={s} $(grep -v conda .sweep.out | grep -e '^.{p}. ' -e '^VIOLATION' -e '^TOOL' | tail -2 | paste -sd' ')\"\n")
PY
harness/lanes.sh $N $OUT/jobs.txt $OUT
cat $OUT/lane*.log | grep "^rc=" | sort -k2,3 > $OUT/summary.txt
echo "runs: $(wc -l < $OUT/summary.txt)  ok: $(grep -c '^rc=0 ' $OUT/summary.txt)"
grep -v '^rc=0 ' $OUT/summary.txt
