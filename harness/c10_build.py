"""Builder and observer for C10 (copy / deepcopy / pickle round trip).

A case describes a single-inheritance *chain* of classes (root first; the last one is the attrs class
whose instance is copied), the operation, and a short history (hash computed before or not, one field
changed after hashing, init=False fields assigned after construction).  `observe(case)` creates the real
classes in a synthetic, importable module (registered in `sys.modules` only while the case runs), builds the
instance, runs the history and the operation, and reports what the property talks about: exception kind,
distinct object, same class, every field of the result, `copy == orig`, the hash pattern against a freshly
built equal instance, and whether the cached hash value travelled.

Values are tokens: a field `x` holds the token `v_x` (after the change `m_x`) as an int, a str or a `Box`
(a mutable, hashable container whose `__hash__` counts its calls); `canon` maps a value back to its token.
"""
from __future__ import annotations

import copy
import pickle
import sys
import types

import attr
import attrs

import common

try:  # the literal is regenerated from the source (T1) on the Lean side; here we read the live value
    from attr._make import _HASH_CACHE_FIELD as CACHE
except Exception:  # noqa: BLE001
    CACHE = "_attrs_cached_hash"

ABSENT = object()
HASH_CALLS = [0]


class Box:
    """mutable, hashable value; equal by tag; counts `__hash__` calls"""

    def __init__(self, tag):
        self.tag = tag

    def __eq__(self, other):
        return type(other) is Box and other.tag == self.tag

    def __hash__(self):
        HASH_CALLS[0] += 1
        return hash(("Box", self.tag))

    def __bool__(self):          # falsy, like an empty container
        return False

    def __repr__(self):
        return f"Box({self.tag!r})"


Box.__module__ = __name__
Box.__qualname__ = "Box"

FIELD_NAMES = ["x", "y", "z", "w", "_p", "_x", "_y", "__meta__"]      # `_x` shares its __init__ alias with `x`
_TOKENS = [p + n for p in ("v_", "m_", "w_") for n in FIELD_NAMES + ["p", "q"]] + [f"t{i}" for i in range(8)]
_TOK2INT = {t: (0 if t == "v_x" else 1000 + i) for i, t in enumerate(_TOKENS)}   # one falsy int
_INT2TOK = {v: k for k, v in _TOK2INT.items()}


class IntSub(int):
    """an int subclass that, unlike attrs' `_CacheHashWrapper`, pickles as itself"""


IntSub.__module__ = __name__
IntSub.__qualname__ = "IntSub"
NAN = float("nan")
SPECIALS = {
    "nothing": attr.NOTHING, "none": None, "notimpl": NotImplemented, "ellipsis": Ellipsis, "false": False,
    "zero": 0, "emptystr": "", "emptytuple": (), "nan": NAN, "intsub": IntSub(7), "cachename": CACHE,
    "inner": None,      # an instance of the same class with ordinary values, built on demand
}


def _is_special(kind, v, leaf):
    if kind == "nan":
        return type(v) is float and v != v
    if kind == "inner":
        return leaf is not None and type(v) is leaf
    if kind == "intsub":
        return type(v) is IntSub and int(v) == 7
    if kind in ("nothing", "none", "notimpl", "ellipsis", "false"):
        return v is SPECIALS[kind]
    return type(v) is type(SPECIALS[kind]) and v == SPECIALS[kind]


def field_value(f, token, leaf=None, fields=None):
    """the Python value standing for `token` in field `f`: fields with a `special` hold that unusual value as
    their original value (`v_<name>`); the changed value (`m_<name>`) is always an ordinary one"""
    sp = f.get("special")
    if sp and token == "v_" + f["name"]:
        if sp == "inner":
            plain = [dict(g, special=None) for g in fields]
            inner = _construct(leaf, plain, {g["name"]: "v_" + g["name"] for g in plain})
            for g in plain:
                if not g["init"]:
                    object.__setattr__(inner, g["name"], mk_value(g["kind"], "v_" + g["name"]))
            return inner
        return SPECIALS[sp]
    return mk_value(f["kind"], token)


def canon_field(f, v, leaf):
    sp = f.get("special") if f else None
    if sp and _is_special(sp, v, leaf):
        return "v_" + f["name"]
    if v is None:
        return "None"
    return canon(v)


def mk_value(kind, token):
    if kind == "int":
        return _TOK2INT[token]
    if kind == "box":
        return Box(token)
    return token


def canon(v):
    if v is None:
        return "None"
    if type(v) is int:
        return _INT2TOK.get(v, "int?")
    if type(v) is str:
        return v
    if type(v) is Box:
        return v.tag if isinstance(v.tag, str) else "box?"
    return "other:" + type(v).__name__


# --------------------------------------------------------------------------------------------- classes
def _user_getstate(self):
    return {"u": {a.name: getattr(self, a.name) for a in attr.fields(type(self))}}


def _user_setstate(self, state):
    for k, v in state["u"].items():
        object.__setattr__(self, k, v)
    h = getattr(type(self), "__hash__", None)
    if "_cache_wrapper" in (getattr(h, "__kwdefaults__", None) or {}):
        object.__setattr__(self, CACHE, None)


_CUR = {"fields": {}, "leaf": None, "all": [], "building": True}


def _factory_for(name):
    """default factory of field `name`: while the harness builds an instance it returns the field's original value;
    whenever it runs at any other time (i.e. during the copy / unpickle) it returns a *different* value (`w_<name>`):
    a field of the result that was re-derived instead of carried over is thereby visible"""
    def factory():
        f = _CUR["fields"].get(name)
        if f is None:
            return None
        if _CUR["building"]:
            return field_value(f, "v_" + name, _CUR["leaf"], _CUR["all"])
        return mk_value(f["kind"], "w_" + name)
    return factory


def _api(spec):
    api = spec.get("api", "attr.s")
    return "define" if api == "frozen" and not spec["frozen"] else api      # attrs.frozen only for frozen specs


def _deco_kwargs(spec):
    """keyword arguments for the front-end named by the harness-only keys `api` (attr.s | define | frozen) and
    `front` (class | these | make_class; attr.s only)"""
    api = _api(spec)
    explicit = spec.get("explicit", True)
    kw = {}
    if api == "attr.s":
        defaults = {"slots": False, "frozen": False, "auto_detect": False, "collect_by_mro": False,
                    "cache_hash": False, "weakref_slot": True, "eq": True}
        kw["collect_by_mro"] = spec["collectByMro"]
    else:
        defaults = {"slots": True, "frozen": api == "frozen", "auto_detect": True, "cache_hash": False,
                    "weakref_slot": True, "eq": True}
    want = {"slots": spec["slots"], "frozen": spec["frozen"], "auto_detect": spec["autoDetect"],
            "cache_hash": spec["cacheHash"], "weakref_slot": spec["weakrefSlot"], "eq": spec["eq"]}
    for k, v in want.items():
        if explicit or defaults[k] != v:
            kw[k] = v
    if api == "frozen":
        kw.pop("frozen", None)
    if spec["unsafeHash"]:
        kw["unsafe_hash" if spec.get("hashKw", "unsafe_hash") == "unsafe_hash" else "hash"] = True
    if spec["gs"] == "t":
        kw["getstate_setstate"] = True
    elif spec["gs"] == "f":
        kw["getstate_setstate"] = False
    elif spec.get("gsExplicitNone"):
        kw["getstate_setstate"] = None
    return kw


def _is_nested(spec):
    return bool(spec.get("nested")) and not (spec["kind"] == "attrs" and spec.get("front") == "make_class" and _api(spec) == "attr.s")


def class_source(i, spec, base="object"):
    """source text that defines class `C<i>` below `C<i-1>`; it is exec'd *inside* the synthetic module, so that
    `__module__` / `__qualname__` — what pickle needs to find the class again — come about the way they do for a
    user (class statement, or `make_class` reading its caller's `__name__`), never by assignment from the harness"""
    name = f"C{i}"
    body = []
    if spec["userGS"]:
        body += ["__getstate__ = _user_getstate", "__setstate__ = _user_setstate"]
    if spec["kind"] == "plain":
        if spec["slots"]:
            body.append(f"__slots__ = {tuple(spec['plainSlots'])!r}")
        return f"class {name}({base}):\n" + "".join(f"    {ln}\n" for ln in body or ["pass"])
    def ib(f):
        if not f["init"]:
            return "attr.ib(init=False)"
        kw = []
        if f.get("factory"):
            kw.append(f"factory=_factory_for({f['name']!r})")
        elif f.get("default"):
            kw.append(f"default=_dflt{i}_{f['name']}")       # the very object the field holds when it is not passed
        if f.get("alias"):
            kw.append(f"alias={f['alias']!r}")
        return "attr.ib(" + ", ".join(kw) + ")"

    fields = [(f["name"], ib(f)) for f in spec["fields"]]
    api, front = _api(spec), spec.get("front", "class")
    deco = {"attr.s": "attr.s", "define": "attrs.define", "frozen": "attrs.frozen"}[api]
    if api == "attr.s" and front == "make_class":
        cb = "{'__getstate__': _user_getstate, '__setstate__': _user_setstate}" if spec["userGS"] else "None"
        items = ", ".join(f"{n!r}: {src}" for n, src in fields)
        return (f"def _make_{name}():\n"
                f"    return attr.make_class({name!r}, {{{items}}}, bases=({base},), class_body={cb}, **_kw{i})\n"
                f"{name} = _make_{name}()\n")
    if api == "attr.s" and front == "these":
        items = ", ".join(f"{n!r}: {src}" for n, src in fields)
        return (f"class {name}({base}):\n" + "".join(f"    {ln}\n" for ln in body or ["pass"])
                + f"{name} = attr.s(these={{{items}}}, **_kw{i})({name})\n")
    body += [f"{n} = {src}" for n, src in fields]
    cls_src = f"class {name}({base}):\n" + "".join(f"    {ln}\n" for ln in body or ["pass"])
    prime = spec.get("prime")
    if not prime:
        return f"@{deco}(**_kw{i})\n" + cls_src
    # HISTORY of a decorator object: `deco = attr.s(...)` (define / frozen) is created once and applied first to a
    # priming class -- one with hand-written state methods, a stand-alone one, or a bare subclass of the same base --
    # and then to the class under test; whatever the object remembers of the first class would show on the second
    pbase = "object" if prime == "alone" else base
    pbody = (["__getstate__ = _user_getstate", "__setstate__ = _user_setstate"] if prime == "own" else ["pass"])
    return (f"_deco{i} = {deco}(**_kw{i})\n"
            f"try:\n    @_deco{i}\n    class P{i}({pbase}):\n" + "".join(f"        {ln}\n" for ln in pbody)
            + "except Exception:\n    pass\n"
            + f"@_deco{i}\n" + cls_src)


def nested_source(i, spec, base="object"):
    """harness-only `nested`: the class statement sits in the body of a namespace class, so `__qualname__` is dotted
    (and the class is reachable only through that path: no module-level alias)"""
    src = class_source(i, spec, base)
    if not _is_nested(spec):
        return src
    return f"class NS{i}:\n" + "".join("    " + ln + "\n" for ln in src.splitlines())


def _decoy_chain(chain, how):
    """an earlier definition of the same classes (same module, same qualnames, same options, same number of fields):
    other field names (`rename`) or the same names in another order (`reverse`)"""
    out = []
    for c in chain:
        fs = [dict(f) for f in c["fields"]]
        if how == "reverse":
            fs.reverse()
        else:
            for f in fs:
                f["name"] = f["name"] + "_d" if not f["name"].endswith("__") else "__d" + f["name"][2:]
                if f.get("alias"):
                    f["alias"] = f["alias"] + "_d"
                f.pop("default", None)
                f.pop("special", None)
        out.append(dict(c, fields=fs, decoy=None))
    return out


def _exercise_decoy(mod, leaf):
    """use the earlier class once (construct, copy, pickle) while its module is importable"""
    sys.modules[mod.__name__] = mod
    try:
        kw = {a.alias: 0 for a in attr.fields(leaf) if a.init and a.default is attr.NOTHING}
        inst = leaf(**kw)
        copy.copy(inst)
        pickle.loads(pickle.dumps(inst, 2))
    except BaseException:  # noqa: BLE001  -- whatever the earlier class does is not observed
        pass
    finally:
        sys.modules.pop(mod.__name__, None)


def build_chain(chain, modname, exc=False):
    how = chain[-1].get("decoy") if chain else None
    if how:
        # HISTORY of definitions: the same module + qualnames were defined (and used) before with another field list
        try:
            dmod, dclasses = _build_chain(_decoy_chain(chain, how), modname, exc)
            _exercise_decoy(dmod, dclasses[-1])
        except BaseException:  # noqa: BLE001
            pass
    return _build_chain(chain, modname, exc)


def _build_chain(chain, modname, exc=False):
    """create the classes of the chain by running their source inside module `modname`; returns (module, [classes]);
    `exc`: the chain is rooted at `Exception` and every attrs class is built with auto_exc=True"""
    mod = types.ModuleType(modname)
    ns = mod.__dict__
    ns.update(attr=attr, attrs=attrs, _user_getstate=_user_getstate, _user_setstate=_user_setstate, _factory_for=_factory_for)
    classes = []
    base = "Exception" if exc else "object"
    for i, spec in enumerate(chain):
        if spec["kind"] == "attrs":
            ns[f"_kw{i}"] = _deco_kwargs(spec)
            for f in spec["fields"]:
                if f["init"] and f.get("default"):
                    v = field_value(f, "v_" + f["name"])
                    ns[f"_dflt{i}_{f['name']}"] = v
                    if type(v) is Box:
                        ns.setdefault("_box_defaults", []).append((v, "v_" + f["name"]))
            if exc and (_api(spec) == "attr.s" or spec.get("explicit", True)):
                ns[f"_kw{i}"]["auto_exc"] = True          # default of define / frozen, opt-in for attr.s
        exec(compile(nested_source(i, spec, base), f"<c10 synthetic {modname}>", "exec"), ns)
        base = f"NS{i}.C{i}" if _is_nested(spec) else f"C{i}"
        classes.append(getattr(ns[f"NS{i}"], f"C{i}") if _is_nested(spec) else ns[f"C{i}"])
    return mod, classes


_CACHE_CLASSES: dict = {}


def get_classes(chain, exc=False):
    import json
    key = json.dumps([dict(c, fields=[{k: v for k, v in f.items() if k != "special" or f.get("default")} for f in c["fields"]])
                      for c in chain] + [exc], sort_keys=True)
    got = _CACHE_CLASSES.get(key)
    if got is None:
        if len(_CACHE_CLASSES) > 400:
            _CACHE_CLASSES.clear()
            common.purge_linecache()
        modname = f"c10_synth_{len(_CACHE_CLASSES)}_{abs(hash(key)) % 10**8}"
        try:
            got = build_chain(chain, modname, exc)
        except Exception as e:  # noqa: BLE001  -- definition-time rejection
            got = ("deferr", common.exc_kind(e))
        _CACHE_CLASSES[key] = got
    return got


# --------------------------------------------------------------------------------------------- helpers
def leaf_fields(chain):
    """(name, init, kind) of the leaf's collected fields in `__attrs_attrs__` order (both collection modes
    give the same list on a chain): inherited ones not re-declared, then own"""
    acc = []
    for c in chain:
        if c["kind"] != "attrs":
            continue
        own = [f["name"] for f in c["fields"]]
        acc = [f for f in acc if f["name"] not in own] + list(c["fields"])
    return acc


def cur_token(case, name):
    return ("m_" if case.get("mutate") == name else "v_") + name


def _construct(leaf, fields, tokens, pass_all=True):
    """Leaf(**init values); fields with a default factory are left to it unless `pass_all`"""
    by_name = {a.name: a for a in attr.fields(leaf)}
    kwargs = {}
    for f in fields:
        if f["init"] and (pass_all or not (f.get("factory") or f.get("default"))):
            kwargs[by_name[f["name"]].alias] = field_value(f, tokens[f["name"]], leaf, fields)
    return leaf(**kwargs)


_KINDS = {"typeError", "attributeError", "frozenInstance"}


def _kind(e):
    k = common.exc_kind(e)
    return k if k in _KINDS else "other"


def _res(thunk):
    try:
        return "ok", thunk()
    except BaseException as e:  # noqa: BLE001
        return _kind(e), None


def blank_obs(exc=None):
    return {"exc": exc, "distinct": False, "sameClass": False, "fields": [], "aliased": [],
            "eqOrig": "na", "cacheAfter": "absent", "hashCopy": "na", "hashFresh": "na", "hashOrig": "na",
            "hashEqFresh": False, "hashEqOrig": False, "recomputed": False}


def _history(case, leaf, fields, hashed):
    """construct, assign the init=False fields, optionally hash, optionally change one field"""
    _CUR["building"] = True
    try:
        inst = _construct(leaf, fields, {f["name"]: "v_" + f["name"] for f in fields},
                          pass_all=case.get("cfg", {}).get("passArgs", True))
    finally:
        _CUR["building"] = False
    if case["assignUnset"]:
        for f in fields:
            if not f["init"]:
                object.__setattr__(inst, f["name"], field_value(f, "v_" + f["name"], leaf, fields))
    if hashed:
        try:
            hash(inst)
        except BaseException:  # noqa: BLE001
            pass
    t = case.get("cfg", {}).get("touch")
    if t is not None and case.get("mutate") is None:
        # changed and set back: the field holds the very same object again
        f = next((f for f in fields if f["name"] == t), None)
        old = getattr(inst, t, ABSENT)
        if f is not None and old is not ABSENT:
            object.__setattr__(inst, t, mk_value(f["kind"], "m_" + t))
            object.__setattr__(inst, t, old)
    m = case.get("mutate")
    if m is not None:
        f = next(f for f in fields if f["name"] == m)
        how = "inplace" if case.get("mutInPlace") else case.get("cfg", {}).get("mutateHow", "assign")
        old = getattr(inst, m, ABSENT)
        if how == "inplace" and type(old) is Box:
            old.tag = "m_" + m
        elif how == "assign" and not _is_frozen(leaf):
            setattr(inst, m, mk_value(f["kind"], "m_" + m))
        else:
            object.__setattr__(inst, m, mk_value(f["kind"], "m_" + m))
    return inst


def _run(case, leaf):
    fields = leaf_fields(case["chain"])
    by_name = {f["name"]: f for f in fields}
    _CUR.update(fields=by_name, leaf=leaf, all=fields, building=False)
    obs = blank_obs()
    real_names = [a.name for a in attr.fields(leaf)]
    if sorted(real_names) != sorted(by_name):
        return blank_obs("other")          # the class does not have the fields of the specification
    orig = _history(case, leaf, fields, case["hashedBefore"])
    op = case["op"]
    legacy = isinstance(op, dict) and "legacy" in op
    py = case.get("cfg", {}).get("pickler") == "py"
    try:
        if op == "copy":
            cp = copy.copy(orig)
        elif op == "deepcopy":
            cp = copy.deepcopy(orig)
        elif "pickle" in op:
            dumps, loads = (pickle._dumps, pickle._loads) if py else (pickle.dumps, pickle.loads)
            cp = loads(dumps(orig, op["pickle"]["proto"]))
        else:
            cp = leaf.__new__(leaf)
            cp.__setstate__(tuple(mk_value("str", f"t{i}") for i in range(op["legacy"]["len"])))
    except BaseException as e:  # noqa: BLE001
        return blank_obs(_kind(e))
    obs["distinct"] = cp is not orig
    obs["sameClass"] = type(cp) is type(orig)
    for n in real_names:                     # in the order the class reports its fields
        v = getattr(cp, n, ABSENT)
        obs["fields"].append([n, None if v is ABSENT else canon_field(by_name.get(n), v, leaf)])
        if op == "copy" and type(v) is Box and v is getattr(orig, n, ABSENT):
            obs["aliased"].append(n)
    c = getattr(cp, CACHE, ABSENT)
    obs["cacheAfter"] = "absent" if c is ABSENT else "isNone" if c is None else "carried"
    k, v = _res(lambda: cp == orig)
    obs["eqOrig"] = ("T" if v is True else "F" if v is False else "other") if k == "ok" else k
    HASH_CALLS[0] = 0
    kc, hc = _res(lambda: hash(cp))
    obs["recomputed"] = HASH_CALLS[0] > 0 and not legacy
    obs["hashCopy"] = kc
    # a freshly built equal instance: the same history without the hashing step
    kf, hf = _res(lambda: hash(_history(case, leaf, fields, False)))
    obs["hashFresh"] = kf
    ko, ho = _res(lambda: hash(orig))
    obs["hashOrig"] = ko
    ident = type(cp).__hash__ is object.__hash__
    obs["hashEqFresh"] = kc == "ok" and kf == "ok" and hc == hf and not ident
    obs["hashEqOrig"] = kc == "ok" and ko == "ok" and hc == ho and not ident
    return obs


def _is_frozen(cls):
    from attr._make import _frozen_setattrs
    return cls.__setattr__ is _frozen_setattrs


def observe(case):
    got = get_classes(case["chain"], bool(case.get("exc")))
    if got[0] == "deferr":
        return blank_obs("other")
    mod, classes = got
    sys.modules[mod.__name__] = mod
    for box, tag in mod.__dict__.get("_box_defaults", ()):
        box.tag = tag                      # a shared default object may have been changed in place by an earlier case
    try:
        return _run(case, classes[-1])
    except BaseException as e:  # noqa: BLE001  -- e.g. the constructor of the original raised
        return blank_obs("other")
    finally:
        sys.modules.pop(mod.__name__, None)
        HASH_CALLS[0] = 0
