"""CLI:  check <Cxx> [--tier quick|thorough] [--seed N]  |  check replay <path>  |  check setup"""
from __future__ import annotations

import argparse
import os
import sys
from pathlib import Path

sys.path.insert(0, str(Path(__file__).resolve().parent))
# ATTRS_REPO=<dir> points the whole check (imports and T1 extraction) at another checkout of attrs
# (used to try changes on a scratch copy); default is /repo through /venv's editable install.
if os.environ.get("ATTRS_REPO"):
    sys.path.insert(0, os.path.join(os.environ["ATTRS_REPO"], "src"))

import leantools  # noqa: E402
import runner  # noqa: E402


def main() -> int:
    ap = argparse.ArgumentParser()
    ap.add_argument("what")
    ap.add_argument("path", nargs="?")
    ap.add_argument("--tier", default=os.environ.get("VERIF_TIER", "quick"), choices=["quick", "thorough"])
    ap.add_argument("--seed", type=int, default=int(os.environ.get("VERIF_SEED", "0") or 0))
    a = ap.parse_args()
    os.chdir(leantools.VERIF)
    try:
        if a.what == "setup":
            info = leantools.prepare(None)
            if not info.get("driver_ok"):
                print(info.get("driver_log"))
                return 2
            rc, log = leantools._lake("AttrsModel")
            print(log[-3000:] if rc else "setup ok")
            return 0 if rc == 0 else 2
        if a.what == "replay":
            return runner.replay(a.path)
        return runner.run(a.what.upper(), a.tier, a.seed)
    except leantools.ToolFailure as e:
        print(f"TOOL-FAILURE: {e}")
        return 2
    except Exception:  # noqa: BLE001 -- a crash of the machinery is a tool failure, never a verdict
        import traceback
        print("TOOL-FAILURE: " + traceback.format_exc()[-3000:])
        return 2


if __name__ == "__main__":
    sys.exit(main())
