"""T3: translate the *actual* source of a generated `__init__` / `__attrs_init__` into the IR of
`Model/InitIR.lean` (JSON in the shape Lean's derived `FromJson` reads).

The translation is strict: it recognises exactly the statement forms `_attrs_to_init_script` emits and
turns anything else into `{"unknown": {"src": "<source line>"}}`, so that a change of the emitted text shows up
as a visible difference with the model generator's script and never as an exception or a silent skip.
Nothing is normalised, except that helper globals are recognised by the naming patterns the source uses
(`_INIT_FACTORY_PAT`, `_HASH_CACHE_FIELD` through the T1 extractor; the validator / attribute / converter
prefixes are read from `_attrs_to_init_script` and `Converter._get_global_name` with `ast`).  Inside the
statements for field `f` the helpers must name `f` itself.
"""
from __future__ import annotations

import ast
import inspect
import json
import textwrap

import tables_from_source as tfs

_PINNED = {"factory": "__attr_factory_%s", "hash_cache": "_attrs_cached_hash", "validator": "__attr_validator_",
           "attribute": "__attr_attribute_", "converter": "__attr_converter_"}
_PATTERNS = None


def _prefix_of_assign(fn, target):
    """`<target> = "<prefix>" + a.name` inside fn"""
    for n in ast.walk(fn):
        if (isinstance(n, ast.Assign) and len(n.targets) == 1 and isinstance(n.targets[0], ast.Name)
                and n.targets[0].id == target and isinstance(n.value, ast.BinOp) and isinstance(n.value.op, ast.Add)
                and isinstance(n.value.left, ast.Constant) and isinstance(n.value.left.value, str)):
            return n.value.left.value
    raise KeyError(target)


def patterns():
    """naming patterns of helper globals, from the source under test (pinned fallback per item)"""
    global _PATTERNS
    if _PATTERNS is not None:
        return _PATTERNS
    p = dict(_PINNED)
    broken = []
    try:
        vals, _ = tfs.extract()
        p["factory"] = json.loads(vals["initFactoryPat"])
        p["hash_cache"] = json.loads(vals["hashCacheField"])
    except Exception as e:  # noqa: BLE001
        broken.append(f"tables: {e}")
    try:
        mk = tfs.Src("_make.py")
        fn = mk.func("_attrs_to_init_script")
        p["validator"] = _prefix_of_assign(fn, "val_name")
        p["attribute"] = _prefix_of_assign(fn, "attr_name")
        g = mk.func("_get_global_name")
        ret = next(n for n in ast.walk(g) if isinstance(n, ast.Return))
        js = ret.value
        if not (isinstance(js, ast.JoinedStr) and len(js.values) == 2 and isinstance(js.values[0], ast.Constant)
                and isinstance(js.values[1], ast.FormattedValue)):
            raise ValueError("Converter._get_global_name shape")
        p["converter"] = js.values[0].value
    except Exception as e:  # noqa: BLE001
        broken.append(f"prefixes: {e}")
    p["broken"] = broken
    _PATTERNS = p
    return p


# ---------------------------------------------------------------------------------------------- matching
def _name(n, ident=None):
    return isinstance(n, ast.Name) and (ident is None or n.id == ident)


def _const_str(n):
    return n.value if isinstance(n, ast.Constant) and isinstance(n.value, str) else None


def _attr_dict_item(n):
    """`attr_dict['<f>']` -> f"""
    if isinstance(n, ast.Subscript) and _name(n.value, "attr_dict"):
        return _const_str(n.slice)
    return None


def _attr_dict_default(n):
    """`attr_dict['<f>'].default` -> f"""
    if isinstance(n, ast.Attribute) and n.attr == "default":
        return _attr_dict_item(n.value)
    return None


def _self_attr(n):
    """`self.<f>` -> f"""
    if isinstance(n, ast.Attribute) and _name(n.value, "self"):
        return n.attr
    return None


def _plain_call(n):
    """a call without keywords / starred arguments"""
    return (isinstance(n, ast.Call) and not n.keywords and not any(isinstance(a, ast.Starred) for a in n.args))


class _Tr:
    def __init__(self, params, pat):
        self.params = params
        self.pat = pat

    # right-hand sides ------------------------------------------------------------------------------
    def src(self, f, e):
        if _name(e):
            return {"param": {"name": e.id}} if e.id in self.params else None
        if _attr_dict_default(e) == f and f is not None:
            return "attrDefault"
        if _plain_call(e) and _name(e.func, self.pat["factory"] % (f,)):
            if len(e.args) == 0:
                return {"factory": {"takesSelf": False}}
            if len(e.args) == 1 and _name(e.args[0], "self"):
                return {"factory": {"takesSelf": True}}
        return None

    def rhs(self, f, e):
        """-> (src, conv) or None"""
        if _plain_call(e) and _name(e.func, self.pat["converter"] + f) and len(e.args) >= 1:
            extra = e.args[1:]
            shape = None
            if len(extra) == 0:
                shape = (False, False)
            elif len(extra) == 1 and _name(extra[0], "self"):
                shape = (True, False)
            elif len(extra) == 1 and _attr_dict_item(extra[0]) == f:
                shape = (False, True)
            elif len(extra) == 2 and _name(extra[0], "self") and _attr_dict_item(extra[1]) == f:
                shape = (True, True)
            s = self.src(f, e.args[0])
            if shape is None or s is None:
                return None
            return s, {"takesSelf": shape[0], "takesField": shape[1]}
        s = self.src(f, e)
        return None if s is None else (s, None)

    def target(self, st):
        """a store-shaped statement -> (tech, field, value expr) or None"""
        if isinstance(st, ast.Assign) and len(st.targets) == 1:
            t = st.targets[0]
            f = _self_attr(t)
            if f is not None:
                return "assign", f, st.value
            if isinstance(t, ast.Subscript) and _name(t.value, "_inst_dict") and _const_str(t.slice) is not None:
                return "instDict", _const_str(t.slice), st.value
        if isinstance(st, ast.Expr) and _plain_call(st.value) and _name(st.value.func, "_setattr") and len(st.value.args) == 2:
            f = _const_str(st.value.args[0])
            if f is not None:
                return "setattr", f, st.value.args[1]
        return None

    def store(self, st):
        t = self.target(st)
        if t is None:
            return None
        tech, f, e = t
        r = self.rhs(f, e)
        if r is None:
            return None
        return {"tech": tech, "field": f, "src": r[0], "conv": r[1]}

    # statements ------------------------------------------------------------------------------------
    def stmt(self, st):
        if isinstance(st, ast.Pass):
            return "pass"
        if isinstance(st, ast.Expr) and isinstance(st.value, ast.Call):
            c = st.value
            fn = c.func
            if _self_attr(fn) == "__attrs_pre_init__" and not any(isinstance(a, ast.Starred) for a in c.args):
                if all(_name(a) and a.id in self.params for a in c.args) and all(
                        k.arg is not None and _name(k.value, k.arg) and k.arg in self.params for k in c.keywords):
                    return {"preInit": {"pos": [a.id for a in c.args], "kw": [k.arg for k in c.keywords]}}
            if _self_attr(fn) == "__attrs_post_init__" and not c.args and not c.keywords:
                return "postInit"
            if (isinstance(fn, ast.Attribute) and fn.attr == "__init__" and _name(fn.value, "BaseException") and _plain_call(c)
                    and len(c.args) >= 1 and _name(c.args[0], "self")):
                fs = [_self_attr(a) for a in c.args[1:]]
                if all(f is not None for f in fs):
                    return {"excInit": {"fields": fs}}
        if isinstance(st, ast.Assign) and len(st.targets) == 1 and _name(st.targets[0]):
            tgt, v = st.targets[0].id, st.value
            if (tgt == "_setattr" and _plain_call(v) and _name(v.func, "_cached_setattr_get") and len(v.args) == 1
                    and _name(v.args[0], "self")):
                return "cachedSetattrDecl"
            if tgt == "_inst_dict" and _self_attr(v) == "__dict__":
                return "instDictDecl"
        t = self.target(st)
        if t is not None:
            tech, f, e = t
            if f == self.pat["hash_cache"] and isinstance(e, ast.Constant) and e.value is None:
                return {"hashCacheReset": {"tech": tech}}
            s = self.store(st)
            if s is not None:
                return {"store": {"s": s}}
        if isinstance(st, ast.If):
            tst = st.test
            if (isinstance(tst, ast.Compare) and len(tst.ops) == 1 and len(tst.comparators) == 1):
                op, rhs = tst.ops[0], tst.comparators[0]
                if (_name(tst.left) and tst.left.id in self.params and isinstance(op, ast.IsNot) and _name(rhs, "NOTHING")
                        and len(st.body) == 1 and len(st.orelse) == 1):
                    a, b = self.store(st.body[0]), self.store(st.orelse[0])
                    if a is not None and b is not None:
                        return {"ifNotNothing": {"param": tst.left.id, "thenS": a, "elseS": b}}
                if (isinstance(tst.left, ast.Attribute) and tst.left.attr == "_run_validators" and _name(tst.left.value, "_config")
                        and isinstance(op, ast.Is) and isinstance(rhs, ast.Constant) and rhs.value is True
                        and not st.orelse and st.body):
                    fs = [self.validator_line(s) for s in st.body]
                    if all(f is not None for f in fs):
                        return {"validators": {"fields": fs}}
        return None

    def validator_line(self, st):
        """`__attr_validator_f(self, __attr_attribute_f, self.f)` -> f"""
        if not (isinstance(st, ast.Expr) and _plain_call(st.value) and _name(st.value.func) and len(st.value.args) == 3):
            return None
        c = st.value
        f = _self_attr(c.args[2])
        if f is None or not _name(c.args[0], "self"):
            return None
        if c.func.id == self.pat["validator"] + f and _name(c.args[1], self.pat["attribute"] + f):
            return f
        return None


def _unknown(text):
    return {"unknown": {"src": " ".join(str(text).split())[:200]}}


def _same_code(fn_src, code):
    """does the source text compile to the code object that actually runs?"""
    try:
        mod = compile(fn_src, code.co_filename, "exec")
        inner = next(c for c in mod.co_consts if inspect.iscode(c))
    except Exception:  # noqa: BLE001
        return False
    return (inner.co_code == code.co_code and inner.co_names == code.co_names and inner.co_varnames == code.co_varnames
            and inner.co_consts == code.co_consts and inner.co_argcount == code.co_argcount
            and inner.co_kwonlyargcount == code.co_kwonlyargcount)


def parse_source(src, init_name="__init__"):
    """source text of one generated initializer -> InitScript JSON (never raises)"""
    pat = patterns()
    try:
        tree = ast.parse(textwrap.dedent(src))
        fns = [n for n in tree.body if isinstance(n, ast.FunctionDef)]
        if len(fns) != 1 or len(tree.body) != 1 or fns[0].name != init_name:
            return {"params": [], "body": [_unknown("not a single def " + init_name)]}
        fn = fns[0]
    except Exception as e:  # noqa: BLE001
        return {"params": [], "body": [_unknown(f"unparsable: {type(e).__name__}")]}
    a = fn.args
    pre = []
    if a.posonlyargs or a.vararg or a.kwarg or fn.decorator_list or not a.args or a.args[0].arg != "self":
        pre.append(_unknown("signature: " + ast.unparse(a)))
    params = []

    def dflt(e):
        if e is None:
            return "required"
        if _name(e, "NOTHING"):
            return "nothing"
        f = _attr_dict_default(e)
        if f is not None:
            return {"attrDict": {"field": f}}
        pre.append(_unknown("default: " + ast.unparse(e)))
        return "required"

    pos = a.args[1:] if a.args else []
    pos_d = [None] * (len(pos) - len(a.defaults)) + list(a.defaults) if len(a.defaults) <= len(pos) else [None] * len(pos)
    if len(a.defaults) > len(pos):
        pre.append(_unknown("default on self"))
    for p, d in zip(pos, pos_d):
        params.append({"name": p.arg, "kwOnly": False, "dflt": dflt(d)})
    for p, d in zip(a.kwonlyargs, a.kw_defaults):
        params.append({"name": p.arg, "kwOnly": True, "dflt": dflt(d)})
    tr = _Tr({p["name"] for p in params}, pat)
    body = list(pre)
    for st in fn.body:
        try:
            r = tr.stmt(st)
        except Exception:  # noqa: BLE001
            r = None
        body.append(r if r is not None else _unknown(ast.unparse(st)))
    return {"params": params, "body": body}


def parse_init(C, init_name="__init__"):
    """the real generated source of `C.<init_name>` -> InitScript JSON (never raises)"""
    try:
        fn = C.__dict__.get(init_name) or getattr(C, init_name)
        fn = inspect.unwrap(fn) if callable(fn) else fn
        src = textwrap.dedent(inspect.getsource(fn))
        code = fn.__code__
    except Exception as e:  # noqa: BLE001
        return {"params": [], "body": [_unknown(f"no source: {type(e).__name__}")]}
    script = parse_source(src, init_name)
    if not _same_code(src, code):
        script["body"].insert(0, _unknown("source text is not the code object that runs"))
    return script
