"""Regenerate corpus/C01/*.json and corpus/C02/*.json: hand-written class chains with a definition HISTORY, an
unusual exception root or unusual argument objects -- the shapes of the round-3 seeded changes, one per front-end.
Run from the worktree root:  /venv/bin/python harness/c01_mkcorpus.py   (real classes are built: needs attrs importable)"""
from __future__ import annotations

import json
import sys
from pathlib import Path

sys.path.insert(0, str(Path(__file__).resolve().parent))

import initbuild as ib  # noqa: E402
from props import c01, c02  # noqa: E402


def F(name, **kw):
    f = {"name": name, "default": "none", "init": True, "kw_only": False, "alias": None, "converter": None,
         "validators": 0, "on_setattr": "unset", "type": None, "conv_type": False}
    f.update(kw)
    return f


def C(name, api="attr.s", fields=(), **kw):
    cs = {"kind": "attrs", "name": name, "api": api, "slots": None, "frozen": None if api == "frozen" else False,
          "kw_only": False, "cache_hash": False, "pre": "none", "post": False, "cls_on_setattr": "unset",
          "fields": list(fields)}
    cs.update(kw)
    return cs


def H(classes, exc_root=None):
    classes[0]["exc_base"] = bool(exc_root)
    if exc_root:
        classes[0]["exc_root"] = exc_root
    return {"classes": classes, "validators_enabled": True}


def call(*pos, **kw):
    return {"pos": list(pos), "kw": [[k, v] for k, v in kw.items()]}


def c01_cases():
    out = []
    # -- a sibling subclass with class-level kw_only=True is created before the class under test (legacy collection:
    #    from depth 2 on the Attribute objects of grand-parent fields must not be shared with / changed by siblings)
    for tag, api, extra in (("attr-s", "attr.s", {}), ("make-class", "make_class", {}), ("these", "these", {}),
                            ("attr-s-frozen-slots", "attr.s", {"frozen": True, "slots": True}),
                            ("define", "define", {})):
        k = C("S0", api, [F("z", default="value")], kw_only=True, **extra)
        h = H([C("C0", api, [F("x")], **extra), C("C1", api, [F("y")], siblings=[k], **extra), C("C2", api, [F("w")], **extra)])
        out.append((f"sibling-kw-only-before-leaf-{tag}", c01.make_case(h, call("t1", "t2", "t3"))))
        # the leaf's parent re-checked after its subclasses exist
        k2 = C("S0", api, [F("z", default="value")], kw_only=True, **extra)
        d = C("S1", api, [F("w")], field_transformer="copy", **extra)
        h = H([C("C0", api, [F("x")], **extra), C("C1", api, [F("y")], siblings=[k2, d], **extra)])
        out.append((f"siblings-after-leaf-{tag}", c01.make_case(h, call("t1", "t2"))))
    # -- one decorator object, first applied to a class in the un-annotated field() style, then to an annotation-style class
    for tag, api, extra in (("define", "define", {}), ("define-dict", "define", {"slots": False}), ("frozen", "frozen", {}),
                            ("define-shared", "define", {})):
        fields = [F("x", type="int", annotated=True, bare=True),
                  F("y", type="int", annotated=True, bare=True, default="value"),
                  F("z", type="int", annotated=True, default="value", converter="plain"),
                  F("_p", type="int", annotated=True, default="factory")]
        deco = {"shared": tag.endswith("shared"), "warm": ["field"] if not tag.endswith("shared") else ["mixed", "ann"]}
        h = H([C("C0", api, fields, deco=deco, **extra)])
        out.append((f"decorator-object-reused-{tag}-positional", c01.make_case(h, call("t1", "t2", "t3", "t4"))))
        out.append((f"decorator-object-reused-{tag}-defaults", c01.make_case(h, call(x="t1"))))
        out.append((f"decorator-object-reused-{tag}-missing", c01.make_case(h, call())))
    # -- argument objects with unusual special methods for a factory-default parameter (and others)
    shapes = (
        ("attr-s", H([C("C0", "attr.s", [F("x", default="factory")])]), lambda v: call(v)),
        ("attr-s-frozen-slots", H([C("C0", "attr.s", [F("x", default="factory")], frozen=True, slots=True)]), lambda v: call(x=v)),
        ("define-kw-only", H([C("C0", "define", [F("y", default="value"), F("x", default="factory", kw_only=True)])]),
         lambda v: call("t1", x=v)),
        ("define-takes-self", H([C("C0", "define", [F("y", default="value"), F("x", default="factory_self")])]), lambda v: call("t1", v)),
        ("define-default-decorator-converter", H([C("C0", "define", [F("x", default="decorator", converter="c10")])]), lambda v: call(v)),
        ("make-class-private", H([C("C0", "make_class", [F("_p", default="factory")])]), lambda v: call(p=v)),
        ("these-mandatory-and-value", H([C("C0", "these", [F("x"), F("y", default="value", converter="plain")])]), lambda v: call(v, v)),
    )
    for tag, h, mk in shapes:
        for kind in sorted(ib.ODD_KINDS):
            out.append((f"odd-argument-{kind}-{tag}", c01.make_case(h, mk(kind + "1"))))
    # -- a TWIN chain (same module, qualnames, layout; helper objects EQUAL to the real chain's) is defined first
    for tag, api, extra in (("attr-s", "attr.s", {}), ("frozen", "frozen", {}), ("make-class", "make_class", {}),
                            ("define-dict", "define", {"slots": False}), ("these", "these", {})):
        fields = [F("x", default="value"), F("y", default="factory"), F("z", default="value", converter="plain"),
                  F("w", init=False, default="factory_self", converter="c01")]
        h = H([C("C0", api, fields, **extra)])
        h["classes"][0]["eq_twin"] = True
        out.append((f"equal-twin-first-{tag}-defaults", c01.make_case(h, call())))
        out.append((f"equal-twin-first-{tag}-passed", c01.make_case(h, call("t1", "t2", "t3"))))
        h2 = H([C("C0", api, [F("x", default="value")], **extra), C("C1", api, [F("y", default="factory", converter="plain")], **extra)])
        h2["classes"][0]["eq_twin"] = True
        out.append((f"equal-twin-first-{tag}-inherited", c01.make_case(h2, call())))
    # -- multiple inheritance: a plain mixin before / after a frozen parent; the class itself is not declared frozen
    for tag, api, extra in (("attr-s", "attr.s", {}), ("define-dict", "define", {"slots": False}), ("make-class", "make_class", {}),
                            ("these", "these", {}), ("define-slots", "define", {})):
        for pos in ("before", "after"):
            root = C("C0", api if api != "define" else "define", [F("x")], frozen=True, **extra)
            leaf = C("C1", api, [F("y", default="factory")], side_base={"pos": pos, "slots": False}, **extra)
            h = H([root, leaf])
            out.append((f"mixin-{pos}-frozen-parent-{tag}", c01.make_case(h, call("t1"))))
            out.append((f"mixin-{pos}-frozen-parent-{tag}-kw", c01.make_case(h, call(x="t1", y="t2"))))
    # -- a converting, hooked base <- plain class <- SLOTTED subclass whose own fields convert nothing: the inherited
    #    converter must still run exactly once (non-idempotent symbolic converters show a second application)
    plain = {"kind": "plain", "name": "P1", "plain_slots": False, "pre": "none", "post": False}
    for tag, base, leaf in (
            ("define-define", C("C0", "define", [F("x", converter="plain"), F("y", default="value", converter="c10")]),
             C("C2", "define", [F("w", default="factory")])),
            ("define-define-no-own-fields", C("C0", "define", [F("x", converter="c01")]), C("C2", "define", [])),
            ("attr-s-pipecv-slots", C("C0", "attr.s", [F("x", converter="plain")], cls_on_setattr="pipeCV"),
             C("C2", "attr.s", [F("w", default="value")], slots=True, cls_on_setattr="pipeCV")),
            ("attr-s-convert-make-class", C("C0", "attr.s", [F("x", converter="c11")], cls_on_setattr="convert"),
             C("C2", "make_class", [F("w", default="value")], slots=True, cls_on_setattr="convert", collect_by_mro=True)),
            ("define-chain", C("C0", "define", [F("x", converter="pipe", pipe=["plain", "c10"], pipe_style="list")]),
             C("C2", "define", [F("w", default="value")]))):
        h = H([base, dict(plain), leaf])
        assert not ib.confusing_plain(h["classes"]), tag
        out.append((f"plain-mid-slotted-leaf-{tag}", c01.make_case(h, call("t1"))))
        out.append((f"plain-mid-slotted-leaf-{tag}-kw", c01.make_case(h, call(x="t1"))))
    # -- instances of user SUBCLASSES of attr.Factory / attr.Converter / and_()'s class behave like the base types
    for tag, api in (("attr-s", "attr.s"), ("define", "define"), ("make-class", "make_class"), ("these", "these"), ("frozen", "frozen")):
        fields = [F("x", default="factory", helper_sub=True), F("y", default="factory_self", helper_sub=True, converter="c10"),
                  F("z", default="factory", helper_sub=True, init=False, converter="plain"),
                  F("w", default="factory_self", helper_sub=True, init=False, validators=2, v_and=True)]
        h = H([C("C0", api, fields)])
        out.append((f"helper-subclasses-{tag}-defaults", c01.make_case(h, call())))
        out.append((f"helper-subclasses-{tag}-passed", c01.make_case(h, call("t1", "t2"))))
    # -- one attrs.Converter OBJECT serves fields of different names in different classes (first a field `x` of a
    #    throw-away class, then `y` here): `y` goes through ITS converter, whatever `x` has here
    for tag, api in (("attr-s", "attr.s"), ("define", "define"), ("make-class", "make_class"), ("attr-s-frozen-slots", "attr.s")):
        extra = {"frozen": True, "slots": True} if tag.endswith("slots") else {}
        for xconv in ("plain", None):
            fields = [F("x", converter=xconv), F("y", default="value", converter="c01", conv_shared="g1", conv_prime="x"),
                      F("z", default="factory", converter="c11", conv_shared="g1", conv_prime="x")]
            h = H([C("C0", api, fields, **extra)])
            out.append((f"shared-converter-object-{tag}-x-{xconv}", c01.make_case(h, call("t1"))))
            out.append((f"shared-converter-object-{tag}-x-{xconv}-passed", c01.make_case(h, call("t1", "t2", "t3"))))
    # -- a look-alike twin (same module, qualname, source, callback objects; other metadata / plain defaults) first
    for tag, api in (("attr-s", "attr.s"), ("define", "define"), ("make-class", "make_class")):
        h = H([C("C0", api, [F("x", default="value"), F("y", default="value", converter="c01"), F("z", default="factory", validators=1)])])
        h["classes"][0]["cb_twin"] = True
        out.append((f"look-alike-twin-first-{tag}", c01.make_case(h, call())))
    # -- a subclass re-declares a base's field by a BARE annotation without value: mandatory, whatever the base keeps under
    #    that name (a slot descriptor for a slotted base)
    for tag, api in (("define", "define"), ("frozen", "frozen")):
        for bslots in (True, False):
            base = C("C0", api, [F("x")], slots=bslots)
            leaf = C("C1", api, [F("x", type="int", annotated=True, bare=True), F("w", type="int", annotated=True, bare=True, default="value")])
            h = H([base, leaf])
            out.append((f"bare-annotation-overrides-base-field-{tag}-base-slots-{bslots}", c01.make_case(h, call())))
            out.append((f"bare-annotation-overrides-base-field-{tag}-base-slots-{bslots}-passed", c01.make_case(h, call(x="t1"))))
    # -- declared defaults that are instances of str / int / bytes SUBCLASSES: the field holds the declared object
    for tag, api, extra in (("attr-s", "attr.s", {}), ("define", "define", {}), ("frozen", "frozen", {}), ("make-class", "make_class", {}),
                            ("these", "these", {}), ("attr-s-slots-kw", "attr.s", {"slots": True, "kw_only": True})):
        fields = [F("x", default="value", dflt_kind="strsub"), F("y", default="value", dflt_kind="intsub"),
                  F("z", default="value", dflt_kind="bytessub"), F("w", default="value", dflt_kind="intsub", converter="plain"),
                  F("a_b", default="value", dflt_kind="strsub", init=False)]
        h = H([C("C0", api, fields, **extra)])
        out.append((f"subclass-defaults-{tag}", c01.make_case(h, call())))
        h2 = H([C("C0", api, fields[:2], **{k: v for k, v in extra.items() if k != "kw_only"}), C("C1", api, [F("p", default="value", dflt_kind="bytessub")], **extra)])
        out.append((f"subclass-defaults-{tag}-inherited", c01.make_case(h2, call())))
    hb = H([C("C0", "define", [F("x", default="value", dflt_kind="intsub", type="int", annotated=True, bare=True),
                               F("y", default="value", dflt_kind="strsub", type="int", annotated=True, bare=True)])])
    out.append(("subclass-defaults-bare-annotations", c01.make_case(hb, call())))
    # -- hostile-but-valid callable OBJECTS as factory (both spellings, init=False too), converter, validator
    for kind in sorted(ib.CB_ODD):
        for tag, api in (("attr-s", "attr.s"), ("define", "define"), ("make-class", "make_class"), ("these", "these")):
            fields = [F("x", default="factory", factory_style="sugar", cb_odd=kind),
                      F("y", default="factory", factory_style="Factory", cb_odd=kind, converter="plain"),
                      F("z", default="factory_self", cb_odd=kind, kw_only=True),
                      F("w", default="factory", factory_style="sugar", cb_odd=kind, init=False, converter="c10"),
                      F("p", default="decorator", cb_odd=kind, init=False)]
            h = H([C("C0", api, fields)])
            out.append((f"hostile-callable-{kind}-{tag}-defaults", c01.make_case(h, call())))
            out.append((f"hostile-callable-{kind}-{tag}-passed", c01.make_case(h, call("t1", "t2", z="t3"))))
    return out


def c02_cases():
    out = []
    # -- auto_exc classes whose post-init hook re-stores init fields / calls BaseException.__init__ itself: args is
    #    compared AFTER construction, element by element, with the objects the fields hold
    for mode in ("swap", "excinit", "both"):
        for tag, api, extra in (("define", "define", {}), ("attr-s-slots", "attr.s", {"auto_exc": True, "slots": True}),
                                ("frozen", "frozen", {}), ("make-class", "make_class", {"auto_exc": True})):
            for root in ("Exception", "BaseException"):
                fields = [F("x"), F("y", default="value"), F("z", default="factory", converter="plain"), F("w", init=False, default="value")]
                h = H([C("C0", api, fields, post=True, post_mode=mode, **extra)], exc_root=root)
                out.append((f"post-init-{mode}-{root}-{tag}", c02.make_case(h, call("t1"), None, True)))
                out.append((f"post-init-{mode}-{root}-{tag}-kw", c02.make_case(h, call(x="t1", y="t2", z="t3"), None, True)))
        hp = H([C("C0", "attr.s", [F("x")], auto_exc=True, post=True, post_mode=mode), C("C1", "define", [F("y", default="value", kw_only=True)])],
               exc_root="ValueError")
        out.append((f"post-init-{mode}-inherited-hook", c02.make_case(hp, call("t1", y="t2"), None, True)))
    # -- subclasses of the helper types in the full trace (factory called, converter given what it asked for, every
    #    member of the composite run)
    hs = H([C("C0", "attr.s", [F("x", default="factory_self", helper_sub=True, converter="c11", validators=3, v_and=True),
                               F("y", default="factory", helper_sub=True, init=False, converter="pipe", pipe=["plain", "c10"], pipe_style="list")],
              post=True)])
    out.append(("helper-subclasses-trace", c02.make_case(hs, call(), None, True)))
    out.append(("helper-subclasses-trace-fault", c02.make_case(hs, call(), ["validator", "x", 1], True, "stop")))
    # -- a look-alike twin first: validators / takes_field converters must be handed THIS class's Attribute objects
    for tag, api in (("attr-s", "attr.s"), ("define", "define"), ("make-class", "make_class"), ("these", "these")):
        h = H([C("C0", api, [F("x", validators=2, converter="c01"), F("y", default="value", validators=1, v_deco=1, converter="c11")], post=True)])
        h["classes"][0]["cb_twin"] = True
        out.append((f"look-alike-twin-first-{tag}", c02.make_case(h, call("t1"), None, True)))
        out.append((f"look-alike-twin-first-{tag}-fault", c02.make_case(h, call("t1"), ["validator", "x", 1], True, "typeerror")))
    # -- every exception class through every kind of composite validator (list, and_(), validator= plus @x.validator)
    comp = H([C("C0", "attr.s", [F("x", validators=3), F("y", default="value", validators=2, v_and=True),
                                 F("z", default="value", validators=2, v_deco=1), F("w", default="value", validators=1)], post=True)])
    for exc in sorted(ib.FAULT_EXCS):
        for fld, idx in (("x", 0), ("x", 1), ("y", 0), ("y", 1), ("z", 0), ("z", 1), ("w", 0)):
            out.append((f"fault-{exc}-in-composite-{fld}{idx}", c02.make_case(comp, call("t1"), ["validator", fld, idx], True, exc)))
        out.append((f"fault-{exc}-in-post-init", c02.make_case(comp, call("t1"), ["post", "", 0], True, exc)))
    # -- K02a (repaired): a FALSY callable object given as the one validator of a field runs like any other validator
    for kind in ("falsy", "len0"):
        for tag, api in (("attr-s", "attr.s"), ("define", "define"), ("make-class", "make_class"), ("these", "these")):
            h = H([C("C0", api, [F("x", validators=1, cb_odd=kind), F("y", default="factory", validators=1, v_deco=1, cb_odd=kind),
                                 F("z", default="value", validators=1, cb_odd=kind, init=False)], post=True)])
            out.append((f"falsy-validator-{kind}-{tag}", c02.make_case(h, call("t1"), None, True)))
            out.append((f"falsy-validator-{kind}-{tag}-raises", c02.make_case(h, call("t1"), ["validator", "x", 0], True)))
            out.append((f"falsy-validator-{kind}-{tag}-switched-off", c02.make_case(h, call("t1"), None, False)))
        hi = H([C("C0", "attr.s", [F("x", validators=1, cb_odd=kind)]), C("C1", "define", [F("y", default="value", validators=1, cb_odd=kind)])])
        out.append((f"falsy-validator-{kind}-inherited", c02.make_case(hi, call("t1"), None, True)))
    # -- hostile-but-valid callable objects as validators / converters in the full trace
    for kind in sorted(ib.CB_ODD):
        h = H([C("C0", "attr.s", [F("x", converter="c10", validators=2, cb_odd=kind), F("y", default="factory", converter="plain", validators=1, cb_odd=kind)],
                 post=True)])
        out.append((f"hostile-callable-{kind}-trace", c02.make_case(h, call("t1"), None, True)))
    # -- converter chains mixing plain callables and Converter instances: every member once, left to right, each with
    #    what IT asked for; a member that raises ends the construction
    for chain in (["c10", "plain", "plain"], ["plain", "plain", "c10"], ["c11", "plain"], ["plain", "c01", "plain"],
                  ["plain", "plain"], ["c10", "c01"], ["plain", "c00", "plain"]):
        for style in ("list", "pipe"):
            tag = "-".join(chain) + "-" + style
            h = H([C("C0", "attr.s", [F("x", converter="pipe", pipe=chain, pipe_style=style, validators=1, conv_type=True),
                                      F("y", default="factory", converter="pipe", pipe=list(reversed(chain)), pipe_style=style)],
                     post=True)])
            out.append((f"converter-chain-{tag}", c02.make_case(h, call("t1"), None, True)))
            for i in range(len(chain)):
                out.append((f"converter-chain-{tag}-member-{i}-raises", c02.make_case(h, call("t1"), ["conv", "x", i], True)))
            out.append((f"converter-chain-{tag}-second-field-raises", c02.make_case(h, call("t1"), ["conv", "y", 1], True)))
    hd = H([C("C0", "define", [F("x", converter="pipe", pipe=["c10", "plain", "plain"], pipe_style="list", type="int", annotated=True)],
              pre="args")])
    out.append(("converter-chain-define-annotated", c02.make_case(hd, call(x="t1"), None, True)))
    # -- auto_exc classes whose ancestry does not pass through Exception: args = the init fields' stored values
    for root in ("BaseException", "KeyboardInterrupt", "SystemExit", "GeneratorExit", "ValueError"):
        for tag, api, extra in (("define", "define", {}), ("frozen", "frozen", {}), ("attr-s-slots", "attr.s", {"auto_exc": True, "slots": True}),
                                ("make-class", "make_class", {"auto_exc": True})):
            fields = [F("x", converter="plain"), F("y", default="value"), F("z", default="factory"),
                      F("w", init=False, default="value")]
            h = H([C("C0", api, fields, **extra)], exc_root=root)
            out.append((f"auto-exc-{root}-{tag}-positional", c02.make_case(h, call("t1"), None, True)))
            out.append((f"auto-exc-{root}-{tag}-keywords", c02.make_case(h, call(x="t1", y="t2"), None, True)))
        mid = H([C("C0", "attr.s", [F("x")], auto_exc=True), {"kind": "plain", "name": "P1", "plain_slots": False, "pre": "none", "post": False},
                 C("C2", "define", [F("y", default="value", kw_only=True)])], exc_root=root)
        out.append((f"auto-exc-{root}-below-plain-mixed", c02.make_case(mid, call("t1", y="t2"), None, True)))
    # -- one and_() validator object used by several fields / classes, one of which adds `@x.validator` methods
    two = H([C("C0", "attr.s", [F("p", validators=2, v_shared="g1"), F("_q", alias="q", validators=3, v_shared="g1", v_deco=1)])])
    out.append(("shared-and-two-fields-second-decorated", c02.make_case(two, call("t1", "t2"), None, True)))
    for tag, api in (("define", "define"), ("attr-s", "attr.s"), ("these", "these")):
        sib = C("S0", api, [F("y", default="value", validators=3, v_shared="g1", v_deco=1)])
        h = H([C("C0", api, [F("x", validators=2, v_shared="g1")], siblings=[sib])])
        out.append((f"shared-and-decorated-by-sibling-{tag}", c02.make_case(h, call("t1"), None, True)))
        sib2 = C("S0", api, [F("y", default="value", validators=2, v_shared="g1")])
        h = H([C("C0", api, [F("x", validators=3, v_shared="g1", v_deco=1)], siblings=[sib2]),
               C("C1", api, [F("z", default="value", validators=2, v_shared="g1")])])
        out.append((f"shared-and-decorated-by-ancestor-{tag}", c02.make_case(h, call("t1", "t2"), None, True)))
    # -- one attr.ib() object used by two classes, decorated further between the two uses
    for tag, api in (("these", "these"), ("make-class", "make_class"), ("attr-s", "attr.s")):
        sib = C("S0", api, [F("x", validators=2, ca_reuse=True, v_extra=1)])
        h = H([C("C0", api, [F("x", validators=2)], siblings=[sib])])
        out.append((f"counting-attr-reused-and-decorated-{tag}", c02.make_case(h, call("t1"), None, True)))
    # -- `@x.default` + `@x.validator` spellings, odd argument objects through converter / validators / pre-init
    h = H([C("C0", "define", [F("x", converter="c11", validators=2, v_deco=2), F("y", default="decorator", validators=1, v_and=True)],
             pre="args", post=True)])
    for kind in sorted(ib.ODD_KINDS):
        out.append((f"decorator-spellings-odd-{kind}", c02.make_case(h, call(kind + "1", kind + "2"), None, True)))
    out.append(("decorator-spellings-default-used", c02.make_case(h, call("t1"), None, True)))
    out.append(("decorator-spellings-fault-in-decorated-validator", c02.make_case(h, call("t1"), ["validator", "x", 1], True)))
    return out


def main():
    for pid, cases in (("C01", c01_cases()), ("C02", c02_cases())):
        d = Path("corpus") / pid
        d.mkdir(parents=True, exist_ok=True)
        for old in d.glob("*.json"):
            old.unlink()
        for why, case in cases:
            (d / f"{why}.json").write_text(json.dumps({"case": case, "why": why}, sort_keys=True) + "\n")
        print(pid, len(cases), "corpus cases")


if __name__ == "__main__":
    main()
