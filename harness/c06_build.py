"""Builder / observer for C06 (on_setattr).

A case carries a single-inheritance chain of class specifications in the JSON shape of the Lean
`Attrs.C06.Cls` (plus harness-only keys that pick the front-end).  `define_chain` creates the real classes
with instrumented, symbolic callbacks:

  user hook i        returns  "h<i>.<tag>(<v>)"                 event ("hook", tag, i, [self, attr.<tag>, v])
  converter of tag   returns  "conv.<tag>(<v>[,self][,attr.<tag>])"   event ("conv", tag, 0, [...])
  validator k of tag returns  nothing                           event ("validator", tag, k, [self, attr.<tag>, v])
  own __setattr__    stores with object.__setattr__             event ("own", name, 0, [v])

`tag` is the label of one field *definition* (`x@1` = x as defined in class 1); it travels in the Attribute's
metadata, so the trace shows which Attribute object a hook was handed.  A fault is "the p-th callback
invocation of assignment s raises UserError(<kind>.<tag>.<idx>)".
"""
from __future__ import annotations

import json
import sys

import attr
import attrs
from attr import setters

import common

TRACE: list = []
FAULT_POS = [None]        # position (0-based) within the current assignment whose callback raises
FAULT_KIND = ["user"]     # which exception type it raises


class HarnessBaseExc(BaseException):
    """a BaseException that is not an Exception (KeyboardInterrupt-like)"""


FAULT_TYPES = {
    "keyError": KeyError, "lookupError": LookupError, "attributeError": AttributeError, "typeError": TypeError,
    "valueError": ValueError, "stopIteration": StopIteration, "baseException": HarnessBaseExc,
}
SELF = [None]
RECORD = [True]


# --------------------------------------------------------------------------------------------- callbacks
class StrSub(str):
    """a str subclass instance equal to the plain string"""


# values that are EQUAL (==) to one another but distinguishable by type / identity: what is stored must be the object
# the hook chain returned, not something merely equal to it
_L1, _L2 = [1, 2], [1, 2]
EQ_VALUES = {"eq:1": 1, "eq:1.0": 1.0, "eq:True": True, "eq:0.0": 0.0, "eq:-0.0": -0.0,
             "eq:S": StrSub("eq:s"), "eq:L1": _L1, "eq:L2": _L2}        # "eq:s" is the plain string itself
EQ_CLASSES = [["eq:1", "eq:1.0", "eq:True"], ["eq:0.0", "eq:-0.0"], ["eq:s", "eq:S"], ["eq:L1", "eq:L2"]]


def pyval(tok):
    """the Python object a value token stands for: the token "None" is None itself, "" the empty (falsy) string,
    `eq:*` tokens are ints / floats / bools / str-subclass instances / distinct equal lists"""
    if tok in EQ_VALUES:
        return EQ_VALUES[tok]
    return None if tok == "None" else sys.intern(tok)


def canon(v):
    """exact type and identity, never equality"""
    if type(v) is str:
        return v
    if type(v) is StrSub:
        return "eq:S"
    if v is _L1:
        return "eq:L1"
    if v is _L2:
        return "eq:L2"
    if type(v) is bool:
        return "eq:True" if v else "other:bool"
    if type(v) is int:
        return "eq:1" if v == 1 else "other:int"
    if type(v) is float:
        import math
        if v == 1.0:
            return "eq:1.0"
        if v == 0.0:
            return "eq:-0.0" if math.copysign(1.0, v) < 0 else "eq:0.0"
        return "other:float"
    if isinstance(v, str):
        return "other:strsub"
    if v is None:
        return "None"
    if SELF[0] is not None and v is SELF[0]:
        return "self"
    if isinstance(v, attr.Attribute):
        return "attr." + str(v.metadata.get("tag", "?" + v.name))
    return "other:" + type(v).__name__


def _event(kind, field, idx, args):
    if not RECORD[0]:
        return
    pos = len(TRACE)
    TRACE.append({"id": {"kind": kind, "field": field, "idx": idx}, "args": [canon(a) for a in args]})
    if FAULT_POS[0] is not None and FAULT_POS[0] == pos:
        t = FAULT_TYPES.get(FAULT_KIND[0])
        if t is None:
            raise common.UserError(f"{kind}.{field}.{idx}")
        raise t(f"{kind}.{field}.{idx}")


_HOOKS: dict = {}


def user_hook(i):
    """one function object per identity: the same object is used wherever identity i is written"""
    h = _HOOKS.get(i)
    if h is None:
        def hook(inst, a, value, _i=i):
            tag = str(a.metadata.get("tag", "?" + a.name))
            _event("hook", tag, _i, [inst, a, value])
            if _i >= 900:
                return None                      # a hook that returns None: None is what gets stored
            return f"h{_i}.{tag}({canon(value)})"
        hook.__name__ = f"hook{i}"
        if 700 <= i < 900:
            # a hook OBJECT that is callable but falsy (700..799: __bool__ is False, 800..899: __len__ is 0):
            # a hook is whatever callable was given, its truthiness is not part of the contract
            hook = (_FalsyByBool if i < 800 else _FalsyByLen)(hook, i)
        h = _HOOKS[i] = hook
    return h


class _FalsyByBool:
    def __init__(self, fn, i):
        self._fn, self.__name__ = fn, f"falsy_hook{i}"

    def __call__(self, inst, a, value):
        return self._fn(inst, a, value)

    def __bool__(self):
        return False


class _FalsyByLen:
    def __init__(self, fn, i):
        self._fn, self.__name__ = fn, f"empty_hook{i}"

    def __call__(self, inst, a, value):
        return self._fn(inst, a, value)

    def __len__(self):
        return 0


def mk_converter(tag, kind):
    def conv(value, *extra):
        _event("conv", tag, 0, [value, *extra])
        out = f"conv.{tag}({canon(value)}"
        for e in extra:
            out += "," + canon(e)
        return out + ")"
    if kind == "plain":
        return conv
    return attr.Converter(conv, takes_self=kind[1] == "1", takes_field=kind[2] == "1")


def mk_validator(tag, idx):
    def validator(inst, a, value):
        _event("validator", tag, idx, [inst, a, value])
    return validator


def own_setattr(self, name, value):
    _event("own", name, 0, [value])
    object.__setattr__(self, name, value)


# --------------------------------------------------------------------------------------------- building
def setter_obj(s):
    if isinstance(s, dict):
        return user_hook(s["user"]["i"])
    return {"frozen": setters.frozen, "validate": setters.validate, "convert": setters.convert}[s]


def hook_obj(tree, memo):
    """a hook expression tree -> the callable: a leaf is the setter itself, a pipe node is `setters.pipe(*members)`.
    The same written sub-expression is the same OBJECT (so a hook / a pipe object can occur repeatedly)."""
    key = json.dumps(tree, sort_keys=True)
    o = memo.get(key)
    if o is None:
        if "leaf" in tree:
            o = setter_obj(tree["leaf"]["s"])
        else:
            o = setters.pipe(*[hook_obj(m, memo) for m in tree["pipe"]["l"]])
        memo[key] = o
    return o


def on_arg(on, form):
    """the `on_setattr=` argument for a written value: None / NO_OP / a bare callable (leaf) / for a pipe node at the
    top a list, a tuple or a `setters.pipe(...)` object of its members (nested pipes are always pipe objects)"""
    if on == "unset":
        return None
    if on == "noop":
        return setters.NO_OP
    tree = on["hook"]["h"]
    memo = {}
    if "leaf" in tree:
        return hook_obj(tree, memo)
    members = [hook_obj(m, memo) for m in tree["pipe"]["l"]]
    if form == "tuple":
        return tuple(members)
    if form == "pipe":
        return setters.pipe(*members)
    return members


def field_on_arg(f):
    return on_arg(f["onSet"], f.get("on_form", "list"))


def cls_on_arg(cs):
    return on_arg(cs["clsOn"], cs.get("on_form", "list"))


def conv_kind(f):
    c = f["conv"]
    if c is None:
        return None
    k = f.get("conv_kind")
    if k == "plain" and not c["takesSelf"] and not c["takesField"]:
        return "plain"
    return "c" + ("1" if c["takesSelf"] else "0") + ("1" if c["takesField"] else "0")


def field_obj(f, next_gen):
    kw = {"metadata": {"tag": f["tag"]}}
    ck = conv_kind(f)
    if ck:
        kw["converter"] = mk_converter(f["tag"], ck)
    nv = f["validators"]
    if nv == 1 and f.get("validator_form", "single") == "single":
        kw["validator"] = mk_validator(f["tag"], 0)
    elif nv >= 1:
        kw["validator"] = [mk_validator(f["tag"], i) for i in range(nv)]
    arg = field_on_arg(f)
    if arg is not None or f.get("pass_none"):
        kw["on_setattr"] = arg
    if f.get("init") is False:
        kw["init"] = False
    if f.get("dflt"):
        kw["default"] = "dflt." + f["tag"]
    return (attrs.field if next_gen else attr.ib)(**kw)


def make_prior(p, idx, k):
    """a class some decorator OBJECT is applied to before it is applied to the class under test"""
    base = object
    if p["base"] == "frozen":
        base = attr.s(frozen=True)(type("PriorFrozenBase", (object,), {"a": attr.ib(default=0)}))
    elif p["base"] == "hooked":
        base = attr.s(on_setattr=user_hook(990))(type("PriorHookedBase", (object,), {"a": attr.ib(default=0)}))
    elif p["base"] == "plain":
        base = type("PriorPlainBase", (object,), {})
    ns = {"__module__": "verif_c06"}
    if p.get("own"):
        ns["__setattr__"] = own_setattr
    fkw = {}
    if p.get("conv"):
        fkw["converter"] = mk_converter(f"prior{idx}.{k}", "plain")
    if p.get("val"):
        fkw["validator"] = mk_validator(f"prior{idx}.{k}", 0)
    ns["q"] = attr.ib(default="d", **fkw)
    return type(f"Prior{idx}_{k}", (base,), ns)


def _bases(cs, base, idx):
    """the chain parent, plus the optional plain mixin (a fresh class deriving from object) before or after it"""
    mx = cs.get("mixin")
    if mx is None:
        return (base,)
    M = type(f"M{idx}", (object,), {"__slots__": ()} if mx else {})
    if base is object:
        return (M,)
    return (M, base) if cs.get("mixin_first", True) else (base, M)


def build_class(cs, base, idx):
    name = f"K{idx}"
    ns = {"__module__": "verif_c06"}
    if cs["kind"] == "plain":
        if cs["slots"]:
            ns["__slots__"] = ()
        if cs.get("ownSetattr"):
            ns["__setattr__"] = own_setattr
        if cs.get("exc") and base is object and not cs["slots"]:
            base = Exception            # an exception hierarchy: for the model just a plain class with a __dict__
        return type(name, _bases(cs, base, idx), ns)
    api = cs.get("api") or ("define" if cs["isDefine"] else "attr.s")
    next_gen = cs["isDefine"]
    if cs["ownSetattr"]:
        ns["__setattr__"] = own_setattr
    kw = {}
    on = cls_on_arg(cs)
    if on is not None or cs.get("pass_none"):
        kw["on_setattr"] = on
    if next_gen:
        if not cs["slots"]:
            kw["slots"] = False
        elif cs.get("explicit"):
            kw["slots"] = True
        if not cs["autoDetect"]:
            kw["auto_detect"] = False
        if api == "frozen":
            deco = attrs.frozen
        else:
            deco = attrs.mutable if api == "mutable" else attrs.define
            if cs["frozenArg"]:
                kw["frozen"] = True
            elif cs.get("explicit"):
                kw["frozen"] = False
    else:
        deco = attr.s
        if cs["slots"]:
            kw["slots"] = True
        if cs["frozenArg"]:
            kw["frozen"] = True
        if cs["autoDetect"]:
            kw["auto_detect"] = True
        if cs.get("collect_by_mro"):
            kw["collect_by_mro"] = True
    # background options the model is independent of
    if cs.get("cache_hash"):
        kw["cache_hash"] = True
        kw["unsafe_hash"] = True
    if cs.get("kw_only"):
        kw["kw_only"] = True
    if cs.get("no_eq"):
        kw["eq"] = False
    if cs.get("no_weakref") and cs["slots"]:
        kw["weakref_slot"] = False
    fields = cs["fields"]
    bases = _bases(cs, base, idx)
    if api == "these":
        cls = type(name, bases, ns)
        return attr.s(these={f["name"]: field_obj(f, False) for f in fields}, **kw)(cls)
    if api == "make_class":
        body = {k: v for k, v in ns.items() if k != "__module__"}
        return attr.make_class(name, {f["name"]: field_obj(f, False) for f in fields}, bases=bases,
                               class_body=body, **kw)
    anns = {}
    for f in fields:
        ns[f["name"]] = field_obj(f, next_gen)
        if cs.get("annotated"):
            anns[f["name"]] = int
    if anns:
        ns["__annotations__"] = anns
    cls = type(name, bases, ns)
    wrap = deco(**kw)
    # decorator-object reuse: the same object returned by attr.s(...)/define(...) is first applied to other classes
    # (whatever happens to them, including a definition error, must not change what it does for this class)
    for k, prior in enumerate(cs.get("deco_prior") or []):
        try:
            wrap(make_prior(prior, idx, k))
        except Exception:  # noqa: BLE001
            pass
    return wrap(cls)


_CACHE: dict = {}


def define_chain(classes):
    """-> (list of real classes built so far, defErr or None); cached per chain"""
    key = json.dumps(classes, sort_keys=True)
    got = _CACHE.get(key)
    if got is not None:
        return got
    if len(_CACHE) > 4000:
        _CACHE.clear()
        common.purge_linecache()
    built, err = [], None
    base = object
    for i, cs in enumerate(classes):
        try:
            base = build_class(cs, base, i)
        except BaseException as e:  # noqa: BLE001
            err = [i, exc_json(e)]
            break
        built.append(base)
    _CACHE[key] = (built, err)
    return built, err


def exc_json(e):
    # the exact type for the injected kinds (a KeyError turned into its base class would be a different outcome)
    for name, t in FAULT_TYPES.items():
        if type(e) is t:
            return name
    if not isinstance(e, Exception):
        return "baseException"
    k = common.exc_kind(e)
    if k.startswith("user:"):
        return {"user": {"tok": k[5:]}}
    if k in ("frozenAttribute", "frozenInstance", "attributeError", "valueError", "typeError"):
        return k
    return "other"


# --------------------------------------------------------------------------------------------- expectations
def resolved_fields(classes):
    """fields of the last class as the specification reads them: own definitions replace inherited ones"""
    acc = []
    for cs in classes:
        if cs["kind"] != "attrs":
            continue
        own = {f["name"] for f in cs["fields"]}
        acc = [f for f in acc if f["name"] not in own] + list(cs["fields"])
    return acc


def probes(classes, history):
    fs = [f["name"] for f in resolved_fields(classes)]
    out = list(fs)
    for a in history:
        if a["name"] not in out:
            out.append(a["name"])
    return out


def alias(name):
    return name.lstrip("_")


# --------------------------------------------------------------------------------------------- observing
def _read(inst, names):
    vals = []
    for n in names:
        try:
            v = object.__getattribute__(inst, n)
        except AttributeError:
            vals.append([n, None])
            continue
        except BaseException as e:  # noqa: BLE001
            vals.append([n, "exc:" + common.exc_kind(e)])
            continue
        vals.append([n, canon(v)])
    return vals


def _ctor_value(C, fields, a):
    """value of field a.name on a fresh instance constructed with that field = a.value; no faults, not traced"""
    if not any(f["name"] == a["name"] and f.get("init", True) for f in fields):
        return None
    saved_self, saved_fault = SELF[0], FAULT_POS[0]
    RECORD[0] = False
    FAULT_POS[0] = None
    try:
        inst = C.__new__(C)
        SELF[0] = inst
        kw = {alias(f["name"]): (pyval(a["value"]) if f["name"] == a["name"] else "i." + f["name"])
              for f in fields if f.get("init", True)}
        inst.__init__(**kw)
        return canon(object.__getattribute__(inst, a["name"]))
    except BaseException:  # noqa: BLE001
        return None
    finally:
        RECORD[0] = True
        SELF[0], FAULT_POS[0] = saved_self, saved_fault


def observe(case):
    classes = case["classes"]
    built, err = define_chain(classes)
    if err is not None:
        return {"defErr": err, "steps": []}
    C = built[-1]
    fields = resolved_fields(classes)
    names = probes(classes, case["history"])
    fault = case.get("fault")
    prev = attr.validators.get_disabled()
    steps = []
    try:
        attr.validators.set_disabled(not case["runValidators"])
        inst = C.__new__(C)
        if case["preset"]:
            for f in fields:
                object.__setattr__(inst, f["name"], sys.intern("i." + f["name"]))
        SELF[0] = inst
        for i, a in enumerate(case["history"]):
            del TRACE[:]
            FAULT_POS[0] = fault[1] if fault and fault[0] == i else None
            FAULT_KIND[0] = case.get("faultKind") or "user"
            exc = None
            try:
                # equal tokens are the same object (interned), in a generated run and in a replay alike
                setattr(inst, a["name"], pyval(a["value"]))
            except BaseException as e:  # noqa: BLE001
                exc = exc_json(e)
            finally:
                FAULT_POS[0] = None
            trace = list(TRACE)
            del TRACE[:]
            RECORD[0] = False
            try:
                values = _read(inst, names)
            finally:
                RECORD[0] = True
            steps.append({"exc": exc, "trace": trace, "values": values,
                          "ctor": _ctor_value(C, fields, a) if exc is None else None})
    finally:
        attr.validators.set_disabled(prev)
        FAULT_POS[0] = None
        SELF[0] = None
        RECORD[0] = True
        del TRACE[:]
    return {"defErr": None, "steps": steps}
