#!/bin/sh
# usage: harness/lanes.sh <N> <jobfile> <outdir>
# Run the shell commands of <jobfile> (one per line, run with cwd = a private copy of /verif) on N parallel lanes.
# Each lane is a detached git worktree of /verif's HEAD under /tmp/lane/<k> with its own .lake, so that checks
# (which rebuild Generated/Tables.lean and the Lean library) never share build state.  Lines whose first word is
# the same "key=<x>" prefix are kept on one lane (used to keep one attrs scratch worktree per lane).
# Results: <outdir>/lane<k>.log; files the jobs wrote under seeded/ are copied back to /verif afterwards.
set -e
N=$1; JOBS=$2; OUT=$3
mkdir -p "$OUT" /tmp/lane
cd /verif
k=0
while [ $k -lt $N ]; do
  d=/tmp/lane/$k
  [ -d $d ] && git worktree remove --force $d 2>/dev/null || true
  rm -rf $d
  git worktree add -q --detach $d HEAD
  cp -r lean/AttrsModel/.lake $d/lean/AttrsModel/
  : > "$OUT/jobs$k.sh"
  k=$((k+1))
done
# distribute: same key -> same lane (hash of key), otherwise round-robin
python3 - "$N" "$JOBS" "$OUT" <<'PY'
import sys, zlib
n, jobs, out = int(sys.argv[1]), sys.argv[2], sys.argv[3]
lanes = [[] for _ in range(n)]
keys = {}
rr = 0
for line in open(jobs):
    line = line.strip()
    if not line:
        continue
    if line.startswith("key="):
        key, cmd = line.split(" ", 1)
        if key not in keys:
            keys[key] = min(range(n), key=lambda i: len(lanes[i]))
        lanes[keys[key]].append(cmd)
    else:
        lanes[rr % n].append(line); rr += 1
for i, l in enumerate(lanes):
    open(f"{out}/jobs{i}.sh", "w").write("\n".join(l) + "\n")
PY
k=0
while [ $k -lt $N ]; do
  ( cd /tmp/lane/$k && sh "$OUT/jobs$k.sh" > "$OUT/lane$k.log" 2>&1 ) &
  k=$((k+1))
done
wait
k=0
while [ $k -lt $N ]; do
  d=/tmp/lane/$k
  ( cd $d && git status --porcelain seeded | awk '{print $2}' ) | while read f; do
    [ -e "$d/$f" ] && mkdir -p "/verif/$(dirname $f)" && cp -r "$d/$f" "/verif/$f"
  done
  git worktree remove --force $d
  k=$((k+1))
done
echo lanes done
