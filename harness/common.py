"""Small helpers shared by property harness modules."""
from __future__ import annotations

import linecache

import attr
from attr import exceptions as aexc


class Truthy:
    def __bool__(self):
        return True

    def __repr__(self):
        return "TRUTHY"


class Falsy:
    def __bool__(self):
        return False

    def __repr__(self):
        return "FALSY"


TRUTHY, FALSY = Truthy(), Falsy()


class UserError(Exception):
    """raised by instrumented callbacks; carries a token so identity can be compared"""

    def __init__(self, token):
        super().__init__(token)
        self.token = token


def exc_kind(e: BaseException) -> str:
    """canonical exception enum (never compare messages)"""
    if isinstance(e, UserError):
        return f"user:{e.token}"
    for cls, name in (
        (aexc.FrozenAttributeError, "frozenAttribute"),
        (aexc.FrozenInstanceError, "frozenInstance"),
        (aexc.AttrsAttributeNotFoundError, "notFound"),
        (aexc.NotAnAttrsClassError, "notAnAttrsClass"),
        (aexc.DefaultAlreadySetError, "defaultAlreadySet"),
        (aexc.UnannotatedAttributeError, "unannotated"),
        (aexc.NotCallableError, "notCallable"),
        (TypeError, "typeError"),
        (ValueError, "valueError"),
        (AttributeError, "attributeError"),
        (KeyError, "keyError"),
        (RecursionError, "recursionError"),
    ):
        if isinstance(e, cls):
            return name
    return "other"


def attempt(thunk, ok=lambda v: v):
    """run thunk; ('ok', canon(value)) or ('exc', kind)"""
    try:
        return ("ok", ok(thunk()))
    except BaseException as e:  # noqa: BLE001
        return ("exc", exc_kind(e))


def purge_linecache():
    for k in [k for k in linecache.cache if k.startswith("<attrs generated")]:
        del linecache.cache[k]
