"""Shared builder for the initializer group (C01, C02, C05, C06, C12).

A *hierarchy spec* (`hspec`) is a JSON-able description of a single-inheritance chain of classes
(root first, the class under test last).  `build(hspec)` creates the real classes through the requested
front-end with instrumented callbacks that produce symbolic strings and log events, and `run_in(hspec)`
derives the Lean `Attrs.Init.RunIn` (expected fields from the *specification*, layout facts from the
real classes).  Values are plain strings (`t1`, `dflt.x`, `factory.x(self)`, `conv.x(t1,self)`) so the
observed values can be compared verbatim with the model's.

Harness-only dimensions the Lean model is independent of (all optional keys; absent = off):

  classes[0]["exc_root"]   which builtin the chain hangs off when `exc_base` is set (EXC_ROOTS; default Exception)
  cs["siblings"]           other subclasses of THIS class (class specs), created right after it -- i.e. before the
                           next class of the chain, or, for the leaf, before any call -- tagged "SIB."
  cs["deco"]               {"shared": bool, "warm": [style, ...]}: the class decorator OBJECT (attr.s(**kw) /
                           define(**kw) / frozen(**kw)) is first applied to throw-away classes of the given body
                           styles (WARM_STYLES) and, if shared, is one object per (api, options) and build
  cs["field_transformer"]  None | "identity" | "copy"  (behaviour-preserving transformers)
  f["v_deco"]              how many of the field's `validators` are added with `@x.validator` (the last ones)
  f["v_and"]               the `validator=` argument is an `and_(...)` object instead of a callable / list
  f["v_shared"]            group id: the `validator=` argument is ONE and_(...) object per (group, count) and build,
                           shared by every field (of the decoy, sibling, warm-up and real classes) naming it
  f["default"]=="decorator" the takes-self factory is installed with `@x.default`
  f["ca_reuse"], f["v_extra"]  (sibling fields only) the sibling re-uses the attr.ib()/field() OBJECT of the real chain's
                           field of that name after adding `v_extra` more `@x.validator` methods to it
  f["converter"]=="pipe"   a converter CHAIN: f["pipe"] = member kinds (plain | c00 | c10 | c01 | c11), given as a list
                           (f["pipe_style"]=="list") or as converters.pipe(...); each member is its own traced callback
                           (event `conv`, idx = position; results print `conv.x(..)`, `conv1.x(..)`, ...): MODELLED (Attr.pipe)
  cs["side_base"]          {"pos": "before"|"after", "slots": bool}: a second direct base, a field-less plain mixin listed
                           before / after the chain parent (multiple inheritance; layout facts are read from the real MRO)
  classes[0]["eq_twin"]    instead of the decoy chain a TWIN chain is defined first: same module, qualnames and layout, and
                           every helper object (default, factory, converter, validator, hook) EQUAL (`==`) to the real
                           chain's but distinguishable: callbacks are callable objects comparing equal per role and printing
                           a "TWIN." tag, defaults are instances of a str subclass that canonicalise with the tag
  f["dflt_kind"]           what object a plain default is: "str" (a plain string) | "strsub" | "intsub" | "bytessub" -- instances of
                           user subclasses of str / int / bytes without a __repr__ of their own; they canonicalise to
                           `dflt.<name>` only while they are of that exact type
  f["factory_style"]       "sugar" (`factory=f`) | "Factory" (`default=Factory(f)`) for a factory that does not take self
  f["cb_odd"]              the field's factory / converter / validator callables are hostile-but-valid callable OBJECTS:
                           falsy | len0 | boolraises | eqraises | eqany (only where attrs itself accepts them, CB_ODD_OK)
  cs["post_mode"]          what `__attrs_post_init__` does besides being traced: "swap" re-stores every init field that holds a
                           plain symbolic string as a NEW equal object, "excinit" calls BaseException.__init__(self, "post.msg")
                           on exception instances, "both"; the exception `args` observed afterwards name an element
                           `not-stored:<v>` when it is not the very object the field holds
  hspec["fault_exc"]       which exception class the faulty callback raises (FAULT_EXCS): an Exception subclass, StopIteration and
                           a subclass, StopAsyncIteration, GeneratorExit, a BaseException subclass, subclasses of
                           AttributeError / TypeError / KeyError; "propagates unchanged" = the very object raised comes out
  classes[0]["cb_twin"]    instead of the decoy chain a look-alike TWIN is defined first: same module, qualnames, source and the
                           VERY SAME callback objects (memoised per role), differing only in what the Attribute carries
                           (metadata, plain default objects); during construction every Attribute a callback is handed is
                           checked to be the class's own (`foreign-attr.<name>` otherwise)
  f["conv_shared"]         (converters of kind c01 / c11) group id: ONE attrs.Converter object per (group, kind) and build,
                           shared by every field naming it whatever the field's NAME; it names the field it converts from the
                           Attribute it is given; f["conv_prime"]: the name of the field of a throw-away class the object is
                           used for FIRST
  f["helper_sub"]          the Factory / Converter / and_() objects of the field are instances of user SUBCLASSES of attrs's public
                           helper types (SubFactory, SubConverter, SubAnd): wherever attrs dispatches on the type they must behave
                           like the base type (`factory=f` is then spelled `default=SubFactory(f)`)
  f["conv_bind"]=="defaults" the field's traced converter callables (chain members too) are NOT closures: they bind field name /
                           position through keyword defaults, so all of them share ONE code object (the `lambda v, n=n:` idiom)
                           and differ only in __kwdefaults__ / __annotations__ -- across fields, classes and the whole process
  f["hook_odd"]            the per-field on_setattr hook callables are callable OBJECTS that are falsy | len0 (HOOK_ODD_OK)
  call values              tokens of ODD_KINDS decode to objects with unusual __eq__/__ne__/__bool__/__hash__
"""
from __future__ import annotations

import copy
import inspect
import json
import re
import types

import attr
import attrs
from attr import setters

import common

TRACE: list = []          # events of the current call
FAULT = [None]            # (kind, field, idx) of the callback that must raise, or None
SELF = [None]             # the instance under construction / operated on
SELF_CLASS = [None]       # if set: every instance of exactly this class canonicalises to "self"
FIELD_NAMES = ["x", "y", "z", "_p", "p", "a_b", "w"]   # `_p` and `p` share the derived alias
UNSET = object()
_TAG = [""]               # prefix captured by callbacks at creation time ("DECOY." while a decoy chain is built)


STATS = {"sibling_errors": 0, "warm_errors": 0, "siblings": 0, "warm": 0}


# ------------------------------------------------------------------------------------------ odd argument objects
class Odd:
    """an argument object the initializer must treat as opaque: it is stored / handed to callbacks, never compared,
    truth-tested or hashed.  `token` is its protocol spelling (decode <-> _canon)."""
    __slots__ = ("token",)

    def __init__(self, token):
        self.token = token

    def __repr__(self):
        return self.token

    def __reduce__(self):
        return (decode, (self.token,))


class OddUse(RuntimeError):
    """raised when an odd argument is compared / truth-tested / hashed although it must not be"""


class EqAny(Odd):          # unittest.mock.ANY, wildcard matchers: equal to everything
    __slots__ = ()

    def __eq__(self, other):
        return True

    def __ne__(self, other):
        return False

    def __hash__(self):
        return 0


class NeAny(Odd):          # equal to nothing, not even itself (NaN-like)
    __slots__ = ()

    def __eq__(self, other):
        return False

    def __ne__(self, other):
        return True

    def __hash__(self):
        return 1


class CmpRaises(Odd):      # comparison is an error
    __slots__ = ()

    def __eq__(self, other):
        raise OddUse("__eq__")

    def __ne__(self, other):
        raise OddUse("__ne__")

    __hash__ = None


class BoolRaises(Odd):     # numpy style: element-wise comparison, ambiguous truth value
    __slots__ = ()

    def __eq__(self, other):
        return self

    def __ne__(self, other):
        return self

    def __bool__(self):
        raise ValueError("The truth value of an array is ambiguous")

    def __len__(self):
        raise ValueError("len() of unsized object")

    __hash__ = None


class Falsy(Odd):          # an empty container-like value
    __slots__ = ()

    def __bool__(self):
        return False

    def __len__(self):
        return 0


class Unhashable(Odd):
    __slots__ = ()
    __hash__ = None


ODD_KINDS = {"eqany": EqAny, "neany": NeAny, "cmpraises": CmpRaises, "boolraises": BoolRaises, "falsy": Falsy,
             "unhashable": Unhashable}
_ODD_NAMES = sorted(ODD_KINDS)
_ODD_RE = re.compile("^(" + "|".join(ODD_KINDS) + ")[0-9]*$")


DECODE_EXTRA = [None]     # optional str -> object: further protocol tokens (value SHAPES: attrs instances, dicts, lists; C12 only)
CANON_EXTRA = [None]      # optional object -> token | None: the way back for the objects DECODE_EXTRA made


def decode(v):
    """protocol value -> Python argument: the token "None" is the real None, the tokens of ODD_KINDS are objects with
    unusual special methods (both canonicalised back by _canon)"""
    if v == "None":
        return None
    if isinstance(v, str):
        m = _ODD_RE.match(v)
        if m:
            return ODD_KINDS[m.group(1)](v)
        if DECODE_EXTRA[0] is not None:
            return DECODE_EXTRA[0](v)
    return v


# ------------------------------------------------------------------------------------------ callbacks
def _canon(v):
    if isinstance(v, Odd):          # first: nothing below may compare / truth-test / hash such a value
        return v.token
    if CANON_EXTRA[0] is not None:
        t = CANON_EXTRA[0](v)
        if t is not None:
            return t
    if v is attr.NOTHING:
        return "NOTHING"
    if type(v) in _DFLT_TYPES:          # exact type: a plain str/int/bytes of equal value is NOT the declared default
        return v.canon
    if isinstance(v, TwinStr):
        return "TWIN." + str.__str__(v)
    if isinstance(v, str):
        return v
    if v is None:
        return "None"
    if SELF[0] is not None and v is SELF[0]:
        return "self"
    if SELF_CLASS[0] is not None and type(v) is SELF_CLASS[0]:
        return "self"
    if isinstance(v, attr.Attribute):
        if CHECK_ATTR[0] and SELF[0] is not None:
            try:
                own = getattr(attr.fields(type(SELF[0])), v.name, None)
            except Exception:  # noqa: BLE001
                own = v
            if own is not v:
                return "foreign-attr." + v.name        # another class's field definition (a look-alike's, an ancestor's)
        return "attr." + v.name
    return "other:" + type(v).__name__


class DfltStr(str):
    """a declared default that is an instance of a str SUBCLASS (no __repr__ of its own); `canon` = its protocol spelling"""


class DfltInt(int):
    pass


class DfltBytes(bytes):
    pass


_DFLT_TYPES = (DfltStr, DfltInt, DfltBytes)


class TwinStr(str):
    """a default value of the TWIN chain: equal to (and hashing like) the real chain's default string, but telling"""
    __slots__ = ()


_TWIN2 = [False]          # the look-alike twin of cb_twin mode is being built
_EQ = [False]             # eq-twin mode: callbacks are EqCallback objects instead of closures


class Fresh(str):
    """what a converter / factory callback returns: equal to (and canonicalised, printed, hashed like) the plain
    symbolic string, but a NEW object per invocation -- so that C01 can tell a value produced during this call from
    one produced earlier and shared between instances (plain str results of equal text could be the same object)"""
    __slots__ = ()


VETO = [None]             # optional rule (kind, field, idx, args, tag) -> bool: the callback raises if it says so
                          # (callbacks whose verdict depends on their arguments / the instance's state; C12 only)


class _StopSub(StopIteration):
    pass


class _BaseSub(BaseException):
    pass


class _AttrErrSub(AttributeError):
    pass


class _TypeErrSub(TypeError):
    pass


class _KeyErrSub(KeyError):
    pass


# what the faulty callback raises: the protocol is the same for every class ("propagates unchanged, no later step runs")
FAULT_EXCS = {"user": common.UserError, "stop": StopIteration, "stopsub": _StopSub, "stopasync": StopAsyncIteration,
              "generatorexit": GeneratorExit, "basesub": _BaseSub, "attributeerror": _AttrErrSub, "typeerror": _TypeErrSub,
              "keyerror": _KeyErrSub}
FAULT_EXC = ["user"]
RAISED = [None]           # the exception object the faulty callback raised
CHECK_ATTR = [False]      # during construction: an Attribute handed to a callback must be the instance's class's own


def _event(kind, field, idx, args, tag=""):
    TRACE.append({"id": {"kind": tag + kind, "field": field, "idx": idx}, "args": [_canon(a) for a in args]})
    if FAULT[0] == (kind, field, idx):
        RAISED[0] = FAULT_EXCS.get(FAULT_EXC[0], common.UserError)(f"{kind}.{field}.{idx}")
        raise RAISED[0]
    if VETO[0] is not None and VETO[0](kind, field, idx, args, tag):
        raise common.UserError(f"veto:{kind}.{field}.{idx}")


class EqCallback:
    """a callback OBJECT (eq-twin mode): compares equal to every callback of the same role -- kind, field, index,
    what it takes -- whichever chain it was made for; what it logs and returns carries its own chain's tag"""
    __slots__ = ("key", "tag")

    def __init__(self, key, tag):
        self.key, self.tag = key, tag

    def __eq__(self, other):
        return isinstance(other, EqCallback) and other.key == self.key

    def __ne__(self, other):
        return not self.__eq__(other)

    def __hash__(self):
        return hash(self.key)

    def __repr__(self):
        return "<callback %s>" % "/".join(map(str, self.key))


class EqFactory0(EqCallback):
    __slots__ = ()

    def __call__(self):
        _event("factory", self.key[1], 0, [], self.tag)
        return Fresh(f"{self.tag}factory.{self.key[1]}()")


class EqFactory1(EqCallback):
    __slots__ = ()

    def __call__(self, inst):
        _event("factory", self.key[1], 0, [inst], self.tag)
        return Fresh(f"{self.tag}factory.{self.key[1]}(self)")


def _conv_result(tag, name, idx, value, extra):
    out = f"{tag}conv{idx or ''}.{name}({_canon(value)}"
    for e in extra:
        out += "," + _canon(e)
    return Fresh(out + ")")


class EqConv(EqCallback):
    __slots__ = ()

    def __call__(self, value, *extra):
        _event("conv", self.key[1], self.key[2], [value, *extra], self.tag)
        return _conv_result(self.tag, self.key[1], self.key[2], value, extra)


class EqConvAnn(EqCallback):
    __slots__ = ()

    def __call__(self, value: ConvIn, *extra):
        _event("conv", self.key[1], self.key[2], [value, *extra], self.tag)
        return _conv_result(self.tag, self.key[1], self.key[2], value, extra)


class EqValidator(EqCallback):
    __slots__ = ()

    def __call__(self, inst, a, value):
        _event("validator", self.key[1], self.key[2], [inst, a, value], self.tag)


class EqHook(EqCallback):
    __slots__ = ()

    def __call__(self, inst, a, value):
        name, idx = self.key[1], self.key[2]
        _event("hook", name, idx, [inst, a, value], self.tag)
        return f"{self.tag}hook.{name}({_canon(value)})" if idx == 0 else f"{self.tag}hook{idx}.{name}({_canon(value)})"


def mk_factory(*a, **k):
    return _ctx_live().memo(('mk_factory', a, tuple(sorted(k.items()))), lambda: _mk_factory(*a, **k))


def _mk_factory(name, takes_self):
    tag = _TAG[0]
    if _EQ[0]:
        return (EqFactory1 if takes_self else EqFactory0)(("factory", name, 0, takes_self), tag)
    if takes_self:
        def factory(inst):
            _event("factory", name, 0, [inst], tag)
            return Fresh(f"{tag}factory.{name}(self)")
    else:
        def factory():
            _event("factory", name, 0, [], tag)
            return Fresh(f"{tag}factory.{name}()")
    return factory


def mk_converter(*a, **k):
    return _ctx_live().memo(('mk_converter', a, tuple(sorted(k.items())), _SUB[0]), lambda: _mk_converter(*a, **k))


def _bound_conv(name, idx, tag, ann):
    """the traced converter written the `lambda v, n=n: ...` way: NOT a closure -- every such function of the process
    shares ONE code object and differs only in __kwdefaults__ / __annotations__"""
    def conv(value, *extra, _n=name, _i=idx, _t=tag):
        _event("conv", _n, _i, [value, *extra], _t)
        return _conv_result(_t, _n, _i, value, extra)
    if ann:
        conv.__annotations__ = {"value": "ConvIn"}      # what `value: ConvIn` gives under `from __future__ import annotations`
    return conv


def _mk_converter(name, kind, ann, idx=0, odd=None, bind=None):
    """kind: plain | c00 | c10 | c01 | c11 (Converter(takes_self, takes_field)); idx: position in a converter chain;
    bind == "defaults": the callable binds its identity through default arguments instead of a closure"""
    ts, tf = (False, False) if kind == "plain" else (kind[1] == "1", kind[2] == "1")
    tag = _TAG[0]

    def conv(value, *extra):
        _event("conv", name, idx, [value, *extra], tag)
        return _conv_result(tag, name, idx, value, extra)

    if _EQ[0]:
        fn = (EqConvAnn if ann else EqConv)(("conv", name, idx, kind, bool(ann)), tag)
    elif bind == "defaults" and not (odd and odd in CB_ODD_OK["converter" if kind == "plain" else "Converter"] and not ann):
        fn = _bound_conv(name, idx, tag, ann)
    elif ann:
        # a first-parameter annotation the generated __init__ should pick up
        def conv_a(value: ConvIn, *extra):
            return conv(value, *extra)
        fn = conv_a
    else:
        fn = conv
        if odd and odd in CB_ODD_OK["converter" if kind == "plain" else "Converter"]:
            fn = CB_ODD[odd](fn)            # a hostile-but-valid callable object around the traced callback
    if kind == "plain":
        return fn
    return (SubConverter if _SUB[0] else attr.Converter)(fn, takes_self=ts, takes_field=tf)


def mk_validator(*a, **k):
    return _ctx_live().memo(('mk_validator', a, tuple(sorted(k.items()))), lambda: _mk_validator(*a, **k))


def _mk_validator(name, idx):
    tag = _TAG[0]
    if _EQ[0]:
        return EqValidator(("validator", name, idx), tag)

    def validator(inst, a, value):
        _event("validator", name, idx, [inst, a, value], tag)
    return validator


def mk_shared_validator(idx):
    """a validator that several fields (of several classes) use: it names the field it is called for"""
    def validator(inst, a, value):
        _event("validator", a.name, idx, [inst, a, value], "")
    return validator


class _Ctx:
    """objects that live as long as one `build` and are shared by all classes it creates (decoy, warm-up, sibling and
    real ones): and_(...) validator composites per (group, count), decorator objects per (api, options)"""

    def __init__(self):
        self.shared_v = {}
        self.decos = {}
        self.cas = {}          # field name -> the counting attribute a class of the real chain was last declared with
        self.cb_twin = False   # look-alike twin mode: untagged callbacks are memoised per role (twin and real chain share them)
        self.cb_cache = {}
        self.shared_c = {}

    def memo(self, key, make):
        """in look-alike twin mode: ONE callback object per role for the twin and the real chain"""
        if not (self.cb_twin and _TAG[0] == ""):
            return make()
        got = self.cb_cache.get(key)
        if got is None:
            got = self.cb_cache[key] = make()
        return got

    def shared_converter(self, group, kind, prime):
        """one attrs.Converter object per (group, kind): it names the field it converts from the Attribute it is given.
        It is FIRST used for a field called `prime` of a throw-away class (whatever a Converter object remembers
        from the first field it served shows when it serves a field of another name)"""
        got = self.shared_c.get((group, kind))
        if got is None:
            ts = kind[1] == "1"

            def conv(value, *extra):
                a = extra[-1]
                _event("conv", a.name, 0, [value, *extra], "")
                return _conv_result("", a.name, 0, value, extra)
            got = self.shared_c[(group, kind)] = attr.Converter(conv, takes_self=ts, takes_field=True)
            if prime:
                try:
                    attr.make_class("Prime", {prime: attr.ib(converter=got, default=None)})
                except Exception:  # noqa: BLE001 -- only the history matters
                    pass
        return got

    def shared_validator(self, group, m):
        got = self.shared_v.get((group, m))
        if got is None:
            got = self.shared_v[(group, m)] = attr.validators.and_(*[mk_shared_validator(i) for i in range(m)])
        return got


_CTX = [None]


_NO_CTX = None


def _ctx_live():
    global _NO_CTX
    if _CTX[0] is not None:
        return _CTX[0]
    if _NO_CTX is None:
        _NO_CTX = _Ctx()
    return _NO_CTX


def _ctx():
    return _CTX[0] if _CTX[0] is not None else _Ctx()     # outside `build`: nothing to share with


def mk_hook(*a, **k):
    return _ctx_live().memo(('mk_hook', a, tuple(sorted(k.items()))), lambda: _mk_hook(*a, **k))


def _mk_hook(name, idx=0):
    tag = _TAG[0]
    if _EQ[0]:
        return EqHook(("hook", name, idx), tag)

    def hook(inst, a, value):
        _event("hook", name, idx, [inst, a, value], tag)
        return f"{tag}hook.{name}({_canon(value)})" if idx == 0 else f"{tag}hook{idx}.{name}({_canon(value)})"
    return hook


def cls_hook(inst, a, value):
    _event("hook", a.name, 0, [inst, a, value])
    return f"hook.{a.name}({_canon(value)})"


def pre_noargs(self):
    SELF[0] = self
    _event("pre", "", 0, [])


def pre_args(self, *args, **kwargs):
    SELF[0] = self
    _event("pre", "", 0, [*args, *[f"{k}={_canon(v)}" for k, v in kwargs.items()]])


def post(self):
    _event("post", "", 0, [])


def _post_swap(self):
    """re-store every init field that holds a plain symbolic string (not the declared default object) as a NEW, equal
    object: the canonical observation is unchanged, but whatever was captured from the fields before is now stale"""
    for a in attr.fields(type(self)):
        if not a.init:
            continue
        try:
            v = getattr(self, a.name)
        except AttributeError:
            continue
        if type(v) in (str, Fresh) and v is not a.default:
            object.__setattr__(self, a.name, Fresh(v))


def post_swap(self):
    _event("post", "", 0, [])
    _post_swap(self)


def post_excinit(self):
    _event("post", "", 0, [])
    if isinstance(self, BaseException):
        BaseException.__init__(self, "post.msg")      # the hand-written-exception idiom; attrs sets args afterwards


def post_both(self):
    _event("post", "", 0, [])
    _post_swap(self)
    if isinstance(self, BaseException):
        BaseException.__init__(self, "post.msg")


POST_FNS = {None: post, "swap": post_swap, "excinit": post_excinit, "both": post_both}


# ------------------------------------------------------------------------------------------ building
HOOK_ODD_OK = ("falsy", "len0")     # a per-field hook attrs must call, never truth-test or measure


def _mk_odd_hook(name, idx, odd):
    h = mk_hook(name, idx)
    if odd not in HOOK_ODD_OK or _EQ[0]:
        return h
    return _ctx_live().memo(("odd_hook", name, idx, odd), lambda: CB_ODD[odd](h))


def _on_setattr_arg(kind, name, odd=None):
    return {
        "unset": None, "noop": setters.NO_OP, "hook": _mk_odd_hook(name, 0, odd),
        "hooks2": [_mk_odd_hook(name, 0, odd), _mk_odd_hook(name, 1, odd)],
        "validate": setters.validate, "convert": setters.convert,
    }[kind]


def _cls_on_setattr_arg(kind):
    return {
        "noop": setters.NO_OP, "hook": cls_hook, "validate": setters.validate, "convert": setters.convert,
        "pipeCV": [setters.convert, setters.validate],
    }[kind]


def _dflt_value(name, kind="str"):
    """the declared default of field `name`: a string carrying the chain's tag -- or an instance of a str / int / bytes
    subclass that canonicalises to that string; in the TWIN chain an object that is EQUAL to the real chain's default
    string but canonicalises with the tag"""
    if _EQ[0] and _TAG[0] == "TWIN.":
        return TwinStr(f"dflt.{name}")
    if _TWIN2[0]:
        return f"TWIN.dflt.{name}"          # the look-alike twin differs in its plain defaults (and metadata)
    canon = f"{_TAG[0]}dflt.{name}"
    if kind == "strsub":
        v = DfltStr("D/" + name)
    elif kind == "intsub":
        v = DfltInt(1000 + sum(map(ord, name)))
    elif kind == "bytessub":
        v = DfltBytes(b"D/" + name.encode())
    else:
        return canon
    v.canon = canon
    return v


# ------------------------------------------------------------------------------------------ hostile callables
class OddCallable:
    """a factory / converter / validator given as a callable OBJECT with unusual special methods: attrs must call it,
    never truth-test, measure or compare it"""
    __slots__ = ("fn",)

    def __init__(self, fn):
        self.fn = fn

    def __call__(self, *args):
        return self.fn(*args)


class CbFalsy(OddCallable):
    __slots__ = ()

    def __bool__(self):
        return False


class CbLen0(OddCallable):          # an (empty) pool / registry that is also the factory
    __slots__ = ()

    def __len__(self):
        return 0


class CbBoolRaises(OddCallable):
    __slots__ = ()

    def __bool__(self):
        raise ValueError("truth value of a callback")


class CbEqRaises(OddCallable):
    __slots__ = ()

    def __eq__(self, other):
        raise OddUse("__eq__")

    def __ne__(self, other):
        raise OddUse("__ne__")

    __hash__ = None


class CbEqAny(OddCallable):
    __slots__ = ()

    def __eq__(self, other):
        return True

    def __ne__(self, other):
        return False

    def __hash__(self):
        return 0


CB_ODD = {"falsy": CbFalsy, "len0": CbLen0, "boolraises": CbBoolRaises, "eqraises": CbEqRaises, "eqany": CbEqAny}
# where attrs accepts such an object and uses it (probed).  A falsy callable given as THE validator of a field runs like
# any other since the repair of K02a (`_attrs_to_init_script`, `setters.validate` / `setters.convert` judged a validator /
# converter by truthiness); what is still left out: attrib() itself truth-tests its `validator=` / `converter=` argument
# (`if validator and isinstance(...)`), so an object whose __bool__ RAISES cannot be given bare, and a converter whose
# __eq__ raises cannot be given at all.  role -> kinds
CB_ODD_OK = {
    "factory": ("falsy", "len0", "boolraises", "eqraises", "eqany"),
    "converter": ("falsy", "len0", "eqany"),
    "Converter": ("falsy", "len0", "boolraises", "eqany"),
    "validator": ("falsy", "len0", "eqraises", "eqany"),
    "validator_list": ("falsy", "len0", "boolraises", "eqraises", "eqany"),
}


def _odd_cb(f, role, fn):
    k = f.get("cb_odd")
    if not k or _EQ[0] or k not in CB_ODD_OK[role]:
        return fn
    return CB_ODD[k](fn)


class SubFactory(attr.Factory):
    """a user subclass of the public attr.Factory (e.g. one that carries documentation): still a factory default"""
    __slots__ = ()


class SubConverter(attr.Converter):
    __slots__ = ()


class SubAnd(type(attr.validators.and_())):
    """a user subclass of the composite validator class and_() returns"""


_SUB = [False]            # the field being declared uses the subclasses above


def _field_obj(f, next_gen):
    _SUB[0] = bool(f.get("helper_sub")) and not _EQ[0]
    try:
        return _field_obj_(f, next_gen)
    finally:
        _SUB[0] = False


def _field_obj_(f, next_gen):
    ctx = _ctx()
    if f.get("ca_reuse") and _TAG[0] == "SIB." and f["name"] in ctx.cas:
        # a sibling class takes the very attr.ib()/field() OBJECT a class of the real chain was declared with and
        # decorates it with further `@x.validator` methods before using it itself
        ca = ctx.cas[f["name"]]
        for i in range(f.get("v_extra") or 1):
            ca.validator(mk_validator(f["name"], 100 + i))
        return ca
    kw = {}
    d = f["default"]
    if d == "value":
        kw["default"] = _dflt_value(f["name"], f.get("dflt_kind", "str"))
    elif d == "factory":
        fac = _odd_cb(f, "factory", mk_factory(f["name"], False))
        if _SUB[0]:
            kw["default"] = SubFactory(fac)
        elif f.get("factory_style") == "Factory":
            kw["default"] = attr.Factory(fac)
        else:
            kw["factory"] = fac
    elif d == "factory_self":
        kw["default"] = (SubFactory if _SUB[0] else attr.Factory)(_odd_cb(f, "factory", mk_factory(f["name"], True)), takes_self=True)
    if not f.get("init", True):
        kw["init"] = False
    if f.get("kw_only"):
        kw["kw_only"] = True
    if f.get("alias"):
        kw["alias"] = f["alias"]
    if f.get("converter") == "pipe":
        # a converter chain: every member its own traced callback; only the first one's annotation can matter
        members = [mk_converter(f["name"], k, f.get("conv_type", False) and i == 0, idx=i, odd=f.get("cb_odd"), bind=f.get("conv_bind"))
                   for i, k in enumerate(f["pipe"])]
        kw["converter"] = members if f.get("pipe_style", "list") == "list" else attr.converters.pipe(*members)
    elif f.get("converter"):
        kw["converter"] = mk_converter(f["name"], f["converter"], f.get("conv_type", False), odd=f.get("cb_odd"), bind=f.get("conv_bind"))
    # the field's chain of `validators` callbacks: the first m through the `validator=` argument (a callable, a list,
    # an and_() object, or an and_() object shared with other fields), the rest with `@x.validator`
    nv = f.get("validators", 0)
    m = nv - min(max(f.get("v_deco") or 0, 0), nv)
    if m >= 1 and f.get("v_shared"):
        kw["validator"] = ctx.shared_validator(f["v_shared"], m)
    elif m >= 1 and f.get("v_and"):
        members = [_odd_cb(f, "validator_list", mk_validator(f["name"], i)) for i in range(m)]
        kw["validator"] = SubAnd(tuple(members)) if _SUB[0] else attr.validators.and_(*members)
    elif m == 1:
        kw["validator"] = _odd_cb(f, "validator", mk_validator(f["name"], 0))
    elif m >= 2:
        kw["validator"] = [_odd_cb(f, "validator_list", mk_validator(f["name"], i)) for i in range(m)]
    if f.get("on_setattr", "unset") != "unset":
        kw["on_setattr"] = _on_setattr_arg(f["on_setattr"], f["name"], f.get("hook_odd"))
    if f.get("eq") is False:
        kw["eq"] = False
    if f.get("type") and not f.get("annotated"):
        kw["type"] = TYPES[f["type"]]
    if _TWIN2[0]:
        kw["metadata"] = {"look-alike": f["name"]}
    if f.get("conv_shared") and f.get("converter") in ("c01", "c11") and not f.get("conv_type") and not _EQ[0]:
        kw["converter"] = ctx.shared_converter(f["conv_shared"], f["converter"], f.get("conv_prime"))
    ca = (attrs.field if next_gen else attr.ib)(**kw)
    for i in range(m, nv):
        ca.validator(_odd_cb(f, "validator", mk_validator(f["name"], i)))          # `@x.validator`
    if d == "decorator":
        ca.default(_odd_cb(f, "factory", mk_factory(f["name"], True)))            # `@x.default`
    if _TAG[0] == "":
        ctx.cas[f["name"]] = ca
    return ca


class ConvIn:  # the annotation used on converters' first parameter
    pass


TYPES = {"int": int, "str": str}


def _is_bare(f):
    """a field written as a bare annotation: only possible while it carries no option a field() would need
    (a later edit of the spec, e.g. by another property's generator, silently turns it into a field())"""
    return bool(f.get("bare") and f.get("annotated") and f.get("type") and f.get("converter") is None
                and not f.get("validators") and f.get("on_setattr", "unset") == "unset" and not f.get("alias")
                and f.get("init", True) and not f.get("kw_only") and f.get("default") in ("none", "value")
                and f.get("eq") is not False)


_DECO_KEYS = ("slots", "frozen", "cache_hash", "kw_only", "auto_exc", "init", "collect_by_mro", "unsafe_hash", "eq",
              "auto_detect", "weakref_slot", "getstate_setstate")


def _deco_kwargs(cs):
    kw = {}
    for k in _DECO_KEYS:
        if cs.get(k) is not None:
            kw[k] = cs[k]
    if cs.get("cls_on_setattr", "unset") != "unset":
        kw["on_setattr"] = _cls_on_setattr_arg(cs["cls_on_setattr"])
    if cs.get("field_transformer"):
        kw["field_transformer"] = {"identity": _ft_identity, "copy": _ft_copy}[cs["field_transformer"]]
    return kw


def _ft_identity(cls, fields):
    return fields


def _ft_copy(cls, fields):
    return [a.evolve() for a in fields]


WARM_STYLES = ("ann", "field", "annfield", "mixed")


def _warm_class(style, names, next_gen, k):
    """a throw-away class body: `ann` bare annotations with defaults only, `field` un-annotated field()s only,
    `annfield` annotated field()s, `mixed` bare annotations plus an un-annotated field()"""
    tag = _TAG[0]
    mk = attrs.field if next_gen else attr.ib
    ns, anns = {"__module__": "verif_synth"}, {}
    for i, n in enumerate(names):
        if style == "ann" or (style == "mixed" and i > 0):
            anns[n] = int
            ns[n] = f"{tag}dflt.{n}"
        elif style == "annfield":
            anns[n] = int
            ns[n] = mk(default=f"{tag}dflt.{n}")
        else:
            ns[n] = mk(default=f"{tag}dflt.{n}")
    if anns:
        ns["__annotations__"] = anns
    return type(f"W{k}", (object,), ns)


def _decorator(cs, api, kw):
    """the class decorator for `cs`: a new object per class, or -- cs["deco"] -- one that was applied to other
    classes before (warm-up bodies of several declaration styles; the same object for every class of this build
    with the same front-end and options)"""
    factory = {"attr.s": attr.s, "define": attrs.define, "frozen": attrs.frozen}[api]
    d = cs.get("deco")
    if not d:
        return factory(**kw)
    ctx = _ctx()
    key = None
    if d.get("shared"):
        key = json.dumps([api, {k: cs.get(k) for k in _DECO_KEYS + ("cls_on_setattr", "field_transformer")}], sort_keys=True)
        got = ctx.decos.get(key)
        if got is not None:
            return got
    deco = factory(**kw)
    names = []
    for f in cs.get("fields", []):
        if len(names) < 2 and f["name"].lstrip("_") not in [n.lstrip("_") for n in names]:
            names.append(f["name"])
    names = names or ["x"]
    old = _TAG[0]
    _TAG[0] = old + "WARM."
    try:
        for k, style in enumerate(d.get("warm", [])):
            STATS["warm"] += 1
            try:
                deco(_warm_class(style, names, api != "attr.s", k))
            except Exception:  # noqa: BLE001 -- only the history matters
                STATS["warm_errors"] += 1
    finally:
        _TAG[0] = old
    if key is not None:
        ctx.decos[key] = deco
    return deco


def _bases(cs, base, modname):
    """the direct bases: the chain parent, and -- cs["side_base"] -- a field-less plain mixin before or after it"""
    sb = cs.get("side_base")
    if not sb:
        return (base,)
    ns = {"__module__": modname}
    if sb.get("slots"):
        ns["__slots__"] = ()
    mixin = type("M_" + cs.get("name", "C"), (object,), ns)
    if base is object:
        return (mixin,)
    return (mixin, base) if sb.get("pos") == "before" else (base, mixin)


def build_class(cs, base, modname="verif_synth"):
    name = cs.get("name", "C")
    if cs["kind"] == "plain":
        ns = {}
        if cs.get("plain_slots"):
            ns["__slots__"] = ()
        if cs.get("pre", "none") != "none":
            ns["__attrs_pre_init__"] = pre_noargs if cs["pre"] == "noargs" else pre_args
        if cs.get("post"):
            ns["__attrs_post_init__"] = POST_FNS[cs.get("post_mode")]
        ns["__module__"] = modname
        return type(name, (base,), ns)

    api = cs.get("api", "attr.s")
    next_gen = api in ("define", "frozen")
    fields = cs.get("fields", [])
    ns = {"__module__": modname}
    if cs.get("pre", "none") != "none":
        ns["__attrs_pre_init__"] = pre_noargs if cs["pre"] == "noargs" else pre_args
    if cs.get("post"):
        ns["__attrs_post_init__"] = POST_FNS[cs.get("post_mode")]
    kw = _deco_kwargs(cs)
    if api in ("attr.s", "define", "frozen"):
        anns = {}
        for f in fields:
            if next_gen and _is_bare(f):
                # a bare annotation (`x: int` / `x: int = value`), no field() object (define / frozen only: attr.s
                # does not collect annotations unless asked to)
                anns[f["name"]] = TYPES[f["type"]]
                if f["default"] == "value":
                    ns[f["name"]] = _dflt_value(f["name"], f.get("dflt_kind", "str"))
                continue
            ns[f["name"]] = _field_obj(f, next_gen)
            if f.get("annotated") and f.get("type"):
                anns[f["name"]] = TYPES[f["type"]]
        if anns:
            ns["__annotations__"] = anns
        cls = type(name, _bases(cs, base, modname), ns)
        if api == "frozen":
            kw.pop("frozen", None)
        return _decorator(cs, api, kw)(cls)
    if api == "these":
        cls = type(name, _bases(cs, base, modname), ns)
        these = {f["name"]: _field_obj(f, False) for f in fields}
        return attr.s(these=these, **kw)(cls)
    if api == "make_class":
        body = {k: v for k, v in ns.items() if k != "__module__"}
        these = {f["name"]: _field_obj(f, False) for f in fields}
        cls = attr.make_class(name, these, bases=_bases(cs, base, modname), class_body=body, **kw)
        return cls
    raise ValueError(api)


_CACHE: dict = {}


def build(hspec):
    key = json.dumps(hspec["classes"], sort_keys=True)
    got = _CACHE.get(key)
    if got is not None:
        return got
    if len(_CACHE) > 1500:
        _CACHE.clear()
        common.purge_linecache()
    root = root_of(hspec)
    _CTX[0] = _Ctx()
    try:
        # A decoy chain with the same layout (same names, options, qualnames) but differently tagged callbacks
        # and defaults is defined FIRST: anything attrs memoises per layout / per name / per qualname and then
        # leaks into the real chain shows up as "DECOY." values or events in the observation.
        # eq-twin mode: the chain defined first is a TWIN -- every helper object it hands to attrs compares EQUAL to
        # the real chain's (callback objects per role, default strings of a str subclass) but tells in what it logs /
        # returns: whatever attrs re-uses from an earlier class because "everything is equal" shows as "TWIN.".
        _EQ[0] = bool(hspec["classes"][0].get("eq_twin"))
        _TAG[0] = "TWIN." if _EQ[0] else "DECOY."
        if hspec["classes"][0].get("cb_twin") and not _EQ[0]:
            # look-alike twin: same module, qualnames, source and the VERY SAME callback objects; only what the Attribute
            # objects carry (metadata, plain defaults) differs -- whatever is re-used from it shows as a foreign Attribute
            # handed to a callback or as a "TWIN." default
            _CTX[0].cb_twin = True
            _TWIN2[0] = True
            _TAG[0] = ""
        try:
            base = root
            for cs in hspec["classes"]:
                base = build_class(cs, base)
        except Exception:  # noqa: BLE001  -- the real build below reports definition errors
            pass
        finally:
            _TAG[0] = ""
            _TWIN2[0] = False
        base = root
        out = []
        for cs in hspec["classes"]:
            base = build_class(cs, base)
            out.append(base)
            # other subclasses of the class just made, with other class options / front-ends / fields, BEFORE the
            # next class of the chain is made (for the leaf: before it is used): whatever creating a subclass
            # leaves behind in its ancestors (shared Attribute objects, caches, flags) reaches the class under test
            for sib in cs.get("siblings", ()):
                STATS["siblings"] += 1
                _TAG[0] = "SIB."
                try:
                    build_class(sib, base)
                except Exception:  # noqa: BLE001 -- only the history matters; the generator aims at valid ones
                    STATS["sibling_errors"] += 1
                finally:
                    _TAG[0] = ""
    finally:
        _CTX[0] = None
        _TAG[0] = ""
        _EQ[0] = False
        _TWIN2[0] = False
    _CACHE[key] = out
    return out


EXC_ROOTS = {"Exception": Exception, "BaseException": BaseException, "KeyboardInterrupt": KeyboardInterrupt,
             "SystemExit": SystemExit, "GeneratorExit": GeneratorExit, "ValueError": ValueError}


def root_of(hspec):
    """the builtin the chain hangs off: object, or -- `exc_base` -- the exception class named by `exc_root`"""
    c0 = hspec["classes"][0]
    if not c0.get("exc_base"):
        return object
    return EXC_ROOTS.get(c0.get("exc_root") or "Exception", Exception)


# ------------------------------------------------------------------------------------------ expectations
def default_alias(name):
    return name.lstrip("_")


def is_next_gen(cs):
    return cs.get("api") in ("define", "frozen")


def _cbm(cs):
    v = cs.get("collect_by_mro")
    return is_next_gen(cs) if v is None else bool(v)


def expected_fields(hspec):
    """fields(leaf) predicted from the specification for a single-inheritance chain, following the two
    collection modes: `collect_by_mro` takes every ancestor's *own* definitions (nearest wins), the legacy
    mode takes the nearest ancestor's list including its inherited copies (which carry that ancestor's
    class-level kw_only).  Class-level kw_only of the collecting class applies to everything."""
    attrs_of = []          # per class of the chain: its __attrs_attrs__ as list of dicts (resolved for plain)
    for cs in hspec["classes"]:
        if cs["kind"] != "attrs":
            attrs_of.append(attrs_of[-1] if attrs_of else [])
            continue
        own = [dict(f, inherited=False) for f in cs.get("fields", [])]
        own_names = {f["name"] for f in own}
        base_attrs = []
        if _cbm(cs):
            for lst in attrs_of:                      # root ... nearest  == reversed(mro[1:-1])
                for a in lst:
                    if a["inherited"] or a["name"] in own_names:
                        continue
                    base_attrs.append(dict(a, inherited=True))
            seen, filtered = set(), []
            for a in reversed(base_attrs):
                if a["name"] in seen:
                    continue
                filtered.insert(0, a)
                seen.add(a["name"])
            base_attrs = filtered
        else:
            taken = set(own_names)
            for lst in reversed(attrs_of):            # nearest ... root  == mro[1:-1]
                for a in lst:
                    if a["name"] in taken:
                        continue
                    taken.add(a["name"])
                    base_attrs.append(dict(a, inherited=True))
        res = base_attrs + own
        if cs.get("kw_only"):
            res = [dict(a, kw_only=True) for a in res]
        else:
            res = [dict(a, kw_only=bool(a.get("kw_only"))) for a in res]
        attrs_of.append(res)
    return attrs_of[-1]


def leaf_frozen(hspec):
    return any(cs["kind"] == "attrs" and (cs.get("frozen") or cs.get("api") == "frozen") for cs in hspec["classes"])


def leaf_slots(cs):
    if cs.get("slots") is not None:
        return bool(cs["slots"])
    return is_next_gen(cs)


def _is_member_descriptor(cls, name):
    try:
        return isinstance(inspect.getattr_static(cls, name), types.MemberDescriptorType)
    except AttributeError:
        return False


def lean_attr(f, cls):
    d = f["default"]
    dflt = "none" if d == "none" else "value" if d == "value" else {"factory": {"takesSelf": d != "factory"}}
    conv = None
    pipe = None
    conv_type = bool(f.get("converter") and f.get("conv_type"))
    if f.get("converter") == "pipe":
        # pipe(): a plain callable if no member is a Converter, else Converter(pipe_converter, takes_self=True,
        # takes_field=True); its first-parameter annotation is the first member's, which only a plain callable shows
        ks = f["pipe"]
        wrapped = any(k != "plain" for k in ks)
        conv = {"takesSelf": wrapped, "takesField": wrapped}
        pipe = [{"takesSelf": k != "plain" and k[1] == "1", "takesField": k != "plain" and k[2] == "1"} for k in ks]
        conv_type = conv_type and ks[0] == "plain"
    elif f.get("converter"):
        k = f["converter"]
        conv = {"takesSelf": k != "plain" and k[1] == "1", "takesField": k != "plain" and k[2] == "1"}
    ons = f.get("on_setattr", "unset")
    return {
        "name": f["name"],
        "alias": f.get("alias") or default_alias(f["name"]),
        "dflt": dflt,
        "init": bool(f.get("init", True)),
        "kwOnly": bool(f.get("kw_only")),
        "conv": conv,
        "validators": f.get("validators", 0),
        "onSet": "unset" if ons == "unset" else "noop" if ons == "noop" else "hooks",
        "isSlot": _is_member_descriptor(cls, f["name"]),
        "type": (repr(TYPES[f["type"]]) if f.get("type") else None),
        "convType": ("'ConvIn'" if conv_type else None),
        "pipe": pipe,
    }


def run_in(hspec, fault=None):
    """the Lean RunIn + the Case-level isDefine / clsOnSet"""
    classes = build(hspec)
    C = classes[-1]
    leaf = hspec["classes"][-1]
    fields = expected_fields(hspec)
    pre = "none"
    post_ = False
    for cs in hspec["classes"]:
        if cs.get("pre", "none") != "none":
            pre = {"noargs": "noArgs", "args": "withArgs"}[cs["pre"]]
        if cs.get("post"):
            post_ = True
    auto_exc = leaf.get("auto_exc")
    if auto_exc is None:
        auto_exc = is_next_gen(leaf)
    cbm = leaf.get("collect_by_mro")
    if cbm is None:
        cbm = is_next_gen(leaf)
    bases = []
    for b in C.__mro__[1:-1]:
        # what the collector that will run sees of this class: `_collect_base_attrs` (collect_by_mro) reads the
        # class's *own* `__attrs_attrs__` (a plain class contributes nothing, so it is never recorded in
        # base_attr_map); the legacy `_collect_base_attrs_broken` still resolves it with getattr
        seen = b.__dict__.get("__attrs_attrs__", ()) if cbm else getattr(b, "__attrs_attrs__", [])
        bases.append({
            "hasSlotsDunder": "__slots__" in b.__dict__,
            "attrs": [[a.name, bool(a.inherited)] for a in seen],
        })
    run = {
        "cfg": {
            "frozen": leaf_frozen(hspec),
            "slots": leaf_slots(leaf),
            "cacheHash": bool(leaf.get("cache_hash")),
            "isExc": bool(auto_exc and hspec["classes"][0].get("exc_base")),
            "pre": pre,
            "post": post_,
            "clsHook": False,
            "runValidators": bool(hspec.get("validators_enabled", True)),
            "collectByMro": bool(cbm),
        },
        "attrs": [lean_attr(f, C) for f in fields],
        "own": [f["name"] for f in leaf.get("fields", [])],
        "bases": bases,
        "cacheIsSlot": _is_member_descriptor(C, "_attrs_cached_hash"),
        "fault": ({"kind": fault[0], "field": fault[1], "idx": fault[2]} if fault else None),
    }
    return run, is_next_gen(leaf), leaf.get("cls_on_setattr", "unset")


# ------------------------------------------------------------------------------------------ observing
def signature_obs(C, init_name):
    sig = inspect.signature(getattr(C, init_name))
    out = []
    for p in list(sig.parameters.values())[1:]:
        out.append({"name": p.name, "kwOnly": p.kind is inspect.Parameter.KEYWORD_ONLY,
                    "optional": p.default is not inspect.Parameter.empty})
    return out


def annotations_obs(C, init_name):
    ann = dict(getattr(getattr(C, init_name), "__annotations__", {}))
    ann.pop("return", None)
    return sorted([[k, v if isinstance(v, str) and False else repr(v)] for k, v in ann.items()])


def read_values(inst, names):
    vals = []
    for n in names:
        try:
            v = getattr(inst, n)
        except AttributeError:
            vals.append([n, None])
            continue
        except BaseException as e:  # noqa: BLE001
            vals.append([n, "exc:" + common.exc_kind(e)])
            continue
        vals.append([n, _canon(v)])
    return vals


def exc_enum(e):
    k = common.exc_kind(e)
    if k.startswith("user:"):
        return "user"
    return k if k in ("typeError", "attributeError", "frozenInstance", "valueError", "notFound") else "other"


def construct(hspec, call, fault=None, validators_enabled=True):
    """Run the initializer on a fresh instance; return (inst, Obs-dict)."""
    classes = build(hspec)
    C = classes[-1]
    leaf = hspec["classes"][-1]
    init_name = "__attrs_init__" if leaf.get("init") is False else "__init__"
    names = [f["name"] for f in expected_fields(hspec)]
    del TRACE[:]
    FAULT[0] = tuple(fault) if fault else None
    FAULT_EXC[0] = hspec.get("fault_exc") or "user"
    RAISED[0] = None
    inst = C.__new__(C)
    SELF[0] = inst
    exc = None
    prev = attr.validators.get_disabled()
    attr.validators.set_disabled(not validators_enabled)
    CHECK_ATTR[0] = True
    try:
        getattr(C, init_name)(inst, *[decode(v) for v in call["pos"]], **{k: decode(v) for k, v in call["kw"]})
    except BaseException as e:  # noqa: BLE001
        # "propagates unchanged": the very object the faulty callback raised, whatever its class
        exc = "user" if (RAISED[0] is not None and e is RAISED[0]) else exc_enum(e)
    finally:
        CHECK_ATTR[0] = False
        attr.validators.set_disabled(prev)
        FAULT[0] = None
        FAULT_EXC[0] = "user"
    trace = list(TRACE)
    del TRACE[:]
    exc_args = None
    if exc is None and isinstance(inst, BaseException):
        auto_exc = leaf.get("auto_exc")
        if auto_exc is None:
            auto_exc = is_next_gen(leaf)
        if auto_exc:
            # "args equals the tuple of the init fields' stored values": element i must be the very object field i
            # holds NOW (after the last construction step), not a snapshot taken earlier
            init_names = [f["name"] for f in expected_fields(hspec) if f.get("init", True)]
            exc_args = []
            for i, a in enumerate(inst.args):
                c = _canon(a)
                if len(inst.args) == len(init_names):
                    try:
                        if getattr(inst, init_names[i]) is not a:
                            c = "not-stored:" + c
                    except BaseException:  # noqa: BLE001 -- an unreadable field is reported through `values`
                        pass
                exc_args.append(c)
    cache = None
    if leaf.get("cache_hash"):
        try:
            cache = _canon(getattr(inst, "_attrs_cached_hash"))
        except AttributeError:
            cache = None
    obs = {
        "sig": signature_obs(C, init_name),
        "annotations": annotations_obs(C, init_name),
        "exc": exc,
        "values": read_values(inst, names),
        "trace": trace,
        "excArgs": exc_args,
        "cache": cache,
    }
    return inst, obs


# ------------------------------------------------------------------------------------------ generation
def repair_order(fields_in_order):
    """make the positional init parameters well-ordered (no mandatory after defaulted): later offenders
    become keyword-only"""
    had_default = False
    for f in fields_in_order:
        if not f.get("init", True) or f.get("kw_only"):
            continue
        if f["default"] != "none":
            had_default = True
        elif had_default:
            f["kw_only"] = True


PIPE_KINDS = ["plain", "plain", "plain", "c00", "c10", "c01", "c11"]


def gen_field(rng, name, frozen, rich=True, pipes=0.0, dflt_objs=False):
    f = {"name": name,
         "default": rng.choice(["none", "none", "value", "factory", "factory_self"]),
         "init": rng.random() > 0.2,
         "kw_only": rng.random() < 0.2,
         "alias": rng.choice([None, None, None, "al_" + name.strip("_")]),
         "converter": rng.choice([None, None, "plain", "c00", "c10", "c01", "c11"]) if rich else None,
         "validators": rng.choice([0, 0, 1, 2]) if rich else 0,
         "on_setattr": "unset" if frozen else rng.choice(["unset", "unset", "unset", "noop", "hook", "hooks2", "validate", "convert"]),
         "type": rng.choice([None, None, "int"]),
         "conv_type": rng.random() < 0.5,
         }
    if pipes and rich and rng.random() < pipes:
        # a converter chain of 2-3 members mixing plain callables and Converter(takes_self, takes_field) instances
        f["converter"] = "pipe"
        f["pipe"] = [rng.choice(PIPE_KINDS) for _ in range(rng.choice([2, 3, 3]))]
        f["pipe_style"] = rng.choice(["list", "list", "pipe"])
    if f["converter"] and rng.random() < 0.5:
        # the converter callables bind their identity through default arguments (one shared code object), not a closure
        f["conv_bind"] = "defaults"
    if f["on_setattr"] in ("hook", "hooks2") and rng.random() < 0.4:
        # the per-field hook callables are callable OBJECTS that are falsy / empty containers
        f["hook_odd"] = rng.choice(HOOK_ODD_OK)
    if f["default"] == "value" and dflt_objs:
        # the declared default object: a plain string, or an instance of a user subclass of str / int / bytes
        # (opt-in: consumers with a canonicalisation of their own only know strings)
        f["dflt_kind"] = rng.choice(["str", "str", "strsub", "intsub", "bytessub"])
    if f["default"] == "factory":
        f["factory_style"] = rng.choice(["sugar", "sugar", "Factory"])
    if f["converter"] in ("c01", "c11") and rng.random() < 0.5:
        # one Converter OBJECT for every field of the build naming the group, first used for a field of another name
        f["conv_shared"] = rng.choice(["g1", "g2"])
        f["conv_prime"] = rng.choice([n for n in FIELD_NAMES if n != name])
    if rng.random() < 0.2:
        # Factory / Converter / and_() objects that are instances of user subclasses of attrs's helper types
        f["helper_sub"] = True
    if rich and rng.random() < 0.15:
        # factory / converter / validator callables that are callable OBJECTS with unusual special methods
        f["cb_odd"] = rng.choice(sorted(CB_ODD))
    if f["default"] == "factory_self" and rng.random() < 0.4:
        f["default"] = "decorator"                      # the same field written with `@x.default`
    if f["validators"]:
        # how the chain of validators is written: argument (callable / list / and_ object, possibly one object shared
        # with other fields) and `@x.validator` methods
        f["v_deco"] = rng.choice([0, 0, 1, f["validators"]])
        f["v_and"] = rng.random() < 0.3
        f["v_shared"] = rng.choice([None, None, "g1", "g2"])
    return f


def _order_ok(exp):
    """no mandatory positional init parameter after a defaulted one"""
    had_default = False
    for e in exp:
        if not e.get("init", True) or e.get("kw_only"):
            continue
        if e["default"] != "none":
            had_default = True
        elif had_default:
            return False
    return True


def gen_sibling(rng, chain, like, k):
    """a class specification for ANOTHER subclass of chain[-1] (not part of the chain under test): either a twin of
    `like` (the class the chain continues with; the leaf itself below the leaf) with other class options, or a fresh
    class; always with options that differ from the usual (class-level kw_only, another front-end, a transformer)"""

    anc = [c for c in chain if c["kind"] == "attrs"]
    fr_chain = leaf_frozen({"classes": chain})
    hooked = any(f.get("on_setattr", "unset") not in ("unset", "noop") for c in anc for f in c.get("fields", []))
    if like is not None and like["kind"] == "attrs" and rng.random() < 0.55:
        cs = copy.deepcopy(like)
        cs.pop("siblings", None)
        cs.pop("exc_base", None)
        cs.pop("exc_root", None)
        cs["cache_hash"] = False
        cs.pop("unsafe_hash", None)
        cs.pop("init", None)
        cs["kw_only"] = (not cs.get("kw_only")) if rng.random() < 0.8 else bool(cs.get("kw_only"))
        if rng.random() < 0.4:
            cs["slots"] = rng.choice([None, True, False])
        if cs.get("api") in ("attr.s", "these", "make_class") and rng.random() < 0.25:
            cs["collect_by_mro"] = not cs.get("collect_by_mro")
        if rng.random() < 0.3:
            for f in cs.get("fields", []):
                if f.get("validators") and not f.get("bare"):
                    f["ca_reuse"], f["v_extra"] = True, rng.choice([1, 1, 2])
    else:
        api = rng.choice(["attr.s", "attr.s", "define", "frozen", "these", "make_class"])
        if api == "frozen" and hooked:
            api = "define"
        cs = {"kind": "attrs", "api": api, "slots": rng.choice([None, True, False]),
              "frozen": (None if api == "frozen" else bool(fr_chain and rng.random() < 0.5)),
              "kw_only": rng.random() < 0.5, "cache_hash": False, "pre": "none", "post": False,
              "cls_on_setattr": "unset", "fields": []}
        if api in ("attr.s", "these", "make_class") and rng.random() < 0.4:
            cs["collect_by_mro"] = True
        fr_here = fr_chain or api == "frozen"
        for n in rng.sample(FIELD_NAMES, rng.choice([0, 1, 1, 2])):
            f = gen_field(rng, n, fr_here)
            if f["default"] == "none" and not cs["kw_only"]:
                f["kw_only"] = True
            cs["fields"].append(f)
        # re-declare a validated field of the chain with the SAME attr.ib() object, decorated further
        cand = [f for c in anc for f in c.get("fields", []) if f.get("validators") and not _is_bare(f)
                and f["name"] not in [g["name"] for g in cs["fields"]]]
        if cand and rng.random() < 0.3:
            f = copy.deepcopy(rng.choice(cand))
            f["ca_reuse"], f["v_extra"] = True, rng.choice([1, 1, 2])
            if fr_here:
                f["on_setattr"] = "unset"
            cs["fields"].append(f)
    cs["name"] = f"S{k}"
    cs["field_transformer"] = rng.choice([None, None, "identity", "copy"])
    if cs.get("api") in ("attr.s", "define", "frozen") and rng.random() < 0.4:
        cs["deco"] = {"shared": True, "warm": []}
    else:
        cs.pop("deco", None)
    # keep the definition valid: parameter order and clashing parameter names
    try:
        exp = expected_fields({"classes": list(chain) + [cs]})
        if not _order_ok(exp):
            cs["kw_only"] = True
        own = {f["name"]: f for f in cs["fields"]}
        seen = set()
        for e in exp:
            if not e.get("init", True):
                continue
            al = e.get("alias") or default_alias(e["name"])
            if al in seen and e["name"] in own:
                own[e["name"]]["init"] = False
            seen.add(al)
    except Exception:  # noqa: BLE001
        pass
    for f in cs["fields"]:
        if f.get("bare") and (not f.get("init", True) or f.get("kw_only")):
            f.pop("bare")
    return cs


def _cls_hook_alive(chain):
    """does the last class of `chain` (not frozen) keep a class-level on_setattr hook -- `has_cls_on_setattr` as
    define.wrap / _ClassBuilder.__init__ compute it (Lean: `clsHookOf`), over ALL its fields, inherited ones included?"""
    cs = chain[-1]
    if leaf_frozen({"classes": chain}):
        return False
    try:
        fields = expected_fields({"classes": chain})
    except Exception:  # noqa: BLE001
        return False
    if not fields:
        return False
    any_v = any(f.get("validators", 0) for f in fields)
    any_c = any(f.get("converter") for f in fields)
    k = cs.get("cls_on_setattr", "unset")
    if is_next_gen(cs) and k == "unset":
        return bool(any_v or any_c)
    return {"hook": True, "pipeCV": True, "validate": bool(any_v), "convert": bool(any_c)}.get(k, False)


def _hook_free(cs):
    if cs["kind"] != "attrs":
        return True
    fr = bool(cs.get("frozen")) or cs.get("api") == "frozen"
    if cs.get("api") == "define" and not fr:
        return False
    if cs.get("cls_on_setattr", "unset") not in ("unset", "noop"):
        return False
    return all(f.get("on_setattr", "unset") in ("unset", "noop") for f in cs.get("fields", []))


def confusing_plain(classes):
    """indexes of the plain classes that make the chain "slotted confused" (test_slotted_confused; known finding K6 of
    C06): a plain class below an attrs class that installed a hooking __setattr__ hides that fact from a SLOTTED
    subclass, which looks at its direct bases only.  A dict class below the plain class finds the marker through the
    MRO and resets __setattr__; a slotted class whose OWN class-level hook is certainly alive writes its own
    __setattr__ and its initializer bypasses every hook: those shapes stay in."""
    out, kept = [], []
    for i, cs in enumerate(classes):
        if cs["kind"] == "plain" and not all(_hook_free(k) for k in kept):
            nxt = next((k for k in classes[i + 1:] if k["kind"] == "attrs"), None)
            if nxt is None or (leaf_slots(nxt) and not _cls_hook_alive(classes[: classes.index(nxt) + 1])):
                out.append(i)
                continue
        kept.append(cs)
    return out


def drop_confusing_plain(classes):
    bad = set(confusing_plain(classes))
    return [cs for i, cs in enumerate(classes) if i not in bad]


def gen_hspec(rng, depth=None, frozen=None, allow_exc=True, allow_plain=True, history=0.3, pipes=0.0, post_modes=0.0, dflt_objs=False):
    # a targeted family: hooked attrs class <- plain class <- dict attrs class (the reset of an inherited
    # attrs-made __setattr__ must look through the plain class)
    force_mid = depth is None and frozen is None and allow_plain and rng.random() < 0.08
    # ... and its slotted counterpart: a converting, hooked base <- plain class <- SLOTTED attrs class whose own
    # class-level hook is alive (so that it writes its own __setattr__ and its initializer bypasses every hook)
    mid_slots = bool(force_mid) and rng.random() < 0.45
    depth = 3 if force_mid else (depth or rng.choice([1, 1, 2, 2, 3]))
    any_frozen = False if force_mid else ((rng.random() < 0.35) if frozen is None else frozen)
    exc_base = allow_exc and rng.random() < 0.15
    classes = []
    pool = list(FIELD_NAMES)
    frozen_so_far = False
    for lvl in range(depth):
        is_leaf = lvl == depth - 1
        if not is_leaf and allow_plain and not (force_mid and lvl == 0) and (rng.random() < 0.15 or (force_mid and lvl == 1)):
            classes.append({"kind": "plain", "name": f"P{lvl}", "plain_slots": rng.random() < 0.3,
                            "pre": "none", "post": False})
            continue
        api = rng.choice(["attr.s", "attr.s", "define", "define", "frozen", "these", "make_class"])
        fr = False
        if any_frozen and (is_leaf and not frozen_so_far or rng.random() < 0.5):
            fr = True
        if api == "frozen":
            fr = True
        if frozen is False:
            fr = False
            if api == "frozen":
                api = "define"
        frozen_here = fr or frozen_so_far
        cs = {"kind": "attrs", "name": f"C{lvl}", "api": api,
              "slots": rng.choice([None, True, False]),
              "frozen": bool(fr) if api != "frozen" else None,
              "kw_only": rng.random() < 0.12,
              "cache_hash": False,
              "pre": rng.choice(["none", "none", "none", "noargs", "args"]),
              "post": rng.random() < 0.3,
              "cls_on_setattr": "unset",
              "fields": []}
        if api in ("attr.s", "these", "make_class") and rng.random() < 0.5:
            cs["collect_by_mro"] = True
        if cs["post"] and post_modes and rng.random() < post_modes:
            cs["post_mode"] = rng.choice(["swap", "excinit", "both"])      # a post-init hook that touches fields / args
        if not frozen_here:
            cs["cls_on_setattr"] = rng.choice(["unset", "unset", "unset", "noop", "hook", "validate", "convert", "pipeCV"])
        if exc_base:
            cs["auto_exc"] = rng.choice([None, True, False]) if api in ("define", "frozen") else rng.choice([None, True])
        nf = rng.choice([0, 1, 2, 2, 3])
        if force_mid and lvl == 0:
            nf = max(nf, 1)
            cs["cls_on_setattr"] = rng.choice(["hook", "hook", "validate", "convert", "pipeCV"])
            if mid_slots:
                cs["cls_on_setattr"] = "unset" if api in ("define", "frozen") and rng.random() < 0.5 else rng.choice(["convert", "pipeCV"])
            if api == "frozen":
                cs["api"] = api = "define"
                cs["frozen"] = False
        if force_mid and is_leaf and mid_slots:
            cs["slots"] = True if api not in ("define", "frozen") else rng.choice([None, True])
            if api == "frozen":
                cs["api"] = api = "define"
                cs["frozen"] = False
            cs["cls_on_setattr"] = "unset" if api == "define" and rng.random() < 0.6 else rng.choice(["convert", "pipeCV", "hook"])
        elif force_mid and is_leaf:
            cs["slots"] = False
            if api == "frozen":
                cs["api"] = api = "define"
                cs["frozen"] = False
            if rng.random() < 0.7:
                cs["cls_on_setattr"] = "noop" if api == "define" else "unset"
        if is_leaf and rng.random() < 0.1:
            cs["init"] = False       # the initializer is then provided as __attrs_init__
        names = rng.sample(pool, nf)
        # re-declaring an ancestor's field name is where collection, slots and defaults interact
        anc = [f["name"] for k in classes if k["kind"] == "attrs" for f in k.get("fields", [])]
        if anc and names and rng.random() < 0.35:
            n0 = rng.choice(anc)
            if n0 not in names:
                names[rng.randrange(len(names))] = n0
        if "_p" in names and "p" not in names and rng.random() < 0.3:
            names.append("p")
        annotated = api in ("define", "frozen") and rng.random() < 0.5
        for n in names:
            f = gen_field(rng, n, frozen_here, pipes=pipes, dflt_objs=dflt_objs)
            if annotated:
                f["annotated"] = True
                f["type"] = f["type"] or "int"
                if (f["converter"] is None and f["validators"] == 0 and f["on_setattr"] == "unset" and f["alias"] is None
                        and f["init"] and not f["kw_only"] and f["default"] in ("none", "value") and rng.random() < 0.6):
                    f["bare"] = True
            elif api in ("define", "frozen") and f.get("type"):
                f["annotated"] = False
            if mid_slots and lvl == 0 and not cs["fields"] and f["converter"] is None:
                f["converter"] = rng.choice(["plain", "c00", "c10", "c01", "c11"])    # the base converts
                f.pop("bare", None)
            if mid_slots and is_leaf and rng.random() < 0.6:
                f["converter"], f["validators"] = None, 0                             # the leaf's own fields do not
                for k in ("pipe", "pipe_style", "v_deco", "v_and", "v_shared"):
                    f.pop(k, None)
            cs["fields"].append(f)
        # hash caching needs a generated hash and a generated init, and no auto_exc exception class
        auto_exc_eff = cs.get("auto_exc") if cs.get("auto_exc") is not None else api in ("define", "frozen")
        if rng.random() < 0.2 and not (exc_base and auto_exc_eff) and cs.get("init") is not False:
            cs["cache_hash"] = True
            cs["unsafe_hash"] = True
        classes.append(cs)
        frozen_so_far = frozen_here
    if classes[-1]["kind"] != "attrs":
        classes[-1] = {"kind": "attrs", "name": "CL", "api": "attr.s", "slots": None, "frozen": False, "kw_only": False,
                       "cache_hash": False, "pre": "none", "post": False, "cls_on_setattr": "unset", "fields": []}
    classes = drop_confusing_plain(classes)
    classes[0]["exc_base"] = exc_base
    if exc_base:
        # the exception ancestry need not pass through Exception
        classes[0]["exc_root"] = rng.choice(["Exception", "Exception", "BaseException", "KeyboardInterrupt", "SystemExit",
                                             "GeneratorExit", "ValueError"])
    h = {"classes": classes, "validators_enabled": True}
    # repair definition-time conflicts so that the class defines (C15 checks the rejections themselves)
    fr_seen = False
    for cs in classes:
        if cs["kind"] != "attrs":
            continue
        fr_seen = fr_seen or bool(cs.get("frozen")) or cs.get("api") == "frozen"
        if fr_seen:
            cs["cls_on_setattr"] = "unset"
    for i in range(len(classes)):
        if classes[i]["kind"] != "attrs":
            continue
        sub = {"classes": classes[: i + 1]}
        exp = expected_fields(sub)
        # the repair must be made on the defining specs
        by_name = {}
        for cs in classes[: i + 1]:
            for f in cs.get("fields", []):
                by_name[(cs["name"], f["name"])] = f
        lookup = {}
        for cs in classes[: i + 1]:
            if cs["kind"] == "attrs":
                for f in cs.get("fields", []):
                    lookup[f["name"]] = f
        ordered = [lookup[e["name"]] for e in exp]
        # two init fields must not share a parameter name (`_p` and `p`): the later one leaves the signature
        seen_alias = set()
        for f in ordered:
            if not f.get("init", True):
                continue
            al = f.get("alias") or default_alias(f["name"])
            if al in seen_alias:
                f["init"] = False
            else:
                seen_alias.add(al)
        # class-level kw_only makes everything keyword-only: nothing to repair then
        if not classes[i].get("kw_only"):
            had_default = False
            for e, f in zip(exp, ordered):
                if not f.get("init", True) or e["kw_only"]:
                    continue
                if f["default"] != "none":
                    had_default = True
                elif had_default:
                    f["kw_only"] = True
        if leaf_frozen(sub):
            for f in ordered:
                f["on_setattr"] = "unset"
    # a bare annotation cannot say init=False / kw_only: fields the repairs above changed get a field() object
    for cs in classes:
        for f in cs.get("fields", []):
            if f.get("bare") and (not f.get("init", True) or f.get("kw_only")):
                f.pop("bare")
    # definition HISTORY (the model is independent of it): decorator objects that were applied to other classes
    # before, behaviour-preserving field transformers, and other subclasses of each class of the chain created
    # before the chain continues
    if history:
        for i, cs in enumerate(classes):
            if cs["kind"] == "attrs" and cs.get("api") in ("attr.s", "define", "frozen") and rng.random() < history:
                cs["deco"] = {"shared": rng.random() < 0.5,
                              "warm": [rng.choice(WARM_STYLES) for _ in range(rng.choice([0, 1, 1, 2]))]}
            if cs["kind"] == "attrs" and rng.random() < history / 4:
                cs["field_transformer"] = rng.choice(["identity", "copy"])
        for i, cs in enumerate(classes):
            if rng.random() < history:
                like = classes[i + 1] if i + 1 < len(classes) else cs
                cs["siblings"] = [gen_sibling(rng, classes[: i + 1], like, k) for k in range(rng.choice([1, 1, 2]))]
        # multiple inheritance: a field-less plain mixin as a second direct base, before or after the chain parent
        for cs in classes:
            if cs["kind"] == "attrs" and rng.random() < history / 2:
                cs["side_base"] = {"pos": rng.choice(["before", "before", "after"]), "slots": rng.random() < 0.5}
        # the chain defined first is an equal-comparing twin instead of a decoy
        r_tw = rng.random()
        if r_tw < history * 0.7:
            classes[0]["eq_twin"] = True
        elif r_tw < history * 1.4:
            classes[0]["cb_twin"] = True
    return h


def gen_call(rng, hspec, malformed=0.15, odd=0.0):
    """a call shape for the leaf's initializer: which optional parameters are supplied, positionally or by
    keyword; sometimes malformed.  `odd`: share of argument values that are objects with unusual special methods
    (ODD_KINDS) -- the initializer must treat arguments as opaque"""
    fields = [f for f in expected_fields(hspec) if f.get("init", True)]
    pos_params = [f for f in fields if not f["kw_only"]]
    kw_params = [f for f in fields if f["kw_only"]]
    tok = [0]

    def t():
        tok[0] += 1
        r = rng.random()
        if r < 0.07:
            return "None"        # the real None (see decode): "not supplied" must never be confused with it
        if r < 0.10:
            return ""            # a falsy value
        if odd and rng.random() < odd:
            return rng.choice(_ODD_NAMES) + str(tok[0])
        return f"t{tok[0]}"

    pos, kw = [], []
    npos = rng.randint(0, len(pos_params))
    # positional prefix
    for f in pos_params[:npos]:
        pos.append(t())
    for f in pos_params[npos:] + kw_params:
        optional = f["default"] != "none"
        if not optional or rng.random() < 0.5:
            kw.append([f.get("alias") or default_alias(f["name"]), t()])
    rng.shuffle(kw)
    if rng.random() < malformed:
        m = rng.choice(["missing", "unknown", "duplicate", "extra_pos", "by_name_not_alias"])
        if m == "missing":
            mand = [k for k in kw if any((f.get("alias") or default_alias(f["name"])) == k[0] and f["default"] == "none" for f in fields)]
            if mand:
                kw.remove(rng.choice(mand))
            elif pos and all(f["default"] == "none" for f in pos_params[:npos]):
                pos.pop()
        elif m == "unknown":
            kw.append(["nope", t()])
        elif m == "duplicate" and pos:
            f = pos_params[rng.randrange(len(pos))]
            kw.append([f.get("alias") or default_alias(f["name"]), t()])
        elif m == "extra_pos":
            pos = pos + [t() for _ in range(len(pos_params) - len(pos) + 1)]
            kw = [k for k in kw if not any((f.get("alias") or default_alias(f["name"])) == k[0] for f in pos_params)]
        elif m == "by_name_not_alias":
            priv = [f for f in fields if (f.get("alias") or default_alias(f["name"])) != f["name"]]
            if priv:
                f = rng.choice(priv)
                al = f.get("alias") or default_alias(f["name"])
                kw = [k for k in kw if k[0] != al] + [[f["name"], t()]]
    # keyword names must be distinct (Python syntax)
    seen, kw2 = set(), []
    for k in kw:
        if k[0] not in seen:
            seen.add(k[0])
            kw2.append(k)
    return {"pos": pos, "kw": kw2}
