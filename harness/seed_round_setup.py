"""Prepare /tmp/seed for a seeding round (maintenance tool, not a registered check).

usage: /venv/bin/python harness/seed_round_setup.py <Cxx> [<Cxx> ...]
For every property: a detached scratch worktree of /repo's HEAD at /tmp/seed/<Cxx>, the property text (title,
statement, quantifier) as /tmp/seed/<Cxx>.property.txt, and /tmp/seed/<Cxx>.avoid.txt listing the first line of the
notes of every change already stored under seeded/ for that property (so that a new round differs in mechanism).
Copies SEEDING_BRIEF.md and suite_check.py next to them. Nothing from /verif beyond those texts reaches /tmp/seed.
"""
import json
import shutil
import subprocess
import sys
from pathlib import Path

V = Path(__file__).resolve().parent.parent
S = Path("/tmp/seed")


def main(pids):
    S.mkdir(exist_ok=True)
    shutil.copy(V / "harness/briefs/SEEDING_BRIEF.md", S / "SEEDING_BRIEF.md")
    shutil.copy(V / "harness/briefs/suite_check.py", S / "suite_check.py")
    props = {json.loads(l)["id"]: json.loads(l) for l in (V / "properties.jsonl").read_text().splitlines() if l.strip()}
    subprocess.run(["git", "-C", "/repo", "worktree", "prune"])
    for p in pids:
        wt = S / p
        if not wt.exists():
            subprocess.run(["git", "-C", "/repo", "worktree", "add", "-q", "--detach", str(wt), "HEAD"], check=True)
        pr = props[p]
        (S / f"{p}.property.txt").write_text(
            f"{p}: {pr['title']}\n\nSTATEMENT\n{pr['statement']}\n\nQUANTIFIER\n{pr['quantifier']['text']}\n")
        lines = []
        for d in sorted((V / "seeded").glob(f"{p}-*")):
            n = d / "notes.md"
            if n.exists():
                first = next((x.strip("# ").strip() for x in n.read_text().splitlines() if x.strip()), "")
                lines.append(f"- {d.name}: {first}")
        (S / f"{p}.avoid.txt").write_text("Changes produced by earlier rounds (yours must differ in mechanism):\n" + "\n".join(lines) + "\n")
        print(p, "worktree", wt, "avoid entries", len(lines))


if __name__ == "__main__":
    main(sys.argv[1:])
