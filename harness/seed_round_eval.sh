#!/bin/sh
# usage: harness/seed_round_eval.sh <suffix e.g. out7> <id letter e.g. g> <N lanes> <Cxx> [<Cxx> ...]
# First evaluation of a seeding round: parallel suite pre-pass, then seed_eval of m1..m3 of every property on N lanes.
SUF=$1; L=$2; N=$3; shift 3
cd /verif
/venv/bin/python harness/seed_suite_pre.py $SUF "$@" | grep -v WARN
OUT=/verif/.work/round_$SUF; rm -rf $OUT; mkdir -p $OUT; : > $OUT/jobs.txt
for p in "$@"; do for n in 1 2 3; do
  [ -f /tmp/seed/$p.$SUF/m$n/patch.diff ] && echo "key=$p /venv/bin/python harness/seed_eval.py $p /tmp/seed/$p.$SUF/m$n /tmp/seed/$p $p-${L}m$n 2>&1 | grep -v WARN | tail -1 | cut -c1-200" >> $OUT/jobs.txt
done; done
harness/lanes.sh $N $OUT/jobs.txt $OUT | tail -1
cat $OUT/lane*.log | grep -v WARN | sort > $OUT/summary.txt
echo "evaluated: $(grep -c '"id"' $OUT/summary.txt) detected: $(grep -c '"detected": true' $OUT/summary.txt)"
grep -v '"detected": true' $OUT/summary.txt | cut -c1-200
