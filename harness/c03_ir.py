"""T3 for C03: translate the *actual* source of a generated `__eq__` -- and of the shared `__ne__` helper, which is
ordinary source in src/attr/_make.py -- into the IR of `Model/C03IR.lean` (JSON in the shape Lean's derived
`FromJson` reads), together with the literal text lines and with what the helper globals are bound to.

The translation is strict: it recognises exactly the statement / expression forms `_make_eq_script` emits and turns
anything else into `{"unknown": {"src": "<source>"}}`, so that a change of the emitted text shows up as a visible
difference with the model generator's script and never as an exception or a silent skip.  Nothing is normalised,
except that key helpers are recognised by the naming pattern the source of `_make_eq_script` itself uses (read with
`ast`; pinned fallback) and represented by the field name they carry, and that the docstring of `__ne__` is skipped.
"""
from __future__ import annotations

import ast
import builtins
import inspect
import textwrap

import tables_from_source as tfs
from ir_from_source import _same_code

_PINNED_PREFIX = "__attr_key_"
_PREFIX = None


def key_prefix():
    """(prefix, broken) -- the `__attr_key_` of `cmp_name = f"__attr_key_{a.name}"` in `_make_eq_script`"""
    global _PREFIX
    if _PREFIX is not None:
        return _PREFIX
    prefix, broken = _PINNED_PREFIX, []
    try:
        fn = tfs.Src("_make.py").func("_make_eq_script")
        found = None
        for n in ast.walk(fn):
            if (isinstance(n, ast.Assign) and len(n.targets) == 1 and isinstance(n.targets[0], ast.Name)
                    and n.targets[0].id == "cmp_name" and isinstance(n.value, ast.JoinedStr) and len(n.value.values) == 2
                    and isinstance(n.value.values[0], ast.Constant) and isinstance(n.value.values[0].value, str)
                    and isinstance(n.value.values[1], ast.FormattedValue)
                    and ast.unparse(n.value.values[1].value) == "a.name"):
                found = n.value.values[0].value
        if found is None:
            raise ValueError("cmp_name pattern not found")
        prefix = found
    except Exception as e:  # noqa: BLE001
        broken.append(f"eq key prefix: {type(e).__name__}: {e}")
    _PREFIX = (prefix, broken)
    return _PREFIX


def _unknown(text):
    return {"unknown": {"src": " ".join(str(text).split())[:200]}}


def _name(n, ident=None):
    return isinstance(n, ast.Name) and (ident is None or n.id == ident)


def _side_attr(n):
    """`self.f` / `other.f` -> (side, f)"""
    if isinstance(n, ast.Attribute) and isinstance(n.value, ast.Name) and n.value.id in ("self", "other"):
        return n.value.id, n.attr
    return None


def _opnd(n, prefix, helpers):
    sa = _side_attr(n)
    if sa is not None:
        return {"attr": {"side": sa[0], "field": sa[1]}}
    if (isinstance(n, ast.Call) and not n.keywords and len(n.args) == 1 and not isinstance(n.args[0], ast.Starred)
            and _name(n.func) and n.func.id.startswith(prefix)):
        sa = _side_attr(n.args[0])
        if sa is not None:
            h = n.func.id[len(prefix):]
            helpers.append(h)
            return {"keyed": {"helper": h, "side": sa[0], "field": sa[1]}}
    return None


def _cmp(n, prefix, helpers):
    if isinstance(n, ast.Compare) and len(n.ops) == 1 and isinstance(n.ops[0], ast.Eq) and len(n.comparators) == 1:
        a, b = _opnd(n.left, prefix, helpers), _opnd(n.comparators[0], prefix, helpers)
        if a is not None and b is not None:
            return {"lhs": a, "rhs": b}
    return None


def _class_of(n, who):
    return isinstance(n, ast.Attribute) and n.attr == "__class__" and _name(n.value, who)


def _eq_stmt(st, prefix, helpers):
    if isinstance(st, ast.If) and not st.orelse and len(st.body) == 1:
        t = st.test
        if (isinstance(t, ast.Compare) and len(t.ops) == 1 and isinstance(t.ops[0], ast.IsNot) and len(t.comparators) == 1
                and _class_of(t.left, "other") and _class_of(t.comparators[0], "self")
                and isinstance(st.body[0], ast.Return) and _name(st.body[0].value, "NotImplemented")):
            return "classGuard"
    if isinstance(st, ast.Return) and st.value is not None:
        v = st.value
        if isinstance(v, ast.Constant) and v.value is True:
            return "returnTrue"
        vals = v.values if isinstance(v, ast.BoolOp) and isinstance(v.op, ast.And) else [v]
        found = []
        cs = [_cmp(x, prefix, found) for x in vals]
        if cs and all(c is not None for c in cs):
            helpers.extend(found)
            return {"returnAnd": {"cs": cs}}
    return None


def _binding_of_ni(fn):
    g = getattr(fn, "__globals__", {})
    if "NotImplemented" in g:
        obj = g["NotImplemented"]
    else:
        b = g.get("__builtins__", builtins)
        obj = b.get("NotImplemented", None) if isinstance(b, dict) else getattr(b, "NotImplemented", None)
    return "notImplemented" if obj is NotImplemented else "other"


def _params(fn_node):
    a = fn_node.args
    if a.posonlyargs or a.kwonlyargs or a.vararg or a.kwarg or a.defaults or fn_node.decorator_list:
        return None
    return [p.arg for p in a.args]


def parse_eq_source(src, prefix):
    """source text of one generated `__eq__` -> (params, body, helper names)   (never raises)"""
    helpers = []
    try:
        tree = ast.parse(textwrap.dedent(src))
        fns = [n for n in tree.body if isinstance(n, ast.FunctionDef)]
        if len(fns) != 1 or len(tree.body) != 1 or fns[0].name != "__eq__":
            return [], [_unknown("not a single def __eq__")], []
        fn = fns[0]
    except Exception as e:  # noqa: BLE001
        return [], [_unknown(f"unparsable: {type(e).__name__}")], []
    body = []
    params = _params(fn)
    if params is None:
        body.append(_unknown("signature: " + ast.unparse(fn.args)))
        params = []
    for st in fn.body:
        try:
            r = _eq_stmt(st, prefix, helpers)
        except Exception:  # noqa: BLE001
            r = None
        body.append(r if r is not None else _unknown(ast.unparse(st)))
    return params, body, list(dict.fromkeys(helpers))


def parse_eq(C, classify):
    """the real generated source of `C.__eq__` -> (text lines, EqScript JSON).  `classify(obj)` says what a helper
    global is bound to: {"eqKey": {"field": f}} / {"orderKey": {"field": f}} / "other"."""
    prefix, _ = key_prefix()
    try:
        fn = C.__dict__.get("__eq__")
        if fn is None:
            raise LookupError("no own __eq__")
        fn = inspect.unwrap(fn)
        src = textwrap.dedent(inspect.getsource(fn))
        code = fn.__code__
    except Exception as e:  # noqa: BLE001
        return [], {"params": [], "body": [_unknown(f"no source: {type(e).__name__}")], "helpers": [], "ni": "other"}
    params, body, helpers = parse_eq_source(src, prefix)
    if not _same_code(src, code):
        body.insert(0, _unknown("source text is not the code object that runs"))
    g = fn.__globals__
    hb = []
    for h in helpers:
        try:
            b = classify(g[prefix + h]) if (prefix + h) in g else "other"
        except Exception:  # noqa: BLE001
            b = "other"
        hb.append([h, b])
    return src.rstrip("\n").split("\n"), {"params": params, "body": body, "helpers": hb, "ni": _binding_of_ni(fn)}


_NE_CACHE: dict = {}


def _ne_stmt(st):
    if (isinstance(st, ast.Assign) and len(st.targets) == 1 and _name(st.targets[0], "result")
            and isinstance(st.value, ast.Call) and not st.value.keywords and len(st.value.args) == 1
            and _name(st.value.args[0], "other") and isinstance(st.value.func, ast.Attribute)
            and st.value.func.attr == "__eq__" and _name(st.value.func.value, "self")):
        return "callEq"
    if isinstance(st, ast.If) and not st.orelse and len(st.body) == 1:
        t = st.test
        if (isinstance(t, ast.Compare) and len(t.ops) == 1 and isinstance(t.ops[0], ast.Is) and _name(t.left, "result")
                and len(t.comparators) == 1 and _name(t.comparators[0], "NotImplemented")
                and isinstance(st.body[0], ast.Return) and _name(st.body[0].value, "NotImplemented")):
            return "forwardNI"
    if (isinstance(st, ast.Return) and isinstance(st.value, ast.UnaryOp) and isinstance(st.value.op, ast.Not)
            and _name(st.value.operand, "result")):
        return "returnNot"
    return None


def parse_ne(helper):
    """the source of the shared `__ne__` helper -> NeScript JSON (never raises; cached per function object)"""
    got = _NE_CACHE.get(id(helper))
    if got is not None and got[0] is helper:
        return got[1]
    try:
        src = textwrap.dedent(inspect.getsource(helper))
        tree = ast.parse(src)
        fns = [n for n in tree.body if isinstance(n, ast.FunctionDef)]
        if len(fns) != 1 or len(tree.body) != 1 or fns[0].name != "__ne__":
            raise ValueError("not a single def __ne__")
        fn = fns[0]
        body = []
        params = _params(fn)
        if params is None:
            body.append(_unknown("signature: " + ast.unparse(fn.args)))
            params = []
        stmts = list(fn.body)
        if stmts and isinstance(stmts[0], ast.Expr) and isinstance(stmts[0].value, ast.Constant) and isinstance(stmts[0].value.value, str):
            stmts = stmts[1:]      # the docstring
        for st in stmts:
            r = _ne_stmt(st)
            body.append(r if r is not None else _unknown(ast.unparse(st)))
        if not _same_code(src, helper.__code__):
            body.insert(0, _unknown("source text is not the code object that runs"))
        out = {"params": params, "body": body, "ni": _binding_of_ni(helper)}
    except Exception as e:  # noqa: BLE001
        out = {"params": [], "body": [_unknown(f"no source: {type(e).__name__}")], "ni": "other"}
    _NE_CACHE[id(helper)] = (helper, out)
    return out


def observe(C, classify):
    """the Obs of a `script` case for the class C that was really built"""
    import attr._make as am

    text, eq = parse_eq(C, classify)
    helper = getattr(am, "__ne__", None)
    installed = helper is not None and C.__dict__.get("__ne__") is helper
    ne = parse_ne(helper) if helper is not None else {"params": [], "body": [_unknown("attr._make has no __ne__")], "ni": "other"}
    return {"text": text, "eq": eq, "ne": ne, "neInstalled": bool(installed)}
