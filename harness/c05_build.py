"""C05 builder: hierarchies that initbuild cannot express.

An hspec is initbuild's (a single-inheritance *main chain* of classes, root first, whose last class A is an
attrs class and provides the initializer) extended with

  cs["mixin"]     a field-less side class listed before/after the main base of that class
                  {"kind": plain|userset|userdel|attrs_frozen|attrs_mutable, "slots": bool, "api": "attr.s"|"define", "pos": before|after}
  cs["user_set"], cs["user_del"]   the class body defines a pass-through __setattr__ / __delattr__
  cs["auto_detect"]                None | True | False
  hspec["tail"]   plain (undecorated) subclasses below A; the last one is instantiated
                  [{"name", "plain_slots", "user_set", "user_del", "mixin"}]

`table(hspec)` lists every class in definition order with CPython's MRO/bases (computed on undecorated twins, so
it exists even when a definition is rejected) as *relative* indices, in the shape of the Lean `ClassSpec`.
`build(hspec)` defines the real classes in that order and reports the index of a rejected definition.
The main chain is seeded into initbuild's cache so that `initbuild.run_in` / `expected_fields` describe A.
"""
from __future__ import annotations

import asyncio
import inspect
import json
import types

import attr
import attrs

import common
import initbuild as ib

MOD = "verif_synth"


# ------------------------------------------------------------------------------------------ user methods
def _user_setattr(self, name, value):
    object.__setattr__(self, name, value)


def _user_delattr(self, name):
    object.__delattr__(self, name)


def _body_extras(cs, ns):
    if cs.get("user_set"):
        # a fresh function per class: identity never matters, but keep qualnames honest
        def __setattr__(self, name, value):
            object.__setattr__(self, name, value)
        ns["__setattr__"] = __setattr__
    if cs.get("user_del"):
        def __delattr__(self, name):
            object.__delattr__(self, name)
        ns["__delattr__"] = __delattr__


# ------------------------------------------------------------------------------------------ exception roots
class Quit(BaseException):
    """a user's own exception root outside the Exception subtree"""


class AppError(Exception):
    """a user's own exception root inside the Exception subtree"""


# classes[0]["exc_root"] (harness-only; the model sees one `builtin` row whose __setattr__/__delattr__ are
# BaseException's): initbuild's builtins plus user-made / stdlib roots on both sides of `Exception`
EXC_ROOTS = dict(ib.EXC_ROOTS, CancelledError=asyncio.CancelledError, Quit=Quit, AppError=AppError)
OUTSIDE_EXCEPTION = sorted(k for k, v in EXC_ROOTS.items() if not issubclass(v, Exception))


def root_of(hspec):
    c0 = hspec["classes"][0]
    if not c0.get("exc_base"):
        return object
    return EXC_ROOTS[c0.get("exc_root") or "Exception"]


# ------------------------------------------------------------------------------------------ structure
def entries(hspec):
    """definition order: [(role, spec, base_entry_indices)], role in main|tail|mixin"""
    out = []
    prev = None
    if hspec["classes"][0].get("exc_base"):
        # the builtin root is part of the table: BaseException defines its own __setattr__/__delattr__
        out.append(("root", {}, []))
        prev = 0
    for cs in list(hspec["classes"]) + list(hspec.get("tail", [])):
        role = "main" if cs in hspec["classes"] else "tail"
        bases = [] if prev is None else [prev]
        m = cs.get("mixin")
        if m:
            out.append(("mixin", m, []))
            mi = len(out) - 1
            bases = ([mi] + bases) if m.get("pos") == "before" else (bases + [mi])
        out.append((role, cs, bases))
        prev = len(out) - 1
    return out


def _bases(bases, done):
    return tuple(done[j] for j in bases) or (object,)


def _twins(hspec):
    root = root_of(hspec)
    ents = entries(hspec)
    tw = []
    for role, cs, bases in ents:
        if role == "root":
            tw.append(root)
            continue
        b = (object,) if role == "mixin" else _bases(bases, tw)
        tw.append(type("T", b, {}))
    return ents, tw


def _on_set(kind):
    return "unset" if kind in (None, "unset") else "noop" if kind == "noop" else "hooks"


_CLS_ON = {"unset": "unset", "noop": "noop", "hook": "hook", "validate": "validate", "convert": "convert", "pipeCV": "pipe"}


def _field_facts(f):
    return {"name": f["name"], "onSet": _on_set(f.get("on_setattr", "unset")),
            "hasValidator": f.get("validators", 0) > 0, "hasConverter": bool(f.get("converter"))}


def table(hspec):
    """the Lean `classes` list (definition order, relative MRO/bases indices)"""
    ents, tw = _twins(hspec)
    out = []
    main_seen = []
    for i, (role, cs, _b) in enumerate(ents):
        idx = {id(t): j for j, t in enumerate(tw)}
        mro = [i - 1 - idx[id(k)] for k in tw[i].__mro__[1:] if id(k) in idx]
        bases = [i - 1 - idx[id(k)] for k in tw[i].__bases__ if id(k) in idx]
        row = {"attrs": False, "api": "attrS", "frozenArg": False, "slots": False, "clsOnSet": "unset",
               "autoDetect": False, "userSet": False, "userDel": False, "builtin": role == "root", "stateArg": None,
               "fields": [], "bases": bases, "mro": mro}
        if role == "root":
            pass
        elif role == "mixin":
            k = cs["kind"]
            row["slots"] = bool(cs.get("slots"))
            if k == "userset":
                row["userSet"] = True
            elif k == "userdel":
                row["userDel"] = True
            elif k in ("attrs_frozen", "attrs_mutable"):
                row["attrs"] = True
                row["api"] = "define" if cs.get("api") == "define" else "attrS"
                row["frozenArg"] = k == "attrs_frozen"
                row["autoDetect"] = row["api"] == "define"
                row["stateArg"] = False
        elif role == "tail" or cs["kind"] == "plain":
            row["slots"] = bool(cs.get("plain_slots"))
            row["userSet"] = bool(cs.get("user_set"))
            row["userDel"] = bool(cs.get("user_del"))
            if role == "main":
                main_seen.append(cs)
        else:
            main_seen.append(cs)
            ng = ib.is_next_gen(cs)
            row["attrs"] = True
            row["api"] = "define" if ng else "attrS"
            row["frozenArg"] = bool(cs.get("frozen")) or cs.get("api") == "frozen"
            row["slots"] = ib.leaf_slots(cs)
            row["clsOnSet"] = _CLS_ON[cs.get("cls_on_setattr", "unset")]
            ad = cs.get("auto_detect")
            row["autoDetect"] = ng if ad is None else bool(ad)
            row["userSet"] = bool(cs.get("user_set"))
            row["userDel"] = bool(cs.get("user_del"))
            row["stateArg"] = cs.get("getstate_setstate")
            row["fields"] = [_field_facts(f) for f in ib.expected_fields({"classes": list(main_seen)})]
        out.append(row)
    return out


# ------------------------------------------------------------------------------------------ building
def _build_mixin(m, root_is_exc):
    k = m["kind"]
    ns = {"__module__": MOD}
    if k in ("plain", "userset", "userdel"):
        if m.get("slots"):
            ns["__slots__"] = ()
        _body_extras({"user_set": k == "userset", "user_del": k == "userdel"}, ns)
        return type("M", (object,), ns)
    cls = type("M", (object,), ns)
    kw = {"frozen": k == "attrs_frozen", "slots": bool(m.get("slots")), "init": False, "eq": False, "repr": False,
          "getstate_setstate": False, "weakref_slot": False, "match_args": False}
    if m.get("api") == "define":
        return attrs.define(**kw)(cls)
    return attr.s(**kw)(cls)


# ------------------------------------------------------------------------------------------ decorator histories
def _own_getstate(self):
    return {"own": True}


def _own_setstate(self, state):
    pass


def _own_hash(self):
    return 7


def _own_init(self, *a, **k):
    pass


def _warm_base(kind, bases):
    if kind == "same":
        return bases
    if kind == "slotted_attrs":
        return (attr.s(slots=True, frozen=True)(type("WB", (object,), {"__module__": MOD, "hb": attr.ib(default=0)})),)
    if kind == "dict_attrs":
        return (attr.s(slots=False)(type("WB", (object,), {"__module__": MOD, "hb": attr.ib(default=0)})),)
    return (object,)


def _warm_up(d, cs, bases, next_gen):
    """cs["deco_hist"]: classes the SAME decorator object is applied to before the class under test
    [{"own": [getstate|setattr|hash|init], "base": object|same|slotted_attrs|dict_attrs, "field": bool}].
    Class definition must be a function of the class alone: whatever these classes look like, and whether
    or not their definition is accepted, the class under test must come out the same (harness-only variation)."""
    for w in cs.get("deco_hist", ()):
        ns = {"__module__": MOD}
        own = w.get("own", [])
        if "getstate" in own:
            ns["__getstate__"], ns["__setstate__"] = _own_getstate, _own_setstate
        if "setattr" in own:
            _body_extras({"user_set": True}, ns)
        if "hash" in own:
            ns["__hash__"] = _own_hash
        if "init" in own:
            ns["__init__"] = _own_init
        if w.get("field"):
            ns["hw"] = (attrs.field if next_gen else attr.ib)(default=0)
        try:
            d(type("W", _warm_base(w.get("base", "object"), bases), ns))
        except Exception:  # noqa: BLE001 -- a rejected warm-up class is part of the history
            pass


def _build_attrs(cs, bases):
    """initbuild.build_class for a tuple of bases, plus body-defined __setattr__/__delattr__"""
    name = cs.get("name", "C")
    api = cs.get("api", "attr.s")
    next_gen = api in ("define", "frozen")
    fields = cs.get("fields", [])
    ns = {"__module__": MOD}
    if cs.get("pre", "none") != "none":
        ns["__attrs_pre_init__"] = ib.pre_noargs if cs["pre"] == "noargs" else ib.pre_args
    if cs.get("post"):
        ns["__attrs_post_init__"] = ib.post
    _body_extras(cs, ns)
    kw = ib._deco_kwargs(cs)
    if api in ("attr.s", "define", "frozen"):
        anns = {}
        for f in fields:
            ns[f["name"]] = ib._field_obj(f, next_gen)
            if f.get("annotated") and f.get("type"):
                anns[f["name"]] = ib.TYPES[f["type"]]
        if anns:
            ns["__annotations__"] = anns
        cls = type(name, bases, ns)
        deco = {"attr.s": attr.s, "define": attrs.define, "frozen": attrs.frozen}[api]
        if api == "frozen":
            kw.pop("frozen", None)
        d = deco(**kw)                      # ONE decorator object ...
        _warm_up(d, cs, bases, next_gen)    # ... possibly applied to other classes first
        return d(cls)
    if api == "these":
        cls = type(name, bases, ns)
        these = {f["name"]: ib._field_obj(f, False) for f in fields}
        d = attr.s(these=these, **kw)
        _warm_up(d, cs, bases, False)
        return d(cls)
    if api == "make_class":
        body = {k: v for k, v in ns.items() if k != "__module__"}
        these = {f["name"]: ib._field_obj(f, False) for f in fields}
        return attr.make_class(name, these, bases=bases, class_body=body, **kw)
    raise ValueError(api)


KLIST = ["class-level"]      # a mutable object reachable through a non-field name of plain subclasses


def _build_plain(cs, bases):
    ns = {"__module__": MOD}
    if cs.get("klist"):
        ns["klist"] = KLIST
    if cs.get("plain_slots"):
        ns["__slots__"] = ()
    if cs.get("pre", "none") != "none":
        ns["__attrs_pre_init__"] = ib.pre_noargs if cs["pre"] == "noargs" else ib.pre_args
    if cs.get("post"):
        ns["__attrs_post_init__"] = ib.post
    _body_extras(cs, ns)
    return type(cs.get("name", "P"), bases, ns)


_CACHE: dict = {}


def _key(hspec):
    return json.dumps([hspec["classes"], hspec.get("tail", [])], sort_keys=True)


def seed(hspec, built):
    """make initbuild's helpers see our main-chain classes for this hspec"""
    if built["main"] is not None:
        if len(ib._CACHE) > 1500:
            ib._CACHE.clear()
        ib._CACHE[json.dumps(hspec["classes"], sort_keys=True)] = built["main"]


def build(hspec):
    """-> {"classes": [...all, definition order], "main": [...] | None, "leaf": cls | None, "owner": cls | None,
           "err": None | (index, exception)}"""
    k = _key(hspec)
    got = _CACHE.get(k)
    if got is not None:
        seed(hspec, got)
        return got
    if len(_CACHE) > 1200:
        _CACHE.clear()
        common.purge_linecache()
    root = root_of(hspec)
    ents = entries(hspec)
    done, main = [], []
    err = None
    for i, (role, cs, bases) in enumerate(ents):
        try:
            if role == "root":
                cls = root
            elif role == "mixin":
                cls = _build_mixin(cs, root is not object)
            else:
                b = _bases(bases, done)
                if role == "tail" or cs["kind"] == "plain":
                    cls = _build_plain(cs, b)
                else:
                    cls = _build_attrs(cs, b)
        except Exception as e:  # noqa: BLE001 -- a rejected definition is an observation
            err = (i, e)
            break
        done.append(cls)
        if role == "main":
            main.append(cls)
    res = {"classes": done, "err": err,
           "main": main if err is None else None,
           "owner": main[-1] if err is None else None,
           "leaf": done[-1] if err is None else None}
    _CACHE[k] = res
    seed(hspec, res)
    return res


# ------------------------------------------------------------------------------------------ layout facts
def slot_names(cls):
    out = set()
    for k in cls.__mro__:
        sl = k.__dict__.get("__slots__", ())
        if isinstance(sl, str):
            sl = (sl,)
        for n in sl:
            if n not in ("__weakref__", "__dict__"):
                out.add(n)
    return sorted(out)


def any_slots(leaf):
    return any(bool(k.__dict__.get("__slots__")) for k in leaf.__mro__)


def predicted_gs(tbl, owner_rel, anyslots):
    """the state protocol the leaf resolves, predicted from the *specification* (the Lean `predictedGs`):
    attrs generates a __getstate__/__setstate__ pair for a class when asked to, and by default when the class is
    slotted or would inherit a generated pair; the leaf resolves the nearest such class along its MRO"""
    own = []
    for i, row in enumerate(tbl):
        mro_abs = [i - 1 - r for r in row["mro"]]
        if not row["attrs"]:
            own.append(False)
        elif row["stateArg"] is not None:
            own.append(bool(row["stateArg"]))
        else:
            own.append(bool(row["slots"]) or any(own[j] for j in mro_abs))
    n = len(tbl)
    order = [n - 1] + [n - 2 - r for r in tbl[-1]["mro"]]
    for j in order:
        if own[j]:
            return "attrs" if (n - 1 - j) == owner_rel else "other"
    return "optOut" if anyslots else "dflt"


def resolved_kinds(leaf):
    """classification of type(inst).__setattr__ / __delattr__ (the Lean SetK / DelK)"""
    from attr._make import _frozen_delattrs, _frozen_setattrs

    s, d = leaf.__setattr__, leaf.__delattr__
    if s is _frozen_setattrs:
        sk = "frozen"
    elif s is object.__setattr__ or s is BaseException.__setattr__:
        sk = "obj"
    elif "generated by attrs" in (getattr(s, "__doc__", "") or ""):
        sk = "hooks"
    else:
        sk = "user"
    dk = "frozen" if d is _frozen_delattrs else "obj" if (d is object.__delattr__ or d is BaseException.__delattr__) else "user"
    return sk, dk


def gs_kind(leaf, owner, slots):
    g = leaf.__getstate__
    if g is object.__getstate__:
        # any non-empty __slots__ (also a lone __weakref__) makes protocols 0/1 refuse: classed with the opt-out
        any_slots = any(k.__dict__.get("__slots__") for k in leaf.__mro__)
        return "optOut" if (slots or any_slots) else "dflt"
    for k in leaf.__mro__:
        if k.__dict__.get("__getstate__") is g:
            if k is owner and "created by attrs" in (getattr(g, "__doc__", "") or ""):
                return "attrs"
            return "other"
    return "other"


def hash_facts(leaf, owner):
    """(hashable, names | None): which fields the resolved __hash__ reads, None for the identity hash"""
    h = leaf.__hash__
    if h is None:
        return False, None
    if h is object.__hash__:
        return True, None
    for k in leaf.__mro__:
        if k.__dict__.get("__hash__") is h:
            if k is owner:
                return True, [a.name for a in owner.__attrs_attrs__ if a.hash is True or (a.hash is None and a.eq is True)]
            return False, None
    return False, None


def has_dict(leaf):
    return any("__dict__" in k.__dict__ for k in leaf.__mro__)
