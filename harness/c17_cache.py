"""C17 part B -- fake linecache entries: sequential histories and forced interleavings.

A case (kinds "hist" / "conc") lists class definitions `defs` (qualname + script id; the harness-only `body`
says which catalogue body to use), entries `pre` that are already cached under colliding fake filenames,
and -- for "conc" -- a schedule: the order in which the threads perform their operations on
`linecache.cache` (installed as an instrumented dict subclass for the duration of the run, always restored).
"""
from __future__ import annotations

import inspect
import itertools
import linecache
import sys
import textwrap
import threading
import types

import attr

import common

_COUNTER = itertools.count()
WAIT_S = 4.0

# catalogue of class bodies: (field builder, script class).  Bodies of one script class generate the same
# source text (they differ only in values that live in attr_dict); `hashed` bodies embed a constant derived
# from module+qualname, so their text also depends on the qualname.
BODIES = [
    {"fields": lambda: {"a": attr.ib()}, "text": 0},
    {"fields": lambda: {"a": attr.ib(), "b": attr.ib()}, "text": 1},
    {"fields": lambda: {"a": attr.ib(default=7)}, "text": 2},
    {"fields": lambda: {"a": attr.ib(default=8)}, "text": 2},
    {"fields": lambda: {"a": attr.ib(validator=lambda i, a, v: None)}, "text": 3},
    {"fields": lambda: {"b": attr.ib()}, "text": 4},
    {"fields": lambda: {"a": attr.ib(factory=list)}, "text": 5},
    {"fields": lambda: {"a": attr.ib(converter=int)}, "text": 6},
    {"fields": lambda: {"a": attr.ib()}, "text": 7, "kw": {"hash": True}, "hashed": True},
    {"fields": lambda: {"a": attr.ib(repr=False)}, "text": 8},
    {"fields": lambda: {}, "text": 9},
    # slotted classes with a functools.cached_property: a second generated script (the __getattr__ of
    # _make_cached_property_getattr, nested inside `def wrapper(_cls)`), whose text depends only on whether the body has
    # its own __getattr__ (`gtext`); the methods script is that of the same fields without slots
    {"fields": lambda: {"a": attr.ib()}, "text": 0, "cprop": True, "own": False, "gtext": 0},
    {"fields": lambda: {"a": attr.ib()}, "text": 0, "cprop": True, "own": True, "gtext": 1},
    {"fields": lambda: {"a": attr.ib(), "b": attr.ib()}, "text": 1, "cprop": True, "own": False, "gtext": 0},
    {"fields": lambda: {"a": attr.ib(repr=False)}, "text": 8, "cprop": True, "own": True, "gtext": 1},
]
QUALS = ["C", "C-1", "C-2", "C-1-1", "D"]


def script_id(body, qual):
    b = BODIES[body]
    return b["text"] * 10 + ((QUALS.index(qual) + 1) if b.get("hashed") else 0)


def gscript_id(body):
    return BODIES[body].get("gtext")


def unique_filename(modname, qual, func="methods"):
    return f"<attrs generated {func} {modname}.{qual}>"


def candidate(base, count):
    return base if count == 0 else f"{base[:-1]}-{count}>"


def pre_text(sid):
    return f"# foreign entry {sid}\n"


# ------------------------------------------------------------------------------------------ defining
class Refused(Exception):
    """raised by the hooks that refuse a class after its methods have been generated"""


def _refusing_base(how, slots):
    """a base class that lets the class statement through and refuses the class late, after attrs has generated
    and compiled its methods: `subclass_hook` = an inherited __attrs_init_subclass__ raises (runs at the very end
    of build_class); `init_subclass` = __init_subclass__ raises for the slotted clone attrs creates (the clone
    already carries __attrs_attrs__; the class statement's own call passes); `meta` = a metaclass whose __new__
    refuses a namespace that carries __attrs_attrs__ (the slotted clone again)."""
    if how == "init_subclass" and slots:
        class Base:
            __slots__ = ()

            def __init_subclass__(cls, **kw):
                super().__init_subclass__(**kw)
                if "__attrs_attrs__" in cls.__dict__:
                    raise Refused("clone")
        return Base
    if how == "meta" and slots:
        class Meta(type):
            def __new__(mcs, name, bases, ns, **kw):
                if "__attrs_attrs__" in ns:
                    raise Refused("meta")
                return super().__new__(mcs, name, bases, ns, **kw)
        return Meta("Base", (), {"__slots__": ()})

    class Base:
        __slots__ = ()

        @classmethod
        def __attrs_init_subclass__(cls):
            raise Refused("registry")
    return Base


@attr.s(slots=True)
class _AttrsBase:
    """a field-less attrs class: a definition with `base: "attrs"` inherits from it, so the class already finds an
    (inherited) __attrs_attrs__ / __attrs_own_setattr__ ... while it is built; the generated scripts are those of
    the same body over `object`"""


@attr.s
class _AttrsDictBase:
    pass


def _plain_base(d, slots):
    kind = d.get("base", "plain")
    if kind == "attrs":
        return _AttrsBase if slots else _AttrsDictBase
    if kind == "attrsSlots":
        return _AttrsBase
    return object


def define(modname, d, cfg):
    """define one class of the history in the synthetic module; returns the class (raises `Refused` when the
    definition is one that is refused after code generation)"""
    body = BODIES[d["body"]]
    kw = dict(body.get("kw", {}))
    if cfg.get("slots"):
        kw["slots"] = True
    fields = body["fields"]()
    qual = d["qual"]
    if body.get("cprop"):
        kw["slots"] = True
    ns = {"__name__": modname, "__h__": {"fields": fields, "kw": kw, "attr": attr,
                                         "base": _plain_base(d, bool(kw.get("slots")))}}
    if d.get("fails"):
        ns["__h__"]["base"] = _refusing_base(d.get("failHow", "subclass_hook"), bool(kw.get("slots")))
    if body.get("cprop"):
        # class statements cannot carry every qualname of the catalogue: build the body as a namespace
        import functools

        members = dict(fields)
        members["__module__"] = modname
        members["cprop_"] = functools.cached_property(lambda self: ("cp", self.a))
        if body.get("own"):
            def own_getattr(self, item):
                raise AttributeError(item)
            members["__getattr__"] = own_getattr
        raw = types.new_class(qual, (ns["__h__"]["base"],), {}, lambda n: n.update(members))
        return attr.s(**kw)(raw)
    if qual.isidentifier() and cfg.get("api", "class") == "class":
        lines = ["@__h__['attr'].s(**__h__['kw'])", f"class {qual}(__h__['base']):"]
        lines += [f"    {n} = __h__['fields'][{n!r}]" for n in fields] or ["    pass"]
        src = "\n".join(lines) + "\n"
    else:
        src = f"{'X'} = __h__['attr'].make_class({qual!r}, __h__['fields'], bases=(__h__['base'],), **__h__['kw'])\n"
    exec(compile(src, f"<c17 {modname}>", "exec"), ns)
    return ns[qual] if qual in ns else ns["X"]


def generated_functions(cls, with_getattr=False):
    out = []
    for n in ("__init__", "__attrs_init__", "__repr__", "__eq__", "__hash__") + (("__getattr__",) if with_getattr else ()):
        fn = cls.__dict__.get(n)
        if isinstance(fn, types.FunctionType) and fn.__code__.co_filename.startswith("<attrs generated"):
            out.append(fn)
    return out


def _codes_in(top):
    """code objects of the functions a script defines, by name (nested ones too: `__getattr__` inside `wrapper`)"""
    out = {}
    for k in top.co_consts:
        if isinstance(k, types.CodeType):
            out.setdefault(k.co_name, k)
            for n, kk in _codes_in(k).items():
                out.setdefault(n, kk)
    return out


def text_holds(text, filename, cls_or_fns):
    """the text, compiled as a file of that name, yields exactly the code objects of the given generated
    methods (bytecode, constants, names, line numbers)"""
    try:
        top = compile(text, filename, "exec")
    except SyntaxError:
        return False
    codes = _codes_in(top)
    fns = cls_or_fns if isinstance(cls_or_fns, list) else generated_functions(cls_or_fns)
    if not fns:
        return False
    for fn in fns:
        k = codes.get(fn.__code__.co_name)
        if k is None or k != fn.__code__ or list(k.co_lines()) != list(fn.__code__.co_lines()):
            return False
    return True


def source_ok(cls):
    """inspect.getsource of every generated method recompiles to the running code; the cache entry under each
    code object's filename is a well-formed permanent entry holding that source (the main script and, on
    slotted classes with cached properties, the script of the generated __getattr__)"""
    fns = reachable_generated_functions(cls)
    if not fns:
        return False
    by_file = {}
    for fn in fns:
        # code objects nested in a generated function (comprehensions, inner functions) belong to the same file
        if any(k.co_filename != fn.__code__.co_filename for k in _nested_codes(fn.__code__)):
            return False
        by_file.setdefault(fn.__code__.co_filename, []).append(fn)
    if len({f for f in by_file if f.startswith("<attrs generated methods")}) > 1:
        return False
    for filename, ffns in by_file.items():
        ent = linecache.cache.get(filename)
        if not (isinstance(ent, tuple) and len(ent) == 4):
            return False
        size, mtime, lines, fullname = ent
        text = "".join(lines)
        if mtime is not None or size != len(text) or fullname != filename:
            return False
        if not text_holds(text, filename, ffns):
            return False
        if linecache.getlines(filename) != lines:
            return False
        for fn in ffns:
            co = fn.__code__
            try:
                got_lines, lno = inspect.getsourcelines(fn)
            except (OSError, TypeError):
                return False
            if lno != co.co_firstlineno or lines[lno - 1:lno - 1 + len(got_lines)] != got_lines:
                return False
            if co.co_freevars:
                # a closure (`__getattr__` inside `wrapper`, for no-argument super()) compiles differently on its
                # own; the whole-file comparison above and the line slice just checked cover it
                continue
            try:
                k = _codes_in(compile(textwrap.dedent("".join(got_lines)), filename, "exec")).get(co.co_name)
            except SyntaxError:
                return False
            if k is None or k.co_code != co.co_code or k.co_consts != co.co_consts or k.co_names != co.co_names \
                    or k.co_varnames != co.co_varnames:
                return False
        linecache.checkcache(filename)
        if filename not in linecache.cache:
            return False
    return True


def _filename_of(cls, func="methods"):
    if func == "getattr":
        fn = cls.__dict__.get("__getattr__")
        if isinstance(fn, types.FunctionType) and fn.__code__.co_filename.startswith("<attrs generated"):
            return fn.__code__.co_filename
        return "?"
    fns = generated_functions(cls)
    names = {fn.__code__.co_filename for fn in fns}
    return names.pop() if len(names) == 1 else "?" + "|".join(sorted(names))


def _prefix(modname, func="methods"):
    return f"<attrs generated {func} {modname}."


def _snapshot(modname, func=None):
    ps = tuple(_prefix(modname, f) for f in ((func,) if func else ("methods", "getattr")))
    return {k: v for k, v in list(linecache.cache.items()) if isinstance(k, str) and k.startswith(ps)}


_REF = {}


def reference_texts(modname, case, cfg):
    """the scripts attrs generates for each definition -- (methods script, __getattr__ script or None) -- taken from
    an uncontended definition of the same body (same module and qualname, nothing else cached) before the
    experiment starts"""
    out = []
    for d in case["defs"]:
        hashed = BODIES[d["body"]].get("hashed")
        key = (d["body"], cfg.get("api"), bool(cfg.get("slots")), d["qual"].isidentifier(), d.get("base", "plain"),
               bool(cfg.get("registered", True)))
        if not hashed and key in _REF:
            out.append(_REF[key])
            continue
        _purge_entries(modname)
        try:
            define(modname, dict(d, fails=False), cfg)     # the scripts do not depend on the refusing base
        except Exception:  # noqa: BLE001
            pass
        texts = []
        for func in ("methods", "getattr"):
            ent = linecache.cache.get(unique_filename(modname, d["qual"], func))
            texts.append("".join(ent[2]) if ent else None)
        _purge_entries(modname)
        if not hashed:
            _REF[key] = tuple(texts)
        out.append(tuple(texts))
    return out


def _entries(modname, case, refs, func="methods"):
    out = []
    which = 0 if func == "methods" else 1
    ids = {pre_text(p[1][1]): p[1][1] for p in case["pre"]} if func == "methods" else {}
    for d, t in zip(case["defs"], refs):
        sid = d["script"] if func == "methods" else d.get("gscript")
        if t[which] is not None and sid is not None:
            ids.setdefault(t[which], sid)
    for k, ent in sorted(_snapshot(modname, func).items()):
        try:
            text = "".join(ent[2])
        except Exception:  # noqa: BLE001
            text = None
        out.append([k, ids.get(text, 999)])
    return out


def _own_text_cached(cls, ref):
    """the entries the class's code objects point at hold the class's OWN scripts"""
    fns = generated_functions(cls)
    if not fns or ref[0] is None:
        return False
    ent = linecache.cache.get(fns[0].__code__.co_filename)
    if not (ent and "".join(ent[2]) == ref[0]):
        return False
    ga = cls.__dict__.get("__getattr__")
    if isinstance(ga, types.FunctionType) and ga.__code__.co_filename.startswith("<attrs generated"):
        ent = linecache.cache.get(ga.__code__.co_filename)
        return bool(ent) and ref[1] is not None and "".join(ent[2]) == ref[1]
    return ref[1] is None


def _nested_codes(co):
    for k in co.co_consts:
        if isinstance(k, types.CodeType):
            yield k
            yield from _nested_codes(k)


def reachable_generated_functions(cls):
    """every attrs-generated function object reachable from the class: the methods in its __dict__ (also behind
    classmethod/staticmethod/property), and functions in their closures and defaults"""
    seen, out, todo = set(), [], []
    for v in cls.__dict__.values():
        if isinstance(v, (classmethod, staticmethod)):
            v = v.__func__
        if isinstance(v, property):
            todo.extend(f for f in (v.fget, v.fset, v.fdel) if f is not None)
        else:
            todo.append(v)
    while todo:
        f = todo.pop()
        if not isinstance(f, types.FunctionType) or id(f) in seen:
            continue
        seen.add(id(f))
        if f.__code__.co_filename.startswith("<attrs generated"):
            out.append(f)
            for cell in f.__closure__ or ():
                try:
                    todo.append(cell.cell_contents)
                except ValueError:
                    pass
            todo.extend(f.__defaults__ or ())
            todo.extend((f.__kwdefaults__ or {}).values())
    return out


def _seed(modname, case):
    for qual, (count, sid) in case["pre"]:
        fn = candidate(unique_filename(modname, qual), count)
        text = pre_text(sid)
        linecache.cache[fn] = (len(text), None, text.splitlines(True), fn)


def _purge_entries(modname):
    for k in list(_snapshot(modname)):
        linecache.cache.pop(k, None)


def _purge(modname):
    _purge_entries(modname)
    sys.modules.pop(modname, None)


REFUSED = object()     # stands for a definition that was refused after code generation, as the case asked


def _files(classes):
    return [(_filename_of(c) if isinstance(c, type) else "!") for c in classes]


def _gfiles(case, classes):
    """filename of the generated __getattr__ of every definition that has a second script"""
    return [(_filename_of(c, "getattr") if isinstance(c, type) else "!")
            for d, c in zip(case["defs"], classes) if d.get("gscript") is not None]


def _source_flags(case, classes, refs):
    """per definition: a class that exists has faithful, intact source entries (checked at the END of the history,
    after every later successful or refused definition); a definition the case wanted refused was refused"""
    out = []
    for d, c, r in zip(case["defs"], classes, refs):
        if d.get("fails"):
            out.append(c is REFUSED)
        else:
            out.append(isinstance(c, type) and source_ok(c) and _own_text_cached(c, r))
    return out


# ------------------------------------------------------------------------------------------ histories
def observe_hist(case):
    modname = case["modul"]
    cfg = case.get("cfg", {})
    sys.modules.pop(modname, None)
    if cfg.get("registered", True):
        # harness-only: `registered: false` leaves the classes' __module__ out of sys.modules (a namespace that is
        # exec'd under its own __name__, a module dropped before its classes are defined)
        sys.modules[modname] = types.ModuleType(modname)
    classes, stable = [], []
    try:
        refs = reference_texts(modname, case, cfg)
        _seed(modname, case)
        for d in case["defs"]:
            before = _snapshot(modname)
            try:
                cls = define(modname, d, cfg)
            except Refused:
                cls = REFUSED
            except Exception:  # noqa: BLE001
                cls = None
            classes.append(cls)
            after = _snapshot(modname)
            stable.append(all(k in after and after[k] == v for k, v in before.items()))
        return {"files": _files(classes), "entries": _entries(modname, case, refs),
                "sourceOk": _source_flags(case, classes, refs), "stable": stable, "realised": True,
                "gfiles": _gfiles(case, classes), "gentries": _entries(modname, case, refs, "getattr")}
    finally:
        _purge(modname)


# ------------------------------------------------------------------------------------------ concurrency
class Controller:
    """decides which thread may perform its next operation on linecache.cache"""

    def __init__(self, sched, n):
        self.sched, self.n = list(sched), n
        self.pos = 0
        self.done = set()
        self.aborted = False
        self.cond = threading.Condition()
        self.tids = {}
        self.ops = []

    def _turn(self):
        while self.pos < len(self.sched) and self.sched[self.pos] in self.done:
            self.pos += 1
        if self.pos < len(self.sched):
            return self.sched[self.pos]
        rest = [i for i in range(self.n) if i not in self.done]
        return rest[0] if rest else None

    def me(self):
        return self.tids.get(threading.get_ident())

    def enter(self, tid):
        with self.cond:
            ok = self.cond.wait_for(lambda: self.aborted or self._turn() == tid, timeout=WAIT_S)
            if not ok:
                self.aborted = True
                self.cond.notify_all()

    def leave(self, tid, what):
        with self.cond:
            self.ops.append((tid, what))
            if not self.aborted and self.pos < len(self.sched) and self.sched[self.pos] == tid:
                self.pos += 1
            self.cond.notify_all()

    def finish(self, tid):
        with self.cond:
            self.done.add(tid)
            self.cond.notify_all()


class SchedCache(dict):
    """linecache.cache for the duration of one concurrent run: operations of the registered threads on this
    module's fake filenames happen one at a time, in the order the controller dictates"""

    def __init__(self, data, ctl, prefix):
        super().__init__(data)
        self._ctl, self._prefix = ctl, prefix

    def _gated(self, key, what, thunk):
        tid = self._ctl.me()
        if tid is None or not (isinstance(key, str) and key.startswith(self._prefix)):
            return thunk()
        self._ctl.enter(tid)
        try:
            return thunk()
        finally:
            self._ctl.leave(tid, what)

    def setdefault(self, key, default=None):
        return self._gated(key, "setdefault", lambda: dict.setdefault(self, key, default))

    def __contains__(self, key):
        return self._gated(key, "contains", lambda: dict.__contains__(self, key))

    def get(self, key, default=None):
        return self._gated(key, "get", lambda: dict.get(self, key, default))

    def __getitem__(self, key):
        return self._gated(key, "getitem", lambda: dict.__getitem__(self, key))

    def __setitem__(self, key, value):
        return self._gated(key, "setitem", lambda: dict.__setitem__(self, key, value))


def observe_conc(case):
    modname = case["modul"]
    cfg = case.get("cfg", {})
    n = len(case["defs"])
    sys.modules.pop(modname, None)
    if cfg.get("registered", True):
        # harness-only: `registered: false` leaves the classes' __module__ out of sys.modules (a namespace that is
        # exec'd under its own __name__, a module dropped before its classes are defined)
        sys.modules[modname] = types.ModuleType(modname)
    ctl = Controller(case["sched"], n)
    classes = [None] * n
    original = linecache.cache
    threads = []
    try:
        refs = reference_texts(modname, case, cfg)
        _seed(modname, case)
        before = _snapshot(modname)
        sc = SchedCache(original, ctl, _prefix(modname))
        linecache.cache = sc
        try:
            def work(i):
                ctl.tids[threading.get_ident()] = i
                try:
                    classes[i] = define(modname, case["defs"][i], cfg)
                except Refused:
                    classes[i] = REFUSED
                except Exception:  # noqa: BLE001
                    classes[i] = None
                finally:
                    ctl.finish(i)

            threads = [threading.Thread(target=work, args=(i,), daemon=True) for i in range(n)]
            for t in threads:
                t.start()
            for t in threads:
                t.join(WAIT_S * 3)
        finally:
            ctl.aborted = ctl.aborted or any(t.is_alive() for t in threads)
            with ctl.cond:
                ctl.cond.notify_all()
            linecache.cache = original
            original.clear()
            original.update(dict.items(sc))
        after = _snapshot(modname)
        keep = all(k in after and after[k] == v for k, v in before.items())
        return {"files": _files(classes), "entries": _entries(modname, case, refs),
                "sourceOk": _source_flags(case, classes, refs),
                "stable": [keep] * n, "realised": not ctl.aborted,
                "gfiles": _gfiles(case, classes), "gentries": _entries(modname, case, refs, "getattr")}
    finally:
        linecache.cache = original
        _purge(modname)
