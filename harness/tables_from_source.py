"""T1: extract literal tables and keyword defaults from /repo's *current* source with `ast`
(no import of attrs, so a syntax-valid but crashing tree still translates) and write them as Lean
literals to Generated/Tables.lean.  The model uses these tables; theorems comparing them with the
documented values are re-checked by `lake build` against what the code says now.

If an item cannot be extracted (the shape of the source changed), the pinned fallback value is
written instead and the item is reported in `broken` -- handled by the verdict rules as a broken tie.
"""
from __future__ import annotations

import ast
import os
from pathlib import Path

REPO_SRC = Path(os.environ.get("ATTRS_REPO", "/repo")) / "src" / "attr"
OUT = Path(__file__).resolve().parent.parent / "lean" / "AttrsModel" / "AttrsModel" / "Generated" / "Tables.lean"


def lean_str(s: str) -> str:
    return '"' + s.replace("\\", "\\\\").replace('"', '\\"').replace("\n", "\\n") + '"'


def lit(node: ast.AST) -> str:
    if isinstance(node, ast.Constant):
        v = node.value
        if v is None:
            return "Lit.none"
        if v is True or v is False:
            return f"Lit.bool {'true' if v else 'false'}"
        if isinstance(v, int):
            return f"Lit.int ({v})"
        if isinstance(v, str):
            return f"Lit.str {lean_str(v)}"
    return f"Lit.other {lean_str(ast.unparse(node))}"


def lean_list(items) -> str:
    return "[" + ", ".join(items) + "]"


class Src:
    def __init__(self, name):
        self.path = REPO_SRC / name
        self.tree = ast.parse(self.path.read_text())

    def func(self, name) -> ast.FunctionDef:
        for n in ast.walk(self.tree):
            if isinstance(n, ast.FunctionDef) and n.name == name:
                return n
        raise KeyError(name)

    def const(self, name) -> ast.AST:
        for n in self.tree.body:
            if isinstance(n, ast.Assign) and len(n.targets) == 1 and isinstance(n.targets[0], ast.Name):
                if n.targets[0].id == name:
                    return n.value
        raise KeyError(name)


def kw_defaults(fn: ast.FunctionDef) -> str:
    a = fn.args
    out = []
    pos = a.posonlyargs + a.args
    for arg, d in zip(pos[len(pos) - len(a.defaults):], a.defaults):
        out.append(f"({lean_str(arg.arg)}, {lit(d)})")
    for arg, d in zip(a.kwonlyargs, a.kw_defaults):
        if d is not None:
            out.append(f"({lean_str(arg.arg)}, {lit(d)})")
    return lean_list(out)


def str_tuple(node: ast.AST) -> str:
    if not isinstance(node, (ast.Tuple, ast.List)):
        raise ValueError("not a tuple")
    vals = []
    for e in node.elts:
        if not (isinstance(e, ast.Constant) and isinstance(e.value, str)):
            raise ValueError("non-string element")
        vals.append(lean_str(e.value))
    return lean_list(vals)


def in_tuples(fn: ast.FunctionDef):
    """All `<name> in (<tuple>)` comparisons in a function, in source order."""
    res = []
    for n in ast.walk(fn):
        if isinstance(n, ast.Compare) and len(n.ops) == 1 and isinstance(n.ops[0], ast.In):
            if isinstance(n.comparators[0], (ast.Tuple, ast.List)):
                res.append((n.lineno, n.col_offset, n.comparators[0]))
    res.sort(key=lambda t: t[:2])
    return [t[2] for t in res]


def to_bool_tables(conv: Src):
    fn = conv.func("to_bool")
    true_t = false_t = None
    for n in ast.walk(fn):
        if isinstance(n, ast.If) and isinstance(n.test, ast.Compare) and isinstance(n.test.ops[0], ast.In):
            body = n.body
            if len(body) == 1 and isinstance(body[0], ast.Return) and isinstance(body[0].value, ast.Constant):
                tup = n.test.comparators[0]
                if body[0].value.value is True:
                    true_t = tup
                elif body[0].value.value is False:
                    false_t = tup
    if true_t is None or false_t is None:
        raise ValueError("to_bool tables not found")
    lowers = any(
        isinstance(n, ast.Call) and isinstance(n.func, ast.Attribute) and n.func.attr == "lower" for n in ast.walk(fn)
    )
    return (
        lean_list([lit(e) for e in true_t.elts]),
        lean_list([lit(e) for e in false_t.elts]),
        "true" if lowers else "false",
    )


# Pinned fallbacks (the values at the commit the framework was written against).
FALLBACK = {
    "toBoolTrue": '[Lit.bool true, Lit.str "true", Lit.str "t", Lit.str "yes", Lit.str "y", Lit.str "on", Lit.str "1", Lit.int (1)]',
    "toBoolFalse": '[Lit.bool false, Lit.str "false", Lit.str "f", Lit.str "no", Lit.str "n", Lit.str "off", Lit.str "0", Lit.int (0)]',
    "toBoolLowers": "true",
    "frozenExcSetNames": '["__cause__", "__context__", "__traceback__", "__suppress_context__", "__notes__"]',
    "frozenExcDelNames": '["__notes__"]',
    "classVarPrefixes": '["typing.ClassVar", "t.ClassVar", "ClassVar", "typing_extensions.ClassVar"]',
    "hashCacheField": '"_attrs_cached_hash"',
    "initFactoryPat": '"__attr_factory_%s"',
    "attrsKw": '[("maybe_cls", Lit.none), ("these", Lit.none), ("repr_ns", Lit.none), ("repr", Lit.none), ("cmp", Lit.none), ("hash", Lit.none), ("init", Lit.none), ("slots", Lit.bool false), ("frozen", Lit.bool false), ("weakref_slot", Lit.bool true), ("str", Lit.bool false), ("auto_attribs", Lit.bool false), ("kw_only", Lit.bool false), ("cache_hash", Lit.bool false), ("auto_exc", Lit.bool false), ("eq", Lit.none), ("order", Lit.none), ("auto_detect", Lit.bool false), ("collect_by_mro", Lit.bool false), ("getstate_setstate", Lit.none), ("on_setattr", Lit.none), ("field_transformer", Lit.none), ("match_args", Lit.bool true), ("unsafe_hash", Lit.none)]',
    "defineKw": '[("maybe_cls", Lit.none), ("these", Lit.none), ("repr", Lit.none), ("unsafe_hash", Lit.none), ("hash", Lit.none), ("init", Lit.none), ("slots", Lit.bool true), ("frozen", Lit.bool false), ("weakref_slot", Lit.bool true), ("str", Lit.bool false), ("auto_attribs", Lit.none), ("kw_only", Lit.bool false), ("cache_hash", Lit.bool false), ("auto_exc", Lit.bool true), ("eq", Lit.none), ("order", Lit.bool false), ("auto_detect", Lit.bool true), ("getstate_setstate", Lit.none), ("on_setattr", Lit.none), ("field_transformer", Lit.none), ("match_args", Lit.bool true)]',
    "attribKw": '[("default", Lit.other "NOTHING"), ("validator", Lit.none), ("repr", Lit.bool true), ("cmp", Lit.none), ("hash", Lit.none), ("init", Lit.bool true), ("metadata", Lit.none), ("type", Lit.none), ("converter", Lit.none), ("factory", Lit.none), ("kw_only", Lit.bool false), ("eq", Lit.none), ("order", Lit.none), ("on_setattr", Lit.none), ("alias", Lit.none)]',
    "fieldKw": '[("default", Lit.other "NOTHING"), ("validator", Lit.none), ("repr", Lit.bool true), ("hash", Lit.none), ("init", Lit.bool true), ("metadata", Lit.none), ("type", Lit.none), ("converter", Lit.none), ("factory", Lit.none), ("kw_only", Lit.bool false), ("eq", Lit.none), ("order", Lit.none), ("on_setattr", Lit.none), ("alias", Lit.none)]',
    "matchesReFuncs": '["fullmatch", "search", "match"]',
    "frozenPartialKw": '[("frozen", Lit.bool true), ("on_setattr", Lit.none)]',
    "defaultOnSetattr": '["convert", "validate"]',
    # C17: naming scheme of the helper globals (prefix, suffix around the field name), fixed helper names per
    # generated script, and the order in which namespaces are merged into the globals of generated methods
    "c17FactoryAffix": '("__attr_factory_", "")',
    "c17ValidatorAffix": '("__attr_validator_", "")',
    "c17AttributeAffix": '("__attr_attribute_", "")',
    "c17ConverterAffix": '("__attr_converter_", "")',
    "c17EqKeyAffix": '("__attr_key_", "")',
    "c17HashKeyAffix": '("__attr_key_", "")',
    "c17ReprAffix": '("__attr_repr_", "")',
    "c17ReprCallAffix": '("__attr_repr_", "")',
    "c17ReprFixed": '["_compat", "AttributeError", "NOTHING", "id", "getattr"]',
    "c17EqFixed": '["NotImplemented"]',
    "c17HashFixed": '["hash", "object", "__import__"]',
    "c17InitFixed": '["NOTHING", "attr_dict"]',
    "c17EvalMergeOrder": '["module", "snippets"]',
    "c17InitMergeOrder": '["names", "fixed"]',
    "c17GetattrFixed": '["cached_properties", "_cached_setattr_get", "original_getattr"]',
    "c17GetattrMergeOrder": '["fixed"]',
    "c17EvalExtraBindings": '[]',
    # C16: names the per-class closures rebind in their factory's scope (`nonlocal`/`global` statements)
    "attrsWrapRebinds": "[]",
    "defineWrapRebinds": "[]",
    "makeClassDictAliased": "false",
    # C16: outermost functions / Class.method of _make.py and _next_gen.py whose code reads an attribute of `_config`
    "configReaders": '["validate"]',
}

TYPES = {
    "toBoolTrue": "List Lit", "toBoolFalse": "List Lit", "toBoolLowers": "Bool",
    "frozenExcSetNames": "List String", "frozenExcDelNames": "List String",
    "classVarPrefixes": "List String", "hashCacheField": "String", "initFactoryPat": "String",
    "attrsKw": "List (String × Lit)", "defineKw": "List (String × Lit)",
    "attribKw": "List (String × Lit)", "fieldKw": "List (String × Lit)",
    "matchesReFuncs": "List String", "frozenPartialKw": "List (String × Lit)",
    "defaultOnSetattr": "List String",
    "c17FactoryAffix": "String × String", "c17ValidatorAffix": "String × String",
    "c17AttributeAffix": "String × String", "c17ConverterAffix": "String × String",
    "c17EqKeyAffix": "String × String", "c17HashKeyAffix": "String × String",
    "c17ReprAffix": "String × String", "c17ReprCallAffix": "String × String",
    "c17ReprFixed": "List String", "c17EqFixed": "List String", "c17HashFixed": "List String",
    "c17InitFixed": "List String", "c17EvalMergeOrder": "List String", "c17InitMergeOrder": "List String",
    "c17GetattrFixed": "List String", "c17GetattrMergeOrder": "List String", "c17EvalExtraBindings": "List String",
    "attrsWrapRebinds": "List String", "defineWrapRebinds": "List String", "makeClassDictAliased": "Bool",
    "configReaders": "List String",
}


def _matches_re_funcs(v: Src) -> str:
    fn = v.func("matches_re")
    for n in ast.walk(fn):
        if isinstance(n, ast.Assign) and isinstance(n.targets[0], ast.Name) and n.targets[0].id == "valid_funcs":
            names = []
            for e in n.value.elts:
                if isinstance(e, ast.Attribute):
                    names.append(e.attr)
                elif isinstance(e, ast.Constant) and e.value is None:
                    continue
                else:
                    raise ValueError("valid_funcs element")
            return lean_list([lean_str(x) for x in names])
    raise ValueError("valid_funcs not found")


def _frozen_partial(ng: Src) -> str:
    call = ng.const("frozen")
    if not (isinstance(call, ast.Call) and ast.unparse(call.func) == "partial" and ast.unparse(call.args[0]) == "define"):
        raise ValueError("frozen is not partial(define, …)")
    return lean_list([f"({lean_str(k.arg)}, {lit(k.value)})" for k in call.keywords])


def _default_on_setattr(mk: Src) -> str:
    call = mk.const("_DEFAULT_ON_SETATTR")
    if not (isinstance(call, ast.Call) and ast.unparse(call.func) == "setters.pipe"):
        raise ValueError("_DEFAULT_ON_SETATTR shape")
    names = []
    for a in call.args:
        if isinstance(a, ast.Attribute) and ast.unparse(a.value) == "setters":
            names.append(a.attr)
        else:
            raise ValueError("pipe arg")
    return lean_list([lean_str(x) for x in names])


# ---------------------------------------------------------------------------------------------- C17
def _lean_pair(a: str, b: str) -> str:
    return f"({lean_str(a)}, {lean_str(b)})"


def _affix_of(node: ast.AST) -> str:
    """(prefix, suffix) of a name built around exactly one variable part:
    f"pre{v}suf", "pre" + v, v + "suf", "pre" + v + "suf", "pre%ssuf" % (v,), or a "pre%ssuf" pattern constant."""
    if isinstance(node, ast.JoinedStr):
        pre, suf, seen = "", "", 0
        for part in node.values:
            if isinstance(part, ast.FormattedValue):
                if part.conversion != -1 or part.format_spec is not None:
                    raise ValueError("formatted value with conversion")
                seen += 1
            elif isinstance(part, ast.Constant) and isinstance(part.value, str):
                if seen == 0:
                    pre += part.value
                else:
                    suf += part.value
            else:
                raise ValueError("f-string part")
        if seen != 1:
            raise ValueError("f-string must have exactly one variable part")
        return _lean_pair(pre, suf)
    if isinstance(node, ast.BinOp) and isinstance(node.op, ast.Add):
        l, r = node.left, node.right
        lc = isinstance(l, ast.Constant) and isinstance(l.value, str)
        rc = isinstance(r, ast.Constant) and isinstance(r.value, str)
        if lc and not rc:
            if isinstance(r, (ast.Name, ast.Attribute)):
                return _lean_pair(l.value, "")
        if rc and not lc:
            if isinstance(l, (ast.Name, ast.Attribute)):
                return _lean_pair("", r.value)
            if isinstance(l, ast.BinOp) and isinstance(l.op, ast.Add) and isinstance(l.left, ast.Constant) \
                    and isinstance(l.left.value, str) and isinstance(l.right, (ast.Name, ast.Attribute)):
                return _lean_pair(l.left.value, r.value)
        raise ValueError("concatenation shape")
    if isinstance(node, ast.BinOp) and isinstance(node.op, ast.Mod):
        node = node.left
    if isinstance(node, ast.Constant) and isinstance(node.value, str):
        if node.value.count("%s") != 1 or node.value.replace("%s", "").count("%"):
            raise ValueError("pattern must contain exactly one %s")
        pre, suf = node.value.split("%s")
        return _lean_pair(pre, suf)
    raise ValueError("unrecognised name expression")


def _assigned_value(fn: ast.AST, target: str, pred=lambda v: True) -> ast.AST:
    hits = [n.value for n in ast.walk(fn)
            if isinstance(n, ast.Assign) and len(n.targets) == 1 and isinstance(n.targets[0], ast.Name)
            and n.targets[0].id == target and pred(n.value)]
    if not hits:
        raise ValueError(f"no assignment to {target}")
    first = ast.dump(hits[0])
    if any(ast.dump(h) != first for h in hits):
        raise ValueError(f"{target} is built in different ways")
    return hits[0]


def _is_built(v: ast.AST) -> bool:
    return isinstance(v, (ast.JoinedStr, ast.BinOp))


def _c17_converter_affix(mk: Src) -> str:
    fn = mk.func("_get_global_name")
    rets = [n.value for n in ast.walk(fn) if isinstance(n, ast.Return)]
    if len(rets) != 1:
        raise ValueError("_get_global_name shape")
    return _affix_of(rets[0])


def _c17_repr_affix(mk: Src) -> str:
    fn = mk.func("_make_repr_script")
    for n in ast.walk(fn):
        if isinstance(n, ast.DictComp):
            return _affix_of(n.key)
    raise ValueError("repr globs comprehension not found")


def _c17_repr_call_affix(mk: Src) -> str:
    import re

    fn = mk.func("_make_repr_script")
    found = []
    for n in ast.walk(fn):
        if isinstance(n, ast.Constant) and isinstance(n.value, str):
            m = re.fullmatch(r"%s=\{(\w*)%s(\w*)\(%s\)\}", n.value)
            if m:
                found.append((m.group(1), m.group(2)))
    if len(found) != 1:
        raise ValueError("custom-repr fragment not found")
    return _lean_pair(*found[0])


def _in_order(fn: ast.AST):
    nodes = [n for n in ast.walk(fn) if hasattr(n, "lineno")]
    nodes.sort(key=lambda n: (n.lineno, n.col_offset))
    return nodes


def _c17_fixed_globs(mk: Src, func: str) -> str:
    """constant keys put into `globs` by a script generator: `globs = {...}`, `globs["k"] = v`,
    `globs.update({...})` -- unconditional statements of the function body only"""
    fn = mk.func(func)
    keys = []

    def dict_keys(d):
        for k in d.keys:
            if k is None:       # `**other` inside the literal: not a fixed name
                continue
            if isinstance(k, ast.Constant) and isinstance(k.value, str):
                keys.append(k.value)
            else:
                raise ValueError("non-constant key")

    for st in fn.body:
        if isinstance(st, ast.Assign) and len(st.targets) == 1:
            t = st.targets[0]
            if isinstance(t, ast.Name) and t.id == "globs" and isinstance(st.value, ast.Dict):
                dict_keys(st.value)
            elif isinstance(t, ast.Subscript) and isinstance(t.value, ast.Name) and t.value.id == "globs" \
                    and isinstance(t.slice, ast.Constant) and isinstance(t.slice.value, str):
                keys.append(t.slice.value)
        elif isinstance(st, ast.Expr) and isinstance(st.value, ast.Call) and ast.unparse(st.value.func) == "globs.update" \
                and len(st.value.args) == 1 and isinstance(st.value.args[0], ast.Dict):
            dict_keys(st.value.args[0])
    return lean_list([lean_str(k) for k in keys])


def _c17_merge_order(mk: Src, func: str) -> str:
    """the order in which namespaces reach the globals dict of the generated functions"""
    fn = mk.func(func)
    out = []
    for n in _in_order(fn):
        if isinstance(n, ast.Call) and ast.unparse(n.func) == "globs.update" and len(n.args) == 1:
            a = n.args[0]
            if "sys.modules" in ast.unparse(a) or "__dict__" in ast.unparse(a):
                out.append("module")
            elif isinstance(a, ast.Name) and a.id == "snippet_globs":
                out.append("snippets")
            elif isinstance(a, ast.Dict):
                out.append("fixed")
            else:
                raise ValueError("unrecognised globs.update argument")
        elif isinstance(n, ast.Assign) and isinstance(n.value, ast.Call) \
                and ast.unparse(n.value.func) == "_attrs_to_init_script":
            out.append("names")
    if not out:
        raise ValueError("no merges found")
    return lean_list([lean_str(x) for x in out])
def _rebinds(src: Src, factory: str) -> str:
    """C16: names declared `nonlocal`/`global` in any closure nested in `factory` -- the only way such a
    closure can rebind a variable of the factory call (or of the module) between applications."""
    fn = src.func(factory)
    inner = [n for n in ast.walk(fn) if isinstance(n, (ast.FunctionDef, ast.Lambda)) and n is not fn]
    if not inner:
        raise ValueError(f"{factory} has no nested closure")
    names = []
    for i in inner:
        for n in ast.walk(i):
            if isinstance(n, (ast.Nonlocal, ast.Global)):
                names += [x for x in n.names if x not in names]
    return lean_list([lean_str(x) for x in names])


def _make_class_dict_aliased(mk: Src) -> str:
    """C16: does `make_class` bind a working variable to the caller's `attrs` object itself (`x = attrs`)?"""
    fn = mk.func("make_class")
    if "attrs" not in [a.arg for a in fn.args.posonlyargs + fn.args.args + fn.args.kwonlyargs]:
        raise ValueError("make_class has no `attrs` parameter")
    for n in ast.walk(fn):
        if isinstance(n, ast.Assign) and isinstance(n.value, ast.Name) and n.value.id == "attrs":
            return "true"
        if isinstance(n, (ast.AnnAssign, ast.NamedExpr)) and isinstance(n.value, ast.Name) and n.value.id == "attrs":
            return "true"
    return "false"


def _c17_eval_extra_bindings(mk: Src) -> str:
    """bindings `_eval_snippets` puts into the globals of the generated methods under a name that is not a
    constant (`globs[<expr>] = ...`, `globs.setdefault(<expr>, ...)`): names nobody can vouch for statically"""
    fn = mk.func("_eval_snippets")
    out = []
    for n in _in_order(fn):
        if isinstance(n, (ast.Assign, ast.AugAssign, ast.AnnAssign)):
            targets = n.targets if isinstance(n, ast.Assign) else [n.target]
            for t in targets:
                if isinstance(t, ast.Subscript) and ast.unparse(t.value) == "globs":
                    out.append(ast.unparse(t.slice))
        elif isinstance(n, ast.Call) and ast.unparse(n.func) in ("globs.setdefault", "globs.__setitem__") and n.args:
            out.append(ast.unparse(n.args[0]))
    return lean_list([lean_str(x) for x in out])


def _c17_getattr_globals(mk: Src):
    """globals dict of the cached-property __getattr__ script: constant keys and the order of its sources"""
    fn = mk.func("_make_cached_property_getattr")
    keys, order = [], []

    def dict_keys(d):
        for k in d.keys:
            if k is None:
                continue
            if isinstance(k, ast.Constant) and isinstance(k.value, str):
                keys.append(k.value)
            else:
                raise ValueError("non-constant key")

    for n in _in_order(fn):
        if isinstance(n, ast.Assign) and len(n.targets) == 1 and isinstance(n.targets[0], ast.Name) \
                and n.targets[0].id in ("glob", "globs") and isinstance(n.value, ast.Dict):
            if n.value.keys:
                dict_keys(n.value)
                order.append("fixed")
        elif isinstance(n, ast.Call) and ast.unparse(n.func) in ("glob.update", "globs.update") and len(n.args) == 1:
            a = n.args[0]
            if "sys.modules" in ast.unparse(a) or "__dict__" in ast.unparse(a):
                order.append("module")
            elif isinstance(a, ast.Dict):
                dict_keys(a)
                order.append("fixed")
            else:
                raise ValueError("unrecognised update argument")
        elif isinstance(n, ast.Assign) and len(n.targets) == 1 and isinstance(n.targets[0], ast.Subscript) \
                and ast.unparse(n.targets[0].value) in ("glob", "globs"):
            t = n.targets[0]
            if isinstance(t.slice, ast.Constant) and isinstance(t.slice.value, str):
                keys.append(t.slice.value)
                order.append("fixed")
            else:
                raise ValueError("non-constant key")
    if not keys:
        raise ValueError("globals of the __getattr__ script not found")
    dedup = []
    for o in order:
        if not dedup or dedup[-1] != o:
            dedup.append(o)
    return lean_list([lean_str(k) for k in keys]), lean_list([lean_str(o) for o in dedup])


def _config_readers(srcs) -> str:
    """C16: which functions read the process-global configuration (`_config.<attr>` as an expression, not inside
    the TEXT of a generated method): named by their outermost def, `Class.method` for methods."""
    names = []
    for src in srcs:
        def visit(body, prefix):
            for n in body:
                if isinstance(n, ast.ClassDef):
                    visit(n.body, prefix + n.name + ".")
                elif isinstance(n, (ast.FunctionDef, ast.AsyncFunctionDef)):
                    for m in ast.walk(n):
                        if isinstance(m, ast.Attribute) and isinstance(m.value, ast.Name) and m.value.id == "_config":
                            if prefix + n.name not in names:
                                names.append(prefix + n.name)
                            break
        visit(src.tree.body, "")
    return lean_list([lean_str(x) for x in names])


def extract() -> tuple[dict, list]:
    vals, broken = {}, []

    def item(name, thunk):
        try:
            vals[name] = thunk()
        except Exception as e:  # noqa: BLE001
            vals[name] = FALLBACK[name]
            broken.append(f"{name}: {type(e).__name__}: {e}")

    srcs = {}

    def src(n):
        if n not in srcs:
            srcs[n] = Src(n)
        return srcs[n]

    def tb(i):
        return lambda: to_bool_tables(src("converters.py"))[i]

    item("toBoolTrue", tb(0))
    item("toBoolFalse", tb(1))
    item("toBoolLowers", tb(2))
    item("frozenExcSetNames", lambda: str_tuple(in_tuples(src("_make.py").func("_frozen_setattrs"))[0]))
    item("frozenExcDelNames", lambda: str_tuple(in_tuples(src("_make.py").func("_frozen_delattrs"))[0]))
    item("classVarPrefixes", lambda: str_tuple(src("_make.py").const("_CLASSVAR_PREFIXES")))
    item("hashCacheField", lambda: lean_str(ast.literal_eval(src("_make.py").const("_HASH_CACHE_FIELD"))))
    item("initFactoryPat", lambda: lean_str(ast.literal_eval(src("_make.py").const("_INIT_FACTORY_PAT"))))
    item("attrsKw", lambda: kw_defaults(src("_make.py").func("attrs")))
    item("defineKw", lambda: kw_defaults(src("_next_gen.py").func("define")))
    item("attribKw", lambda: kw_defaults(src("_make.py").func("attrib")))
    item("fieldKw", lambda: kw_defaults(src("_next_gen.py").func("field")))
    item("matchesReFuncs", lambda: _matches_re_funcs(src("validators.py")))
    item("frozenPartialKw", lambda: _frozen_partial(src("_next_gen.py")))
    item("defaultOnSetattr", lambda: _default_on_setattr(src("_make.py")))
    mk = lambda: src("_make.py")  # noqa: E731
    item("c17FactoryAffix", lambda: _affix_of(mk().const("_INIT_FACTORY_PAT")))
    item("c17ValidatorAffix", lambda: _affix_of(_assigned_value(mk().func("_attrs_to_init_script"), "val_name", _is_built)))
    item("c17AttributeAffix", lambda: _affix_of(_assigned_value(mk().func("_attrs_to_init_script"), "attr_name", _is_built)))
    item("c17ConverterAffix", lambda: _c17_converter_affix(mk()))
    item("c17EqKeyAffix", lambda: _affix_of(_assigned_value(mk().func("_make_eq_script"), "cmp_name")))
    item("c17HashKeyAffix", lambda: _affix_of(_assigned_value(mk().func("_make_hash_script"), "cmp_name")))
    item("c17ReprAffix", lambda: _c17_repr_affix(mk()))
    item("c17ReprCallAffix", lambda: _c17_repr_call_affix(mk()))
    item("c17ReprFixed", lambda: _c17_fixed_globs(mk(), "_make_repr_script"))
    item("c17EqFixed", lambda: _c17_fixed_globs(mk(), "_make_eq_script"))
    item("c17HashFixed", lambda: _c17_fixed_globs(mk(), "_make_hash_script"))
    item("c17InitFixed", lambda: _c17_fixed_globs(mk(), "_make_init_script"))
    item("c17EvalMergeOrder", lambda: _c17_merge_order(mk(), "_eval_snippets"))
    item("c17InitMergeOrder", lambda: _c17_merge_order(mk(), "_make_init_script"))
    item("c17EvalExtraBindings", lambda: _c17_eval_extra_bindings(mk()))
    item("c17GetattrFixed", lambda: _c17_getattr_globals(mk())[0])
    item("c17GetattrMergeOrder", lambda: _c17_getattr_globals(mk())[1])
    item("attrsWrapRebinds", lambda: _rebinds(src("_make.py"), "attrs"))
    item("defineWrapRebinds", lambda: _rebinds(src("_next_gen.py"), "define"))
    item("makeClassDictAliased", lambda: _make_class_dict_aliased(src("_make.py")))
    item("configReaders", lambda: _config_readers([src("_make.py"), src("_next_gen.py")]))
    return vals, broken


def render(vals: dict) -> str:
    lines = [
        "/- GENERATED by harness/tables_from_source.py from /repo/src/attr on every run (T1). Do not edit. -/",
        "import AttrsModel.Core",
        "",
        "namespace Attrs.Generated",
        "",
    ]
    for k in TYPES:
        lines.append(f"def {k} : {TYPES[k]} := {vals[k]}")
    lines += ["", "end Attrs.Generated", ""]
    return "\n".join(lines)


def regenerate() -> dict:
    vals, broken = extract()
    text = render(vals)
    changed = not OUT.exists() or OUT.read_text() != text
    if changed:
        OUT.parent.mkdir(parents=True, exist_ok=True)
        OUT.write_text(text)
    pinned = {k: vals[k] == FALLBACK[k] for k in TYPES}
    return {"changed": changed, "broken": broken, "differs_from_pinned": [k for k, v in pinned.items() if not v]}


if __name__ == "__main__":
    print(regenerate())
