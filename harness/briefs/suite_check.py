"""usage: /venv/bin/python /tmp/seed/suite_check.py <worktree>
Runs the pinned attrs test-suite of <worktree> against <worktree>/src and compares with the baseline list
of tests that must pass. Exit 0 = every baseline test still passes."""
import json, os, subprocess, sys, tempfile
import xml.etree.ElementTree as ET
wt = os.path.abspath(sys.argv[1])
base = json.load(open("/root/.vp/BASELINE.json"))
xml = tempfile.mktemp(suffix=".xml")
env = dict(os.environ, PYTHONPATH=os.path.join(wt, "src"), PYTHONDONTWRITEBYTECODE="1")
cmd = ["/venv/bin/python", "-m", "pytest", "-ra", "-q", "-p", "no:cacheprovider", "--timeout=900",
       "--continue-on-collection-errors", f"--junitxml={xml}"]
p = subprocess.run(cmd, cwd=wt, env=env, capture_output=True, text=True)
chk = subprocess.run(["/venv/bin/python", "-c", "import attr; print(attr.__file__)"], cwd=wt, env=env, capture_output=True, text=True)
print("attr imported from:", chk.stdout.strip())
passed = set()
for tc in ET.parse(xml).getroot().iter("testcase"):
    if not any(ch.tag in ("failure", "error", "skipped") for ch in tc):
        passed.add(f"{tc.get('classname')}::{tc.get('name')}")
os.unlink(xml)
missing = [t for t in base["stable_pass"] if t not in passed]
print(f"baseline tests: {len(base['stable_pass'])}  passing now: {len(passed)}  baseline tests NOT passing: {len(missing)}")
for m in missing[:40]:
    print("  NOT PASSING:", m)
sys.exit(1 if missing else 0)
