"""C19 (b) to_bool, default_if_none argument checks; (c) filters; (d) cmp_using -- observers and generators."""
from __future__ import annotations

import itertools
import operator
from decimal import Decimal
from fractions import Fraction

import attr
import attrs
from attr import converters as cv
from attr import filters

import common

# ============================================================================================ to_bool


class MyInt(int):
    pass


class MyStr(str):
    pass


DOC_TRUE = ["true", "t", "yes", "y", "on", "1"]
DOC_FALSE = ["false", "f", "no", "n", "off", "0"]

NUM_MAKERS = {
    "float": lambda n: float(n),
    "complex": lambda n: complex(n, 0),
    "Decimal": lambda n: Decimal(n),
    "Fraction": lambda n: Fraction(n),
    "negzero": lambda n: -0.0,
}

OTHERS = {
    "None": lambda: None, "list": lambda: [], "list1": lambda: [1], "listTrue": lambda: [True], "bytes_true": lambda: b"true",
    "bytes_1": lambda: b"1", "nan": lambda: float("nan"), "half": lambda: 0.5, "tuple1": lambda: (1,),
    "tupleTrue": lambda: (True,), "dict": lambda: {}, "set": lambda: set(), "object": lambda: object(),
    "bytearray": lambda: bytearray(b"yes"), "range1": lambda: range(1), "ellipsis": lambda: Ellipsis,
    "NotImplemented": lambda: NotImplemented, "type_bool": lambda: bool, "lambda": lambda: (lambda: True),
    "complex_i": lambda: 1j, "frozenset": lambda: frozenset([1]), "Decimal_half": lambda: Decimal("0.5"),
    "inf": lambda: float("inf"),
}

NEAR_MISS = ["", " ", "2", "-1", "10", "01", "00", "11", " true", "true ", "tr ue", "truee", "tru", "rue", "yess", "ye",
             "o", "of", "offf", "nn", "yy", "tt", "ff", "none", "null", "nil", "enable", "enabled", "disabled", "ok",
             "True\n", "\ttrue", "y\x00", "1.0", "0.0", "+1", "1 ", "t.", "on/off", "yes,no", "truefalse",
             "ｔｒｕｅ", "K", "oK", "İ", "yeſ", "١", "¹", "①", "ı",
             "TRUE​", "Т", "Υ", "\U0001d42d"]


def case_variants(w):
    opts = [(ch.lower(), ch.upper()) if ch.lower() != ch.upper() else (ch,) for ch in w]
    for combo in itertools.product(*opts):
        yield "".join(combo)


def tb_case(v, py):
    return {"kind": "tobool", "v": v, "py": py}


def tb_value(case):
    (k, a), = case["v"].items() if isinstance(case["v"], dict) else ((case["v"], None),)
    py = case.get("py")
    if k == "str":
        return MyStr(a["s"]) if py == "strsub" else a["s"]
    if k == "bool":
        return a["b"]
    if k == "int":
        return MyInt(a["n"]) if py == "intsub" else a["n"]
    if k == "numEq":
        return NUM_MAKERS[py](a["n"])
    return OTHERS[py]()


def tb_observe(case):
    try:
        v = tb_value(case)
        r = cv.to_bool(v)
    except ValueError:
        return {"res": "valueError"}
    except BaseException:  # noqa: BLE001
        return {"res": "otherExc"}
    return {"res": "T" if r is True else "F" if r is False else "otherVal"}


def tb_gen(tier, rng):
    for w in DOC_TRUE + DOC_FALSE:
        for s in case_variants(w):
            yield tb_case({"str": {"s": s}}, "str")
        yield tb_case({"str": {"s": w.title()}}, "strsub")
    for b in (True, False):
        yield tb_case({"bool": {"b": b}}, "bool")
    for n in (-2, -1, 0, 1, 2, 3, 10, 255, 2 ** 70, -(2 ** 70)):
        yield tb_case({"int": {"n": n}}, "int")
        yield tb_case({"int": {"n": n}}, "intsub")
    for n in (-1, 0, 1, 2):
        for mk in ("float", "complex", "Decimal", "Fraction"):
            yield tb_case({"numEq": {"n": n}}, mk)
    yield tb_case({"numEq": {"n": 0}}, "negzero")
    for name in OTHERS:
        yield tb_case("other", name)
    for s in NEAR_MISS:
        yield tb_case({"str": {"s": s}}, "str")
        for v in list(case_variants(s))[:4]:
            yield tb_case({"str": {"s": v}}, rng.choice(["str", "strsub"]))
    # random strings near the table words: one edit away, random case
    alphabet = "tfynoTFYNOruesaljRUESALJ01 2"
    n = 2500 if tier == "quick" else 60000
    for _ in range(n):
        w = rng.choice(DOC_TRUE + DOC_FALSE)
        s = "".join(rng.choice((ch.lower(), ch.upper())) for ch in w)
        r = rng.random()
        if r < 0.25 and s:
            i = rng.randrange(len(s))
            s = s[:i] + s[i + 1:]
        elif r < 0.5:
            i = rng.randrange(len(s) + 1)
            s = s[:i] + rng.choice(alphabet) + s[i:]
        elif r < 0.7 and s:
            i = rng.randrange(len(s))
            s = s[:i] + rng.choice(alphabet) + s[i + 1:]
        elif r < 0.8:
            s = "".join(rng.choice(alphabet) for _ in range(rng.choice([1, 1, 2, 3])))
        yield tb_case({"str": {"s": s}}, rng.choice(["str", "str", "strsub"]))


def tb_dist(case, obs):
    v = case["v"]
    k = v if isinstance(v, str) else next(iter(v))
    return {"tobool.class": k, "tobool.res": obs.get("res") if isinstance(obs, dict) else "?", "tobool.py": case.get("py")}


# ====================================================================================== default_if_none args


def din_observe(case):
    cfg = case.get("cfg", {})
    args, kw = [], {}
    import c19_conv
    fac = c19_conv.odd(lambda: 1, cfg.get("callable", "function"))
    if case["hasDefault"]:
        if case["defaultIsFactory"]:
            d = attr.Factory((lambda self: 1) if case["takesSelf"] else fac, takes_self=case["takesSelf"])
        else:
            d = cfg.get("dval", 0)
            d = {"None": None, "zero": 0, "tok": "d", "list": []}.get(d, d)
        if cfg.get("pos"):
            args.append(d)
        else:
            kw["default"] = d
    elif cfg.get("explicit_nothing"):
        kw["default"] = attr.NOTHING
    if case["hasFactory"]:
        if cfg.get("pos") and case["hasDefault"]:
            args.append(fac)
        else:
            kw["factory"] = fac
    elif cfg.get("explicit_none"):
        kw["factory"] = None
    try:
        c = cv.default_if_none(*args, **kw)
        return {"res": "ok" if callable(c) else "other"}
    except TypeError:
        return {"res": "typeError"}
    except ValueError:
        return {"res": "valueError"}
    except BaseException:  # noqa: BLE001
        return {"res": "other"}


def din_gen(tier, rng):
    for hd in (False, True):
        for isf in ((False, True) if hd else (False,)):
            for ts in ((False, True) if isf else (False,)):
                for hf in (False, True):
                    for pos in (False, True):
                        for en in (False, True):
                            for dval in ("None", "zero", "tok", "list"):
                                for style in ("function", "falsy", "len0"):
                                    yield {"kind": "din", "hasDefault": hd, "defaultIsFactory": isf, "takesSelf": ts,
                                           "hasFactory": hf,
                                           "cfg": {"pos": pos, "explicit_nothing": en, "explicit_none": en, "dval": dval,
                                                   "callable": style}}


# ============================================================================================ filters


@attr.s
class FA:
    x = attr.ib()
    y = attr.ib()


@attr.s
class FB:
    x = attr.ib()
    y = attr.ib(default=1)


@attr.s
class FSub(FA):
    pass


@attrs.define
class FD:
    x: int


@attr.s
class FP:                      # private name: the alias differs from the name
    _x = attr.ib()
    y = attr.ib()


@attr.s
class FE:                      # explicit alias
    x = attr.ib(alias="renamed")


@attr.s
class FS:                      # two fields with swapped name and alias
    a = attr.ib(alias="b")
    b = attr.ib(alias="a")


class Plain:
    pass


class Hostile:
    """a value whose ==, hash and truth value raise: a filter must only look at its class"""

    def __eq__(self, other):
        raise KeyError("eq")

    def __hash__(self):
        raise KeyError("hash")

    def __bool__(self):
        raise KeyError("bool")


ATTRS = {  # id -> (Attribute object, name, sig)
    "A.x": (attr.fields(FA).x, "x", "plain"),
    "A.y": (attr.fields(FA).y, "y", "plain"),
    "B.x": (attr.fields(FB).x, "x", "plain"),       # == A.x (the owning class is not compared)
    "B.y": (attr.fields(FB).y, "y", "d1"),          # != A.y
    "Sub.x": (attr.fields(FSub).x, "x", "plain"),   # == A.x (`inherited` is not compared)
    "D.x": (attr.fields(FD).x, "x", "typed"),       # != A.x (type=int)
    "P._x": (attr.fields(FP)._x, "_x", "plain"),    # name _x, alias x
    "P.y": (attr.fields(FP).y, "y", "plain"),       # == A.y
    "E.x": (attr.fields(FE).x, "x", "plain"),       # name x, alias renamed: != A.x
    "S.a": (attr.fields(FS).a, "a", "plain"),       # name a, alias b
    "S.b": (attr.fields(FS).b, "b", "plain"),       # name b, alias a
}


def attr_id(key):
    obj, name, sig = ATTRS[key]
    return {"name": name, "alias": obj.alias, "sig": sig}

TYPES = {"int": int, "bool": bool, "str": str, "NoneType": type(None), "float": float, "MyInt": MyInt, "object": object,
         "FA": FA, "Plain": Plain, "type": type, "list": list, "Hostile": Hostile}
VALUES = {  # id -> (value maker, exact class name)
    "1": (lambda: 1, "int"), "True": (lambda: True, "bool"), "'x'": (lambda: "x", "str"), "None": (lambda: None, "NoneType"),
    "1.0": (lambda: 1.0, "float"), "MyInt(1)": (lambda: MyInt(1), "MyInt"), "FA()": (lambda: FA(1, 2), "FA"),
    "object()": (lambda: object(), "object"), "Plain()": (lambda: Plain(), "Plain"), "int": (lambda: int, "type"),
    "MyStr('y')": (lambda: MyStr("y"), "MyStr"), "[1]": (lambda: [1], "list"), "Hostile()": (lambda: Hostile(), "Hostile"),
}
NAMES = ["x", "y", "z", "", "X", "_x", "renamed", "a", "b"]      # field names AND aliases
JUNK = {"1": lambda: 1, "None": lambda: None, "list": lambda: ["x"], "1.5": lambda: 1.5, "tuple": lambda: ("x",),
        "bytes": lambda: b"x", "dict": lambda: {"x": 1}}


def what_pool():
    out = [({"type": {"t": t}}, ("type", t)) for t in TYPES]
    out += [({"name": {"s": n}}, ("name", n)) for n in NAMES]
    out += [({"attr": {"a": attr_id(k)}}, ("attr", k)) for k in ATTRS]
    out += [("junk", ("junk", k)) for k in JUNK]
    return out


WHAT_POOL = what_pool()


def f_case(items, queries, fresh=False):
    """queries: [(attr_id, val_id)] asked of ONE include object and ONE exclude object, in this order
    (fresh=True: a new filter per question -- harness-only variation the model is independent of)"""
    return {"kind": "filter", "what": [i[0] for i in items],
            "queries": [{"attr": attr_id(a), "valType": VALUES[v][1]} for a, v in queries],
            "py": {"what": [list(i[1]) for i in items], "queries": [[a, v] for a, v in queries], "fresh": fresh}}


def _what_obj(kind, key):
    if kind == "type":
        return TYPES[key]
    if kind == "name":
        return key
    if kind == "attr":
        return ATTRS[key][0]
    return JUNK[key]()


def _fr(thunk):
    try:
        r = thunk()
    except BaseException:  # noqa: BLE001
        return "other"
    return "T" if r is True else "F" if r is False else "other"


def f_observe(case):
    py = case["py"]
    what = [_what_obj(k, key) for k, key in py["what"]]
    inc_f, exc_f = filters.include(*what), filters.exclude(*what)
    inc, exc = [], []
    for attr_id, val_id in py["queries"]:
        if py.get("fresh"):
            inc_f, exc_f = filters.include(*what), filters.exclude(*what)
        a = ATTRS[attr_id][0]
        v = VALUES[val_id][0]()
        inc.append(_fr(lambda: inc_f(a, v)))
        exc.append(_fr(lambda: exc_f(a, v)))
    return {"inc": inc, "exc": exc}


NAME_GROUPS = [["A.x", "B.x", "Sub.x", "D.x", "E.x", "P._x"], ["A.y", "B.y", "P.y"], ["S.a", "S.b", "E.x", "P._x"]]


def rand_history(rng, attr_ids, val_ids):
    """a sequence of questions to one filter object: same-named fields of different classes (equal and non-equal
    Attributes) with values of one exact type, interleaved with unrelated questions"""
    qs = []
    for _ in range(rng.choice([1, 1, 2])):
        grp = list(rng.choice(NAME_GROUPS))
        rng.shuffle(grp)
        v = rng.choice(val_ids)
        for a in grp[:rng.choice([2, 3, 4])]:
            qs.append((a, v if rng.random() < 0.8 else rng.choice(val_ids)))
            if rng.random() < 0.3:
                qs.append((rng.choice(attr_ids), rng.choice(val_ids)))
    if rng.random() < 0.5:
        qs.append(qs[0])          # the first question again, at the end
    return qs


def f_gen(tier, rng):
    attr_ids = list(ATTRS)
    val_ids = list(VALUES)
    kmax = 1 if tier == "quick" else 2
    allq = [(a, v) for a in attr_ids for v in val_ids]
    for k in range(kmax + 1):
        for items in itertools.product(WHAT_POOL, repeat=k):
            if k <= 1:
                # every (attribute, value) pair on a filter of its own ...
                for q in allq:
                    yield f_case(list(items), [q])
            # ... and all of them asked of one filter object, in two orders
            for _ in range(2 if k <= 1 else 1):
                order = list(allq)
                rng.shuffle(order)
                yield f_case(list(items), order)
    n = 5000 if tier == "quick" else 80000
    for _ in range(n):
        k = rng.choice([1, 2, 2, 3, 4, 6])
        items = [rng.choice(WHAT_POOL) for _ in range(k)]
        if rng.random() < 0.6:
            # make sure an Attribute object is listed: the verdict then depends on more than (name, type)
            items[rng.randrange(k)] = rng.choice([w for w in WHAT_POOL if w[1][0] == "attr"])
        yield f_case(items, rand_history(rng, attr_ids, val_ids), fresh=rng.random() < 0.15)


def f_dist(case, obs):
    kinds = sorted({w if isinstance(w, str) else next(iter(w)) for w in case["what"]})
    qs = case["queries"]
    same_name_diff_attr = any(p["attr"]["name"] == q["attr"]["name"] and p["attr"] != q["attr"] and p["valType"] == q["valType"]
                              for i, p in enumerate(qs) for q in qs[i + 1:])
    inc = obs.get("inc", []) if isinstance(obs, dict) else []
    return {"filter.n_what": len(case["what"]), "filter.kinds": "+".join(kinds) or "-",
            "filter.n_queries": min(len(qs), 9), "filter.same_name_other_attr_same_type": same_name_diff_attr,
            "filter.any_included": "T" in inc}


# ============================================================================================ cmp_using

RELS = {
    "eq": lambda a, b: a == b, "ne": lambda a, b: a != b, "lt": lambda a, b: a < b, "le": lambda a, b: a <= b,
    "gt": lambda a, b: a > b, "ge": lambda a, b: a >= b, "tt": lambda a, b: True, "ff": lambda a, b: False,
    "ni": lambda a, b: NotImplemented,
}
SLOTS = ["eq", "lt", "le", "gt", "ge"]
OPS = ["eq", "ne", "lt", "le", "gt", "ge"]
OPFN = {"eq": operator.eq, "ne": operator.ne, "lt": operator.lt, "le": operator.le, "gt": operator.gt, "ge": operator.ge}
RHS = ["same", "sub", "otherType", "foreign", "identical"]


class UExc(Exception):
    pass


class UKey(KeyError):
    pass


class UStop(StopIteration):
    pass


class UType(TypeError):
    pass


class UAttr(AttributeError):
    pass


class UValue(ValueError):
    pass


class UBase(BaseException):
    pass


EXC_CLASSES = {"Exception": UExc, "KeyError": UKey, "StopIteration": UStop, "TypeError": UType,
               "AttributeError": UAttr, "ValueError": UValue, "BaseException": UBase}
CALLS: list = []      # (slot, a, b) raw arguments of every call of a supplied function
RAISED: list = []     # exception objects raised by supplied functions


def make_rel(slot, rel, partial, exc_cls, style="function"):
    """instrumented supplied function: records the call; partial = raises on payloads of different classes;
    style: a plain function, or a valid callable object that is falsy / has __len__() == 0"""
    def fn(a, b):
        CALLS.append((slot, a, b))
        if rel == "boom" or (partial and type(a) is not type(b)):
            e = exc_cls(slot)
            RAISED.append(e)
            raise e
        return RELS[rel](a, b)

    fn.__name__ = slot
    import c19_conv
    return c19_conv.odd(fn, style)


def _r(thunk):
    try:
        r = thunk()
    except BaseException as e:  # noqa: BLE001
        if any(e is x for x in RAISED):
            return "raised"
        if isinstance(e, TypeError):
            return "typeError"
        if isinstance(e, AttributeError):
            return "attributeError"
        if isinstance(e, ValueError):
            return "valueError"
        return "other"
    return "T" if r is True else "F" if r is False else "NI" if r is NotImplemented else "other"


def c_observe(case):
    cfg = case.get("cfg", {})
    del CALLS[:], RAISED[:]
    exc_cls = EXC_CLASSES[cfg.get("exc", "Exception")]
    fns = {s: make_rel(s, case[s], case.get("partialFns", False), exc_cls, cfg.get("callable", "function"))
           for s in SLOTS if case[s] is not None}
    kw = dict(fns)
    if not (cfg.get("omit_rst") and case["requireSameType"]):
        kw["require_same_type"] = case["requireSameType"]
    if not (cfg.get("omit_name") and case["className"] == "Comparable"):
        kw["class_name"] = case["className"]
    empty = {"name": "", "hashNone": False, "direct": [], "ops": [], "directCalls": [], "opCalls": []}
    # a HISTORY of cmp_using calls around the one under test, built from THE SAME function objects (all of them, or
    # all but one) with their own require_same_type: a class must not be influenced by classes created before or
    # after it (harness-only variation: the model knows nothing about the other classes)
    others = cfg.get("others", [])

    def make_others(when):
        for o in others:
            if o["when"] != when:
                continue
            okw = {s: f for s, f in fns.items() if s != o.get("drop")}
            try:
                oc = attr.cmp_using(require_same_type=o["rst"], class_name=o.get("name", "Other"), **okw)
                if o.get("use"):
                    oc(1) == oc(1.0), oc(1) != oc(2)      # and used, on payloads of different classes
            except BaseException:  # noqa: BLE001
                pass

    make_others("before")
    try:
        cls = attr.cmp_using(**kw)
    except ValueError:
        return dict(empty, ctor="valueError")
    except TypeError:
        return dict(empty, ctor="typeError")
    except BaseException:  # noqa: BLE001
        return dict(empty, ctor="other")
    a, b, rhs = case["a"], case["b"], case["rhs"]
    flip = cfg.get("flip")
    xa, yb = a, b
    if rhs in ("same", "identical"):
        if flip:
            xa, yb = MyInt(a), MyInt(b)
    elif rhs == "sub":
        yb = MyInt(b)
        if flip:
            xa, yb = MyInt(a), b
    elif rhs == "otherType":
        yb = float(b)
        if flip:
            xa, yb = float(a), b
    make_others("after")
    x = cls(xa)
    y = object() if rhs == "foreign" else x if rhs == "identical" else cls(yb)     # identical: the SAME wrapper object
    payloads = [xa] if rhs in ("foreign", "identical") else [xa, yb]

    def rv(v):
        # the payload objects themselves must reach the function (no copies, no conversions)
        return str(int(v)) + ("" if any(v is p for p in payloads) else "~copy")

    def run(thunk):
        del CALLS[:]
        r = _r(thunk)
        calls = [f"{s}({rv(p)},{rv(q)})" for s, p, q in CALLS]
        del CALLS[:]
        return r, calls

    direct = [run(lambda op=op: getattr(cls, f"__{op}__")(x, y)) for op in OPS]
    ops = [run(lambda op=op: OPFN[op](x, y)) for op in OPS]
    del RAISED[:]
    return {
        "ctor": "ok", "name": cls.__name__, "hashNone": cls.__hash__ is None,
        "direct": [r for r, _ in direct], "ops": [r for r, _ in ops],
        "directCalls": [c for _, c in direct], "opCalls": [c for _, c in ops],
    }


def c_case(fns, rst, name, a, b, rhs, rng, partial=False):
    if rhs == "identical":
        b = a
    return {"kind": "cmp", **{s: fns.get(s) for s in SLOTS}, "requireSameType": rst, "className": name,
            "a": a, "b": b, "rhs": rhs, "partialFns": partial,
            "cfg": {"flip": rng.random() < 0.3, "omit_rst": rng.random() < 0.5, "omit_name": rng.random() < 0.5,
                    "exc": rng.choice(list(EXC_CLASSES)),
                    "callable": rng.choice(["function", "function", "function", "falsy", "len0"]),
                    "others": rand_others(rng, rst)}}


def rand_others(rng, rst, p=0.5):
    """0-3 other cmp_using calls on the same function objects, before / after the one under test; mostly with the
    OPPOSITE require_same_type"""
    if rng.random() > p:
        return []
    out = []
    for _ in range(rng.choice([1, 1, 2, 3])):
        out.append({"when": rng.choice(["before", "after"]), "rst": (not rst) if rng.random() < 0.75 else rst,
                    "drop": rng.choice([None, None, None] + SLOTS), "use": rng.random() < 0.5,
                    "name": rng.choice(["Other", "Comparable"])})
    return out


PAIRS = [(0, 1), (1, 0), (1, 1), (-3, 2), (2, 2)]


def c_gen(tier, rng):
    names = ["Comparable", "K", "EqOnly", "Comparable"]
    # every subset, functions from the one standard order; total functions, and partial ones (raise on payloads of
    # different classes) wherever the classes differ
    for mask in range(32):
        fns = {s: s for i, s in enumerate(SLOTS) if mask >> i & 1}
        for rst in (True, False):
            for rhs in RHS:
                for a, b in PAIRS[:3] if tier == "quick" else PAIRS:
                    yield c_case(fns, rst, rng.choice(names), a, b, rhs, rng)
                    if rhs not in ("same", "identical") and (a, b) != (1, 1):
                        yield c_case(fns, rst, rng.choice(names), a, b, rhs, rng, partial=True)
    # histories: the class under test next to classes built from the very same function objects with the opposite
    # require_same_type, created (and used) before it, after it, or both; type-mismatched operands
    def oth(when, rst, use):
        return {"when": when, "rst": rst, "drop": None, "use": use, "name": "Other"}

    for mask in range(32):
        fns = {s: s for i, s in enumerate(SLOTS) if mask >> i & 1}
        for rst in (True, False):
            for rhs in ("sub", "otherType"):
                for k, hist in enumerate(([oth("before", not rst, True)], [oth("after", not rst, False)],
                                          [oth("before", rst, False), oth("after", not rst, True)])):
                    c = c_case(fns, rst, "Comparable", 0, 1, rhs, rng)
                    c["cfg"]["others"] = hist
                    yield c
    rels = list(RELS) + ["boom"]
    # the diagonal: the same wrapper object on both sides, with an eq function that need not be reflexive
    for eqrel in rels:
        for ords in ((), ("lt",), ("le",), ("gt",), ("ge",), ("lt", "le", "gt", "ge")):
            for rst in (True, False):
                fns = dict({o: o for o in ords}, eq=eqrel)
                yield c_case(fns, rst, "Comparable", rng.choice([0, 1, 2]), 0, "identical", rng)
    # inconsistent functions: each supplied slot computes an arbitrary relation (or NotImplemented, or raises)
    n = 6000 if tier == "quick" else 150000
    for _ in range(n):
        mask = rng.randrange(32)
        if rng.random() < 0.7:
            mask |= 1          # mostly with eq (without it most subsets are rejected at construction)
        fns = {}
        for i, s in enumerate(SLOTS):
            if mask >> i & 1:
                fns[s] = s if rng.random() < 0.5 else rng.choice(rels)
        a, b = rng.choice(PAIRS)
        yield c_case(fns, rng.random() < 0.6, rng.choice(names), a, b, rng.choice(RHS + ["same", "sub", "identical"]), rng,
                     partial=rng.random() < 0.3)
    if tier == "thorough":
        # one deviating slot at a time, exhaustively
        for mask in range(32):
            for i, s in enumerate(SLOTS):
                if not mask >> i & 1:
                    continue
                for rel in rels:
                    fns = {t: t for j, t in enumerate(SLOTS) if mask >> j & 1}
                    fns[s] = rel
                    for rst in (True, False):
                        for rhs in RHS:
                            for a, b in PAIRS[:3]:
                                yield c_case(fns, rst, "Comparable", a, b, rhs, rng, partial=rng.random() < 0.25)


def c_dist(case, obs):
    sup = [s for s in SLOTS if case[s] is not None]
    return {"cmp.n_supplied": len(sup), "cmp.consistent": all(case[s] == s for s in sup), "cmp.rhs": case["rhs"],
            "cmp.require_same_type": case["requireSameType"], "cmp.partial_fns": case.get("partialFns"),
            "cmp.exc_class": case.get("cfg", {}).get("exc"),
            "cmp.callable_style": case.get("cfg", {}).get("callable", "function"),
            "cmp.other_classes": "+".join(sorted({o["when"] + ("!" if o["rst"] != case["requireSameType"] else "=")
                                                  for o in case.get("cfg", {}).get("others", [])})) or "-",
            "cmp.any_raised": "raised" in (obs.get("direct", []) if isinstance(obs, dict) else []),
            "cmp.ctor": obs.get("ctor") if isinstance(obs, dict) else "?"}


def c_shrink(case):
    for s in SLOTS:
        if case[s] is not None:
            yield dict(case, **{s: None})
            if case[s] != s:
                yield dict(case, **{s: s})
    if case.get("partialFns"):
        yield dict(case, partialFns=False)
    if case["className"] != "Comparable":
        yield dict(case, className="Comparable")
    if case["rhs"] not in ("same", "identical"):
        yield dict(case, rhs="same")
    if (case["a"], case["b"]) != (0, 1) and case["rhs"] != "identical":
        yield dict(case, a=0, b=1)
    if case.get("cfg", {}).get("flip"):
        yield dict(case, cfg=dict(case["cfg"], flip=False))
    oth = case.get("cfg", {}).get("others", [])
    for i in range(len(oth)):
        yield dict(case, cfg=dict(case["cfg"], others=oth[:i] + oth[i + 1:]))
    if case.get("cfg", {}).get("callable", "function") != "function":
        yield dict(case, cfg=dict(case["cfg"], callable="function"))


def c_neighbours(case, rng):
    for rhs in RHS:
        for rst in (True, False):
            for a, b in PAIRS[:3]:
                b2 = a if rhs == "identical" else b
                yield dict(case, rhs=rhs, requireSameType=rst, a=a, b=b2)
                yield dict(case, rhs=rhs, requireSameType=rst, a=a, b=b2, partialFns=not case.get("partialFns"))
    yield from c_shrink(case)
