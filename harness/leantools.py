"""Lean side of a check: regenerate tables from /repo (T1), build, audit axioms, talk to the driver."""
from __future__ import annotations

import fcntl
import json
import os
import re
import subprocess
import time
from pathlib import Path

VERIF = Path(__file__).resolve().parent.parent
LEAN = VERIF / "lean" / "AttrsModel"
WORK = VERIF / ".work"
DRIVER = LEAN / ".lake" / "build" / "bin" / "driver"
ALLOWED_AXIOMS = {"propext", "Classical.choice", "Quot.sound"}
FORBIDDEN = re.compile(
    r"\b(sorry|admit|native_decide|bv_decide|implemented_by|unsafe)\b|^\s*axiom\s|maxHeartbeats\s+0\b"
)


class ToolFailure(Exception):
    """The machinery itself failed (exit 2) -- never a verdict."""


def _env():
    env = dict(os.environ)
    env.pop("LEAN_PATH", None)
    return env


class _Lock:
    def __init__(self, name):
        WORK.mkdir(exist_ok=True)
        self.path = WORK / name

    def __enter__(self):
        self.f = open(self.path, "w")
        fcntl.flock(self.f, fcntl.LOCK_EX)
        return self

    def __exit__(self, *a):
        fcntl.flock(self.f, fcntl.LOCK_UN)
        self.f.close()


def _lake(*targets, timeout=1800):
    p = subprocess.run(
        ["lake", "build", *targets], cwd=LEAN, env=_env(), capture_output=True, text=True, timeout=timeout
    )
    return p.returncode, p.stdout + p.stderr


def prepare(prop_id: str | None = None) -> dict:
    """T1 regenerate + build driver + build the property's theorem module.

    Returns {tables: {...}, driver_ok, proofs_ok, log}.  Serialised across concurrent checks.
    """
    import funcs_from_source
    import gen_driver
    import tables_from_source

    info = {}
    with _Lock("lake.lock"):
        info["tables"] = tables_from_source.regenerate()
        # T1b: the decision functions themselves, translated from the source; an untranslatable function is a
        # broken tie for the properties that list "fn_<name>" in TABLES
        funcs = funcs_from_source.regenerate()
        info["tables"]["broken"] = info["tables"]["broken"] + funcs["broken"]
        info["tables"]["funcs_T1b"] = funcs
        gen_driver.generate()
        rc, log = _lake("driver")
        info["driver_ok"] = rc == 0
        info["driver_log"] = log[-4000:] if rc else ""
        if rc != 0:
            return info
        if prop_id is not None:
            rc, log = _lake(f"AttrsModel.Properties.{prop_id}")
            info["proofs_ok"] = rc == 0
            info["proofs_log"] = log[-6000:] if rc else ""
    return info


def strip_comments(src: str) -> str:
    out, i, depth, n = [], 0, 0, len(src)
    while i < n:
        if src.startswith("/-", i):
            depth += 1
            i += 2
        elif depth and src.startswith("-/", i):
            depth -= 1
            i += 2
        elif depth:
            if src[i] == "\n":
                out.append("\n")
            i += 1
        elif src.startswith("--", i):
            while i < n and src[i] != "\n":
                i += 1
        else:
            out.append(src[i])
            i += 1
    return "".join(out)


def forbidden_tokens() -> list[str]:
    hits = []
    for f in sorted(LEAN.rglob("*.lean")):
        if ".lake" in f.parts:
            continue
        for ln, line in enumerate(strip_comments(f.read_text()).splitlines(), 1):
            if FORBIDDEN.search(line):
                hits.append(f"{f.relative_to(LEAN)}:{ln}: {line.strip()[:120]}")
    return hits


def theorem_names(prop_id: str) -> list[str]:
    f = LEAN / "AttrsModel" / "Properties" / f"{prop_id}.lean"
    if not f.exists():
        return []
    src = strip_comments(f.read_text())
    ns = []
    names = []
    for line in src.splitlines():
        m = re.match(r"\s*namespace\s+(\S+)", line)
        if m:
            ns.append(m.group(1))
            continue
        m = re.match(r"\s*end\s+(\S+)", line)
        if m and ns and ns[-1] == m.group(1):
            ns.pop()
            continue
        m = re.match(r"\s*(?:@\[[^\]]*\]\s*)?(?:private\s+|protected\s+)?theorem\s+([^\s:({\[]+)", line)
        if m:
            names.append(".".join(ns + [m.group(1)]))
    return names


def audit(prop_id: str) -> dict:
    """#print axioms for every theorem of the property file; returns per-theorem axioms."""
    names = theorem_names(prop_id)
    res = {"theorems": [], "obligations": len(names), "discharged": 0, "ok": False, "forbidden": forbidden_tokens()}
    if not names:
        return res
    WORK.mkdir(exist_ok=True)
    f = WORK / f"Audit_{prop_id}_{os.getpid()}.lean"
    f.write_text(
        f"import AttrsModel.Properties.{prop_id}\n" + "".join(f"#print axioms {n}\n" for n in names)
    )
    try:
        p = subprocess.run(
            ["lake", "env", "lean", str(f)], cwd=LEAN, env=_env(), capture_output=True, text=True, timeout=900
        )
    finally:
        f.unlink(missing_ok=True)
    out = p.stdout + p.stderr
    found = {}
    for m in re.finditer(r"'([^']+)' depends on axioms: \[([^\]]*)\]", out.replace("\n ", " ")):
        found[m.group(1)] = [a.strip() for a in m.group(2).replace("\n", " ").split(",") if a.strip()]
    for m in re.finditer(r"'([^']+)' does not depend on any axioms", out):
        found[m.group(1)] = []
    ok = True
    for n in names:
        ax = found.get(n)
        good = ax is not None and set(ax) <= ALLOWED_AXIOMS
        res["theorems"].append({"name": n, "axioms": ax, "ok": good})
        if good:
            res["discharged"] += 1
        else:
            ok = False
    res["ok"] = ok and not res["forbidden"] and p.returncode == 0
    if p.returncode != 0:
        res["log"] = out[-3000:]
    return res


def leanchecker(prop_id: str) -> dict:
    """Thorough tier: re-check the compiled theorem module (and everything it imports from this project)
    with the toolchain's independent kernel re-checker."""
    try:
        p = subprocess.run(["lake", "env", "leanchecker", f"AttrsModel.Properties.{prop_id}"], cwd=LEAN, env=_env(),
                           capture_output=True, text=True, timeout=1500)
    except subprocess.TimeoutExpired:
        return {"ran": True, "ok": False, "log": "leanchecker timed out"}
    return {"ran": True, "ok": p.returncode == 0, "log": (p.stdout + p.stderr)[-2000:]}


def drive(lines: list[str]) -> list[dict]:
    """Send request lines to the compiled driver, return parsed replies (same length)."""
    if not lines:
        return []
    p = subprocess.run([str(DRIVER)], input="\n".join(lines) + "\n", capture_output=True, text=True, timeout=3600)
    if p.returncode != 0:
        raise ToolFailure(f"driver exited {p.returncode}: {p.stderr[-2000:]}")
    outs = p.stdout.splitlines()
    if len(outs) != len(lines):
        raise ToolFailure(f"driver returned {len(outs)} replies for {len(lines)} requests")
    return [json.loads(o) for o in outs]


def request(prop_id: str, case, obs) -> str:
    return json.dumps({"p": prop_id, "case": case, "obs": obs}, separators=(",", ":"))
