"""Regenerate MANIFEST.json from the property modules present under harness/props."""
from __future__ import annotations

import importlib
import json
import sys
from pathlib import Path

HERE = Path(__file__).resolve().parent
VERIF = HERE.parent
sys.path.insert(0, str(HERE))

ALL = [f"C{i:02d}" for i in range(1, 21)]
BASELINE_CMD = "cd /repo && /venv/bin/python -m pytest -ra -q -p no:cacheprovider --timeout=900 --continue-on-collection-errors"


def main():
    checks, na = [], []
    disabled = {}
    if (HERE / "disabled.json").exists():
        disabled = json.loads((HERE / "disabled.json").read_text())
    for pid in ALL:
        if pid in disabled:
            na.append({"property_id": pid, "reason": disabled[pid]})
            continue
        f = HERE / "props" / f"{pid.lower()}.py"
        thm = VERIF / "lean" / "AttrsModel" / "AttrsModel" / "Properties" / f"{pid}.lean"
        if not (f.exists() and thm.exists()):
            na.append({"property_id": pid, "reason": "check not built yet in this revision of the framework (model, theorems and correspondence are planned in DESIGN.md section 5)"})
            continue
        m = importlib.import_module(f"props.{pid.lower()}")
        fns = [t[3:] for t in getattr(m, "TABLES", []) if t.startswith("fn_")]
        t1b_text = ""
        t1b_note = ""
        t1b_tech = ""
        if fns:
            t1b_text = (" T1b (translator, every run): the source functions " + ", ".join(fns) + " are translated from /repo's "
                        "current text into Lean (Generated/Funcs.lean over PyLite.lean) and the theorems " + pid + "_source_* "
                        "(source function = hand model / documented table) are re-checked against that text; an "
                        "untranslatable or changed function is a broken tie or a broken proof.")
            t1b_note = "; T1b trusts PyLite.lean (meaning of the translated Python fragment) and harness/funcs_from_source.py"
            t1b_tech = " + source-to-Lean translation of the decision functions (" + ", ".join(fns) + ") re-proved on every run"
        checks.append({
            "property_id": pid,
            "quick_cmd": f"./check {pid} --tier quick",
            "thorough_cmd": f"./check {pid} --tier thorough",
            "evidence_file": f"evidence/{pid}.json",
            "replay_cmd_template": "./check replay {path}",
            "engine": "lean-model+correspondence",
            "level_claimed": {
                "category": "proof",
                "text": m.LEVEL_TEXT + t1b_text,
                "design_ref": f"DESIGN.md section 5 {pid}",
            },
            "level_note": getattr(m, "LEVEL_NOTE", "trusted: Lean kernel + propext/Classical.choice/Quot.sound, native driver, harness and T1 extractor, CPython as reference for the trusted fragments; the code is modelled, the correspondence check ties model to code") + t1b_note,
            "technique": getattr(m, "TECHNIQUE", "Lean 4 proof about an executable model + checked differential correspondence with the implementation") + t1b_tech,
        })
    doc = {
        "version": 1,
        "setup_cmd": "./check setup",
        "hooks": {
            "guard": "ATTRS_VERIF",
            "enable": "no source hooks are needed: checks run /repo's working tree in-process via /venv/bin/python (editable install)",
            "baseline_off_cmd": BASELINE_CMD,
            "source_commits": [],
            "add_only": True,
        },
        "engines": [{
            "name": "lean-model+correspondence",
            "path": "lean/AttrsModel + harness/",
            "serves_properties": [c["property_id"] for c in checks],
            "kind_free_text": "Lean 4 executable model with machine-checked theorems (lake build + #print axioms audit), tables regenerated from /repo by an ast translator, and a differential correspondence harness driving the compiled model over a JSON line protocol",
        }],
        "checks": checks,
        "not_applicable": na,
        "notes": "Every check: (1) regenerates Generated/Tables.lean from /repo's current source, (2) rebuilds the Lean model, driver and the property's theorem module, (3) audits axioms, (4) runs /repo's code and the model on the same generated cases and evaluates the Lean spec on both. Exit 0 = all held; exit 1 + VIOLATION line otherwise; exit 2 = tool failure.",
    }
    (VERIF / "MANIFEST.json").write_text(json.dumps(doc, indent=1) + "\n")
    print(f"claimed {len(checks)}, not_applicable {len(na)}")


if __name__ == "__main__":
    main()
