"""Write seeded/SUMMARY.md from seeded/*/meta.json (which check catches which seeded change)."""
from __future__ import annotations

import json
import re
from pathlib import Path

VERIF = Path(__file__).resolve().parent.parent

# what had to be strengthened before a change that was first missed got caught (kept by hand)
STRENGTHENED = {
    "C12-m1": "values never were None/falsy -> the token \"None\" is the real None, \"\" a falsy value",
    "C12-m3": "no warm-up history -> evolve/assoc on ancestor and ad-hoc subclass instances first",
    "C03-m2": "no same-layout class defined first -> decoy classes with a different key function are defined before the real ones",
    "C02-m1": "generator dropped every plain class below a hooked class -> only the K6 shape (slotted leaf) is dropped; targeted hooked<-plain<-dict family",
    "C01-m2": "aliases never clashed -> names `_p` and `p` (same derived alias, the later one init=False)",
    "C01-m3": "`__attrs_init__` never exercised -> leaves with init=False",
    "C01-bm1": "values only -> converter/factory call events are part of C01's observation (exactly once per call)",
    "C01-bm2": "no bare annotations, rare re-declaration of ancestor names -> bare `x: int` fields, ancestor-name re-declaration",
    "C01-bm3": "a specification that no longer defines was a tool failure -> it is a failing input",
    "C19-m3": "total, unobserved comparison functions -> call logs, partial functions, typed faults",
    "C14-m2": "`__attrs_init__` only probed for presence -> full-state equivalence with the generated __init__ of a twin class, exception classes included",
    "C06-m2": "faults were one exception type -> fault types range over KeyError, LookupError, AttributeError, StopIteration, BaseException-only",
    "C06-m3": "single inheritance only -> multiple-inheritance shapes (mixin x hooked base in either order)",
    "C07-m3": "user containers of one kind -> container kinds vary (MappingProxyType over a kept dict, ...), mutated after class creation",
    "C09-m3": "single comparisons -> histories (compare, change what the key returns, compare again), residue check",
    "C15-m1": "identity-only snapshot of vars(cls) -> deep state of counting attrs + retry with a valid decorator compared with a fresh class",
    "C16-m3": "catalogue classes never were layout-twins with different callables -> tagged twins, behaviour fingerprints",
}


def main():
    rows = []
    for d in sorted((VERIF / "seeded").iterdir()):
        m = d / "meta.json"
        if not m.exists():
            continue
        meta = json.loads(m.read_text())
        notes = (d / "notes.md").read_text() if (d / "notes.md").exists() else ""
        title = ""
        for line in notes.splitlines():
            line = line.strip(" #*")
            if len(line) > 20:
                title = re.sub(r"\s+", " ", line)[:150]
                break
        chk = meta["steps"].get("check", {})
        last = (chk.get("lines") or [""])[-1]
        how = "failing-input replay" if chk.get("replay_kind") == "failing-input" else (chk.get("replay_kind") or "-")
        rows.append((meta["id"], meta["property"], title, "yes" if meta.get("confirmed") else "NO",
                     "DETECTED" if meta.get("detected") else "missed", how, STRENGTHENED.get(meta["id"], ""),
                     meta.get("repo_commit", "")))
    out = ["# Seeded property-breaking changes and which checks catch them", "",
           "Each change was produced by a sub-agent that saw only the property text and a scratch worktree of attrs, and",
           "was confirmed here (demo passes on the clean tree, fails with the change; attrs's pinned suite still passes).",
           "`./check <property> --tier quick` was then run with `ATTRS_REPO` pointing at the changed tree.", "",
           "| id | property | change (first line of its notes) | confirmed | quick check | replay | strengthened first? |",
           "|---|---|---|---|---|---|---|"]
    for r in rows:
        out.append("| " + " | ".join(str(x).replace("|", "/") for x in r[:7]) + " |")
    n = len(rows)
    det = sum(1 for r in rows if r[4] == "DETECTED")
    out += ["", f"{det} of {n} confirmed seeded changes are detected by the quick tier of their property's check."]
    (VERIF / "seeded" / "SUMMARY.md").write_text("\n".join(out) + "\n")
    print(f"{det}/{n} detected; missed: {[r[0] for r in rows if r[4] != 'DETECTED']}")


if __name__ == "__main__":
    main()
