"""Write seeded/SUMMARY.md from seeded/*/meta.json (which check catches which seeded change)."""
from __future__ import annotations

import json
import re
from pathlib import Path

VERIF = Path(__file__).resolve().parent.parent

# what had to be strengthened before a change that was first missed got caught (kept by hand)
STRENGTHENED = {
    "C12-m1": "values never were None/falsy -> the token \"None\" is the real None, \"\" a falsy value",
    "C12-m3": "no warm-up history -> evolve/assoc on ancestor and ad-hoc subclass instances first",
    "C03-m2": "no same-layout class defined first -> decoy classes with a different key function are defined before the real ones",
    "C02-m1": "generator dropped every plain class below a hooked class -> only the K6 shape (slotted leaf) is dropped; targeted hooked<-plain<-dict family",
    "C01-m2": "aliases never clashed -> names `_p` and `p` (same derived alias, the later one init=False)",
    "C01-m3": "`__attrs_init__` never exercised -> leaves with init=False",
    "C01-bm1": "values only -> converter/factory call events are part of C01's observation (exactly once per call)",
    "C01-bm2": "no bare annotations, rare re-declaration of ancestor names -> bare `x: int` fields, ancestor-name re-declaration",
    "C01-bm3": "a specification that no longer defines was a tool failure -> it is a failing input",
    "C19-m3": "total, unobserved comparison functions -> call logs, partial functions, typed faults",
    "C14-m2": "`__attrs_init__` only probed for presence -> full-state equivalence with the generated __init__ of a twin class, exception classes included",
    "C06-m2": "faults were one exception type -> fault types range over KeyError, LookupError, AttributeError, StopIteration, BaseException-only",
    "C06-m3": "single inheritance only -> multiple-inheritance shapes (mixin x hooked base in either order)",
    "C07-m3": "user containers of one kind -> container kinds vary (MappingProxyType over a kept dict, ...), mutated after class creation",
    "C09-m3": "single comparisons -> histories (compare, change what the key returns, compare again), residue check",
    "C15-m1": "identity-only snapshot of vars(cls) -> deep state of counting attrs + retry with a valid decorator compared with a fresh class",
    "C01-dm2": "twin chains compared equal -> equal-but-distinguishable twin chains, second direct base (side mixin)",
    "C01-dm3": "converter chains were opaque -> pipe members are converter events of the model (exactly once each, in order)",
    "C02-dm2": "same as C01-dm3 (pipe members as events; fault at a pipe member cuts the trace there)",
    "C03-dm1": "values always hashable, repr never observed -> unhashable values/key results, reprs scripted independently of ==, any repr() call is logged",
    "C03-dm2": "no faults, one comparison per pair -> scripted faults (== raises / key raises, 5 exception types), every pair compared twice, residue in attr's thread-locals checked",
    "C04-dm1": "no assoc in the histories -> assoc modelled (copy + object.__setattr__ + cache reset), change block over every eq x hash setting",
    "C04-dm3": "one shared key function object -> own key-function object per chain build, look-alike chains defined first",
    "C07-dm2": "empty `these` only over an empty body -> `these=[]`/`{}`/OrderedDict() over a body that still declares fields",
    "C07-dm3": "only the class under test was introspected, first -> introspection-order histories over ancestors and siblings; fields_dict must agree with fields for every class",
    "C10-dm3": "harness assigned __module__/__qualname__ itself and never used make_class/these= -> classes exec'd from source in a registered module, make_class/these=/frozen front-ends, nested qualnames",
    "C11-dm1": "repr callables always truthy functions -> callable objects with scripted truthiness (len 0, bool False, raising bool)",
    "C11-dm2": "no callable swallowed a fault below it -> tolerant callables (catch node in model and spec), theorem C11_caught_fault_no_residue",
    "C13-dm1": "filters answered real bools -> truthy/falsy non-bool verdicts",
    "C13-dm2": "leaves were int/str/None -> opaque objects (class objects, catch-all __getattr__, modules, functions) as leaves, identity observed",
    "C14-dm2": "every attrs base had a generated __init__ and the class always added a field -> bases with init=False / own __init__, fieldless subclasses, distinct hook tokens per class",
    "C17-dm1": "cached-property __getattr__ script was listed as not covered -> modelled (T1 tables c17GetattrFixed/MergeOrder), theorem C17_getattr_script_hermetic",
    "C17-dm2": "histories had no refused definitions -> refused twins (three refusal mechanisms) in the history alphabet, theorem C17_later_definitions_keep_entries",
    "C20-dm3": "assigned values always fresh strings -> assignment modes fresh/same/equal/iadd over mutable values",
    "C08-dm2": "functions' __name__ always equalled the class-body key -> member naming is a dimension (aliases, <lambda>, colliding names, mangled private and dunder-like keys)",
    "C09-dm2": "fields carried only cmp/eq/order -> every other field option (kw_only, init, alias, repr, hash, metadata, converter, validator, default) varies per field; the model ignores them",
    "C15-dm3": "user objects were plain functions/literals -> hostile-but-valid objects (unhashable, falsy, raising __eq__/__bool__/__hash__/__len__, eqAll/eqNone) in ten roles",
    "C16-dm3": "process environment never varied -> validator switch steps in the history alphabet, T1 table configReaders + theorem C16_definitions_never_read_config",
    "C19-dm3": "default mode had init=True fields and one instance per class -> init=False fields, Factory defaults, repeated instances; freshness/identity of factory results per instance",
    "C01-em1": "every plain class between a hooked base and a slotted subclass was dropped (K6 avoidance too broad) -> dropped only when the subclass's own class hook is not alive; non-idempotent converters",
    "C01-em2": "defaults were plain strings -> str/int/bytes subclass instances; a field showing its default must hold the declared object itself",
    "C01-em3": "factories were truthy closures -> falsy / len-0 / raising-__bool__/__eq__ callable objects as factory, converter, validator; both factory= and Factory()",
    "C02-em3": "only the callback trace was compared -> post-init hooks that re-store fields or call BaseException.__init__; args compared after construction with the stored objects",
    "C03-em2": "no class had more than 4 fields -> widths 1..40 and a few up to 150, shared self-unequal values on wide classes, every wide class is also a T3 script case",
    "C04-em1": "only linear chains -> further bases (mixins, frozen/mutable attrs, diamonds) in either order; theorem C04_frozen_any_base",
    "C05-em3": "evolve results were never hashed -> every returned object is hashed and compared with a freshly built twin; plain-storage family; hash-first histories",
    "C06-em2": "hook lists were flat -> hook expressions are trees (nested pipes to depth 4); theorems C06_tree_runs_flat, C06_flatten_order",
    "C07-em1": "every class got a fresh decorator object -> reused decorator objects primed on a class of another body kind",
    "C07-em3": "transformers returned attrs's own Attributes -> transformers rebuild fields through evolve()/Attribute() with containers they keep and mutate",
    "C08-em2": "no user callback ran during class construction -> field_transformer / __init_subclass__ / metaclass / __set_name__ / __attrs_init_subclass__ annotate the class; observable callbackDiff",
    "C10-em2": "no exception classes, no default factories -> auto_exc chains (model path excRoundtrip), unpassed factories that answer differently during the operation; found K10d, K10e",
    "C12-em2": "validators had no verdicts -> veto rules on own/other fields, evolve compared with direct construction (exception, values, trace)",
    "C12-em3": "non-field names were three unknown tokens -> methods, constants, properties, instance-dict extras, dunders, unset init=False fields; found K12a",
    "C13-em2": "serializer results were the argument or a fresh wrapper -> subst mode: None/falsy/NOTHING/containers/instances as results; theorem C13_serializer_result_is_used",
    "C14-em2": "fields had default per-field options -> per-field eq/order/hash/repr/init off (own, base, re-declared) for every method group",
    "C16-em1": "converters carried no annotations -> owner-tagged marker types as annotations on look-alike closures; annotation values in the fingerprint",
    "C16-em2": "everything ran in the main thread -> thread dimension for creating counting attrs and for running definitions",
    "C16-em3": "no use steps between definitions, no residue check on plain classes -> Step.use (introspection/use ops), plainMid, non-attrs __dict__ must be unchanged",
    "C17-em1": "histories had no cached-property bodies, co_filename of nested code not compared -> second (getattr) script per definition, every reachable nested code object checked",
    "C18-em1": "containers held no equal-but-distinguishable members -> twin groups (1/1.0/True/Decimal(1)...) in every order for every container validator",
    "C18-em3": "hostile objects scripted type-level dunders only -> liar objects (instance-level dunders, catch-all __getattr__, __class__ lies, SimpleNamespace)",
    "C19-em1": "only converter fields, two on_setattr configurations -> field kinds (shared/own converter, validator-only, plain) in every order x 11 configurations; theorem C19_assign_each_field",
    "C20-em2": "every field was an __init__ parameter -> init=False validated fields with all four kinds of default",
    "C20-em3": "nothing was observed from inside a callback -> probe callbacks run nested ops (getters, construct/assign/validate, own disabled() blocks); theorem C20_switch_moves_only_by_switch_ops",
    "C03-fm1": "names always public, no shared aliases -> private names, explicit aliases, alias collisions with init=False fields; such classes are T3 script cases (helper name/binding seen at once)",
    "C03-fm2": "no init=False fields, no defaults -> per-field init/default, values put in place after construction under every frozen variant; T3 sees the shorter chain",
    "C04-fm2": "fresh decorator object per class -> decorator objects primed on a class with own __eq__/__ne__/__hash__",
    "C05-fm1": "all values were strings -> mutable list/dict/set values, the very object stored, equal copies, real += / |= statements, class-level non-fields",
    "C07-fm3": "nothing was asked of a class before decoration -> pre-decoration histories (has/fields/asdict/subclass), observable histAgree",
    "C08-fm2": "wrappers were exactly cached_property/property/... -> instances of subclasses of the special-cased member types",
    "C08-fm3": "no hash before copy, no getstate_setstate=False -> comparison group hashcopy (hash, copy/deepcopy/pickle, hash) with identity-hashed values",
    "C09-fm2": "scripted values unhashable, key calls unobserved -> Obs.keys (key applications per call), scripted hashability incl. shared hashes; theorem C09_keys_every_comparison",
    "C10-fm2": "distinct default aliases only -> private twins and explicit aliases colliding with init=False fields",
    "C10-fm3": "no plain defaults -> instances whose fields all hold their declared default objects (never passed / changed and set back) x every protocol",
    "C11-fm2": "no kw_only fields -> per-field options irrelevant to repr (kw_only, eq/order/hash, converter, validator, alias), kw_only layers",
    "C11-fm3": "classes lived in an unregistered namespace, only __attr_repr_* bindings recorded -> synthetic registered modules binding id/getattr/AttributeError; T3 records every free name's binding; theorem C11_free_names_pinned",
    "C12-fm2": "all values were string tokens -> attrs instances, dicts (empty / keyed by nested init names), lists as field values and changes; identity of the object handed to the initializer",
    "C13-fm3": "no instance class was also a container -> attrs classes deriving from list/dict/set/tuple/OrderedDict at every position; theorem C13_attrs_instance_first",
    "C16-fm1": "only the identity transformer -> observing/acting transformers over shared these dicts; Attribute objects of different classes must be distinct",
    "C16-fm2": "bodies ran in an unregistered namespace -> synthetic registered modules whose globals change between definitions; get_type_hints and __globals__ view in the fingerprint",
    "C17-fm2": "every class was called C -> class names from the T1 tables (helpers, builtins, names the class's own code loads); T1 table c17EvalExtraBindings + theorem C17_no_extra_bindings",
    "C18-fm2": "in_ containers with custom membership were hashable and not iterable -> bytearray/str/bytes/range/Interval classes/containers whose __contains__ and __iter__ disagree",
    "C19-fm2": "one cmp_using class per case from fresh functions -> histories of cmp_using calls on the same function objects with other require_same_type",
    "C19-fm3": "callables were plain functions -> falsy / len-0 callable objects in every callable role",
    "C20-fm1": "callback bodies had to be neutral -> non-neutral bodies in pre-validator callbacks; FIXED READING: the switch is read when the validators step is reached; theorem C20_construct_reads_switch_at_validators_step",
    "C01-fm1": "no Converter object shared across fields of different names -> one attrs.Converter(takes_field=True) object per group used by primed, real, sibling and decoy fields",
    "C02-fm1": "twin chains used distinct callbacks, callbacks never checked the Attribute they got -> look-alike twins sharing the very callback objects; every Attribute handed to a callback must be the one fields() lists",
    "C02-fm3": "faults were always UserError -> fault classes incl. StopIteration(+subclass), StopAsyncIteration, GeneratorExit, BaseException-only, Attribute/Type/KeyError subclasses; the very exception object must come out",
    "C01-gm3": "helper objects were instances of the base types -> SubFactory / SubConverter / and_-subclass instances (dispatch by exact class)",
    "C03-gm3": "classes lived in a module binding neither NotImplemented nor __attr_key_* -> registered synthetic hostile module (T2 and T3: binding of NotImplemented recorded as `other`)",
    "C04-gm2": "key callables were plain functions -> falsy callable key objects; eq/hash consistency judged on observed == vs observed hash equality",
    "C04-gm3": "no init hooks -> post-init hooks that hash self (outcome not demanded) and then normalise hash fields; pre-init hooks that hash self",
    "C06-gm2": "class-level lists only in canonical order -> lists/tuples/pipes of convert/validate in every order and multiplicity, validators seeing raw vs converted values",
    "C06-gm3": "assigned values were distinct string tokens -> equal-but-distinguishable value classes (1/1.0/True, 0.0/-0.0, str subclass, equal lists) assigned one after the other; identity and exact type observed",
    "C07-gm2": "these= was a dict or OrderedDict -> MappingProxyType, UserDict, ChainMap, user Mapping, creation order permuted against insertion order",
    "C08-gm2": "field names from an ordinary pool -> dunder-like and underscore-led FIELD names through every front-end, round trips compared between builds",
    "C09-gm2": "every class had metaclass type -> metaclasses whose ==/!= between classes lies or raises; any call of them is residue",
    "C10-gm1": "every chain in a uniquely named module -> an earlier same-module same-qualname chain (renamed or reversed fields) defined and used first",
    "C10-gm3": "no dunder-like field name -> `__meta__` in the field pool",
    "C12-gm1": "init=False leaves were removed as out of scope -> classes with init=False and a hand-written __init__ that logs and sets extra state; evolve compared with a direct call (log, extra state)",
    "C13-gm1": "leaves compared equal only to themselves, call counts unobserved -> twin scalars (bool/float/str-subclass atoms in the Lean model), filterCalls/serCalls; theorem C13_callbacks_once_per_occurrence",
    "C14-gm1": "no dict class inherited a slot field (K3 avoidance too broad) -> slotted attrs bases below dict classes, frozen or not, for the __attrs_init__ = twin __init__ comparison",
    "C15-gm1": "at most one @x.default per field -> default=/factory=/@x.default 0..3 times/@x.validator 0..2 times; theorem C15_second_default_counts_sources",
    "C16-gm1": "no getsource in the fingerprint, twins had identical scripts -> source of every generated method in the fingerprint, same-qualname twins with equal-length different scripts",
    "C16-gm2": "no method with a __class__ cell shared between bodies -> shared `who` method object in same-qualname classes, earlier class re-observed at the end",
    "C16-gm3": "failed definitions never followed by a retry on the same class object -> late rejections paired with valid retry decorators (t_retry)",
    "C20-gm3": "no class was ever frozen -> frozen (three forms), cache_hash crossed with construct and validate",
    "C16-m3": "catalogue classes never were layout-twins with different callables -> tagged twins, behaviour fingerprints",
}


def main():
    rows = []
    for d in sorted((VERIF / "seeded").iterdir()):
        m = d / "meta.json"
        if not m.exists():
            continue
        meta = json.loads(m.read_text())
        notes = (d / "notes.md").read_text() if (d / "notes.md").exists() else ""
        title = ""
        for line in notes.splitlines():
            line = line.strip(" #*")
            if len(line) > 20:
                title = re.sub(r"\s+", " ", line)[:150]
                break
        chk = meta["steps"].get("check", {})
        last = (chk.get("lines") or [""])[-1]
        how = "failing-input replay" if chk.get("replay_kind") == "failing-input" else (chk.get("replay_kind") or "-")
        rows.append((meta["id"], meta["property"], title, "yes" if meta.get("confirmed") else "NO",
                     "DETECTED" if meta.get("detected") else "missed", how, STRENGTHENED.get(meta["id"], ""),
                     meta.get("repo_commit", "")))
    out = ["# Seeded property-breaking changes and which checks catch them", "",
           "Each change was produced by a sub-agent that saw only the property text and a scratch worktree of attrs, and",
           "was confirmed here (demo passes on the clean tree, fails with the change; attrs's pinned suite still passes).",
           "`./check <property> --tier quick` was then run with `ATTRS_REPO` pointing at the changed tree.", "",
           "| id | property | change (first line of its notes) | confirmed | quick check | replay | strengthened first? |",
           "|---|---|---|---|---|---|---|"]
    for r in rows:
        out.append("| " + " | ".join(str(x).replace("|", "/") for x in r[:7]) + " |")
    n = len(rows)
    det = sum(1 for r in rows if r[4] == "DETECTED")
    out += ["", f"{det} of {n} confirmed seeded changes are detected by the quick tier of their property's check."]
    (VERIF / "seeded" / "SUMMARY.md").write_text("\n".join(out) + "\n")
    print(f"{det}/{n} detected; missed: {[r[0] for r in rows if r[4] != 'DETECTED']}")


if __name__ == "__main__":
    main()
