"""Write seeded/SUMMARY.md from seeded/*/meta.json (which check catches which seeded change)."""
from __future__ import annotations

import json
import re
from pathlib import Path

VERIF = Path(__file__).resolve().parent.parent

# what had to be strengthened before a change that was first missed got caught (kept by hand)
STRENGTHENED = {
    "C12-m1": "values never were None/falsy -> the token \"None\" is the real None, \"\" a falsy value",
    "C12-m3": "no warm-up history -> evolve/assoc on ancestor and ad-hoc subclass instances first",
    "C03-m2": "no same-layout class defined first -> decoy classes with a different key function are defined before the real ones",
    "C02-m1": "generator dropped every plain class below a hooked class -> only the K6 shape (slotted leaf) is dropped; targeted hooked<-plain<-dict family",
    "C01-m2": "aliases never clashed -> names `_p` and `p` (same derived alias, the later one init=False)",
    "C01-m3": "`__attrs_init__` never exercised -> leaves with init=False",
    "C01-bm1": "values only -> converter/factory call events are part of C01's observation (exactly once per call)",
    "C01-bm2": "no bare annotations, rare re-declaration of ancestor names -> bare `x: int` fields, ancestor-name re-declaration",
    "C01-bm3": "a specification that no longer defines was a tool failure -> it is a failing input",
    "C19-m3": "total, unobserved comparison functions -> call logs, partial functions, typed faults",
    "C14-m2": "`__attrs_init__` only probed for presence -> full-state equivalence with the generated __init__ of a twin class, exception classes included",
    "C06-m2": "faults were one exception type -> fault types range over KeyError, LookupError, AttributeError, StopIteration, BaseException-only",
    "C06-m3": "single inheritance only -> multiple-inheritance shapes (mixin x hooked base in either order)",
    "C07-m3": "user containers of one kind -> container kinds vary (MappingProxyType over a kept dict, ...), mutated after class creation",
    "C09-m3": "single comparisons -> histories (compare, change what the key returns, compare again), residue check",
    "C15-m1": "identity-only snapshot of vars(cls) -> deep state of counting attrs + retry with a valid decorator compared with a fresh class",
    "C01-dm2": "twin chains compared equal -> equal-but-distinguishable twin chains, second direct base (side mixin)",
    "C01-dm3": "converter chains were opaque -> pipe members are converter events of the model (exactly once each, in order)",
    "C02-dm2": "same as C01-dm3 (pipe members as events; fault at a pipe member cuts the trace there)",
    "C03-dm1": "values always hashable, repr never observed -> unhashable values/key results, reprs scripted independently of ==, any repr() call is logged",
    "C03-dm2": "no faults, one comparison per pair -> scripted faults (== raises / key raises, 5 exception types), every pair compared twice, residue in attr's thread-locals checked",
    "C04-dm1": "no assoc in the histories -> assoc modelled (copy + object.__setattr__ + cache reset), change block over every eq x hash setting",
    "C04-dm3": "one shared key function object -> own key-function object per chain build, look-alike chains defined first",
    "C07-dm2": "empty `these` only over an empty body -> `these=[]`/`{}`/OrderedDict() over a body that still declares fields",
    "C07-dm3": "only the class under test was introspected, first -> introspection-order histories over ancestors and siblings; fields_dict must agree with fields for every class",
    "C10-dm3": "harness assigned __module__/__qualname__ itself and never used make_class/these= -> classes exec'd from source in a registered module, make_class/these=/frozen front-ends, nested qualnames",
    "C11-dm1": "repr callables always truthy functions -> callable objects with scripted truthiness (len 0, bool False, raising bool)",
    "C11-dm2": "no callable swallowed a fault below it -> tolerant callables (catch node in model and spec), theorem C11_caught_fault_no_residue",
    "C13-dm1": "filters answered real bools -> truthy/falsy non-bool verdicts",
    "C13-dm2": "leaves were int/str/None -> opaque objects (class objects, catch-all __getattr__, modules, functions) as leaves, identity observed",
    "C14-dm2": "every attrs base had a generated __init__ and the class always added a field -> bases with init=False / own __init__, fieldless subclasses, distinct hook tokens per class",
    "C17-dm1": "cached-property __getattr__ script was listed as not covered -> modelled (T1 tables c17GetattrFixed/MergeOrder), theorem C17_getattr_script_hermetic",
    "C17-dm2": "histories had no refused definitions -> refused twins (three refusal mechanisms) in the history alphabet, theorem C17_later_definitions_keep_entries",
    "C20-dm3": "assigned values always fresh strings -> assignment modes fresh/same/equal/iadd over mutable values",
    "C16-m3": "catalogue classes never were layout-twins with different callables -> tagged twins, behaviour fingerprints",
}


def main():
    rows = []
    for d in sorted((VERIF / "seeded").iterdir()):
        m = d / "meta.json"
        if not m.exists():
            continue
        meta = json.loads(m.read_text())
        notes = (d / "notes.md").read_text() if (d / "notes.md").exists() else ""
        title = ""
        for line in notes.splitlines():
            line = line.strip(" #*")
            if len(line) > 20:
                title = re.sub(r"\s+", " ", line)[:150]
                break
        chk = meta["steps"].get("check", {})
        last = (chk.get("lines") or [""])[-1]
        how = "failing-input replay" if chk.get("replay_kind") == "failing-input" else (chk.get("replay_kind") or "-")
        rows.append((meta["id"], meta["property"], title, "yes" if meta.get("confirmed") else "NO",
                     "DETECTED" if meta.get("detected") else "missed", how, STRENGTHENED.get(meta["id"], ""),
                     meta.get("repo_commit", "")))
    out = ["# Seeded property-breaking changes and which checks catch them", "",
           "Each change was produced by a sub-agent that saw only the property text and a scratch worktree of attrs, and",
           "was confirmed here (demo passes on the clean tree, fails with the change; attrs's pinned suite still passes).",
           "`./check <property> --tier quick` was then run with `ATTRS_REPO` pointing at the changed tree.", "",
           "| id | property | change (first line of its notes) | confirmed | quick check | replay | strengthened first? |",
           "|---|---|---|---|---|---|---|"]
    for r in rows:
        out.append("| " + " | ".join(str(x).replace("|", "/") for x in r[:7]) + " |")
    n = len(rows)
    det = sum(1 for r in rows if r[4] == "DETECTED")
    out += ["", f"{det} of {n} confirmed seeded changes are detected by the quick tier of their property's check."]
    (VERIF / "seeded" / "SUMMARY.md").write_text("\n".join(out) + "\n")
    print(f"{det}/{n} detected; missed: {[r[0] for r in rows if r[4] != 'DETECTED']}")


if __name__ == "__main__":
    main()
