#!/bin/sh
# usage: harness/merge_prop.sh Cxx   -- bring a builder branch's own files into the current branch
set -e
P=$1
cd /verif
BASE=$(git merge-base HEAD wip-$P)
FILES=$(git diff --name-only $BASE wip-$P | grep -v -e '^evidence/' -e 'AttrsModel/Driver.lean$' -e 'AttrsModel/AttrsModel.lean$' -e '^MANIFEST.json$' -e '^replays/' || true)
SHARED=""
for f in $FILES; do
  case "$f" in
    harness/runner.py|harness/leantools.py|harness/main.py|harness/common.py|harness/initbuild.py|harness/tables_from_source.py|lean/AttrsModel/AttrsModel/Core.lean|lean/AttrsModel/Main.lean|lean/AttrsModel/AttrsModel/Model/Init.lean|DESIGN.md|known_findings.json|harness/README.md|harness/CONTRIBUTING.md)
      SHARED="$SHARED $f";;
    *) git checkout wip-$P -- "$f";;
  esac
done
echo "merged files:"; echo "$FILES" | sed 's/^/  /'
# files the branch deleted
for f in $(git diff --no-renames --name-status $BASE wip-$P | awk '$1=="D"{print $2}' | grep -v -e '^evidence/' -e '^replays/' || true); do
  [ -e "$f" ] && git rm -q -f "$f" && echo "  removed $f"
done
[ -n "$SHARED" ] && echo "SHARED FILES CHANGED ON BRANCH (merge by hand): $SHARED" || true
