#!/bin/sh
# Re-evaluate every stored seeded change against /repo's CURRENT HEAD (after later fix: commits).
# usage: harness/seed_reeval_all.sh [--no-suite]     (scratch worktrees under /tmp/seed/reeval_N are created and removed)
cd /verif
N=1   # sequential: parallel runs would race on Generated/Tables.lean and the driver binary
for i in $(seq 1 $N); do git -C /repo worktree remove --force /tmp/seed/reeval_$i 2>/dev/null; git -C /repo worktree add -q --detach /tmp/seed/reeval_$i HEAD; done
ls seeded | grep -v SUMMARY | awk -v n=$N '{print $0, (NR % n) + 1}' > .work/reeval.list
for i in $(seq 1 $N); do
  ( grep " $i\$" .work/reeval.list | while read id slot; do
      p=$(echo $id | cut -d- -f1)
      rm -rf .work/reeval_src_$i && mkdir -p .work/reeval_src_$i && cp seeded/$id/patch.diff seeded/$id/demo.py .work/reeval_src_$i/ && [ -f seeded/$id/notes.md ] && cp seeded/$id/notes.md .work/reeval_src_$i/
      /venv/bin/python harness/seed_eval.py $p .work/reeval_src_$i /tmp/seed/reeval_$i $id "$@" 2>&1 | grep -v WARN | cut -c1-200
    done ) &
done
wait
for i in $(seq 1 $N); do git -C /repo worktree remove --force /tmp/seed/reeval_$i; done
/venv/bin/python harness/seeded_summary.py | grep -v WARN
