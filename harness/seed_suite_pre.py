"""Parallel pre-pass for seed_eval: run attrs's pinned suite with each seeded patch applied.

usage: seed_suite_pre.py <round dir suffix, e.g. out6> <Cxx> [<Cxx> ...]
For every property (in parallel, one process each) and every m1..m3 under /tmp/seed/<Cxx>.<suffix>/: apply the patch
in the property's scratch worktree /tmp/seed/<Cxx> (at /repo's HEAD), run the suite, write <mN>/suite.json, restore.
seed_eval.py then takes the result from there instead of running the suite itself.
"""
import json
import subprocess
import sys
from concurrent.futures import ThreadPoolExecutor
from pathlib import Path

sys.path.insert(0, str(Path(__file__).resolve().parent))
import seed_eval  # noqa: E402


def one(pid, suffix):
    wt = Path(f"/tmp/seed/{pid}")
    out = []
    seed_eval.sh(["git", "-C", str(wt), "checkout", "-q", "--detach", "main"])
    _, head = seed_eval.sh(["git", "-C", str(wt), "rev-parse", "--short", "HEAD"])
    for n in (1, 2, 3):
        src = Path(f"/tmp/seed/{pid}.{suffix}/m{n}")
        if not (src / "patch.diff").exists():
            continue
        rc, o = seed_eval.sh(["git", "-C", str(wt), "apply", str(src / "patch.diff")])
        if rc != 0:
            out.append((pid, n, "patch does not apply"))
            continue
        try:
            missing = seed_eval.suite(wt)
            (src / "suite.json").write_text(json.dumps({"repo_commit": head.strip(), "suite_with_change":
                                            {"baseline_tests_not_passing": len(missing), "first": missing[:5]}}))
            out.append((pid, n, len(missing)))
        finally:
            seed_eval.sh(["git", "-C", str(wt), "reset", "-q", "--hard"])
            seed_eval.sh(["git", "-C", str(wt), "clean", "-fdq"])
    return out


if __name__ == "__main__":
    suffix, pids = sys.argv[1], sys.argv[2:]
    with ThreadPoolExecutor(len(pids)) as ex:
        for r in ex.map(lambda p: one(p, suffix), pids):
            print(r)
