"""C16 helper: build the real objects of a scenario (decorator objects, shared containers, shared counting
attrs, base classes, class bodies), run its steps against the attrs working tree and fingerprint classes.

A *world* is one universe of fresh objects.  The same scenario is run in two worlds: with every step
("after") and with the definitions of the history erased ("alone").  Nothing in here is compared by id across
worlds; ids are only used inside one world, while the objects are alive, to detect rebinding/mutation.
"""
from __future__ import annotations

import collections
import copy
import collections.abc
import inspect
import re
import types

import attr
import attrs
from attr import setters
from attr._make import _DEFAULT_ON_SETATTR, NOTHING, _AndValidator, _CountingAttr, _frozen_setattrs

import common

_ADDR = re.compile(r" at 0x[0-9a-fA-F]+|(?<=counter=)\d+")     # addresses; the global creation counter of a counting attr
LOG: list = []
MODNAME = "c16mod"
HOOK_KEYS = ("__attrs_pre_init__", "__attrs_post_init__", "__init__")


# ------------------------------------------------------------------ user callables
# Every callable handed to attrs is a fresh object of its world and carries `.owner`: the class whose body
# created it, a base class, or the world's shared containers/decorator arguments.  Whenever one runs it logs
# (what, owner); whenever one is found inside a class (fields(), globals/closures of generated methods) its owner
# is checked: a class may only ever hold and run callables of itself, its bases and the shared arguments.
def _own(fn, tok, owner):
    fn.tok = tok
    fn.owner = owner
    return fn


def _num(v):
    while isinstance(v, (list, tuple)) and v:
        v = v[-1]
    return v if isinstance(v, int) and not isinstance(v, bool) else 0


_MARK: dict = {}


def marker(owner, role):
    """an annotation object that carries its owner: look-alike callables (closures of one factory share one
    `__code__`) differ in their annotations, and whichever annotation ends up on a generated method says whose it is"""
    t = _MARK.get((owner, role))
    if t is None:
        if len(_MARK) > 6000:
            _MARK.clear()
        t = _MARK[(owner, role)] = type("T" + role, (), {"owner": owner, "tok": "T" + role, "__module__": "c16types"})
    return t


def _annotated(fn, owner, first="v"):
    fn.__annotations__ = {first: marker(owner, "in"), "return": marker(owner, "out")}
    return fn


def mk_conv(owner, tok, variant=0):
    def c(v):
        LOG.append(("c:" + tok, owner))
        return ["c:" + tok + (f"#{variant}" if variant else ""), v]
    return _annotated(_own(c, "c:" + tok, owner), owner)


def mk_conv_n(owner, tok, nargs):
    """converter for attr.Converter(..., takes_self / takes_field): extra positional arguments are ignored"""
    def c(v, *extra):
        LOG.append(("c:" + tok, owner))
        return ["c:" + tok + f"/{len(extra)}", v]
    return _annotated(_own(c, "c:" + tok, owner), owner)


def mk_factory_self(owner, tok):
    def f(self):
        LOG.append(("f:" + tok, owner))
        return 200
    return _own(f, "f:" + tok, owner)


POOL_NVALID = [2, 1, 1]      # and_(v, v'), or_(v, v'), instance_of(int): what `nValid` of a field using them is


def mk_val(owner, tok):
    def v(inst, a, value):
        LOG.append(("v:" + tok, owner))
    return _own(v, "v:" + tok, owner)


def mk_key(owner, tok, variant=0):
    """eq/order key: values 11 and 13 are equal under variant 0, different under variants 1 and 2"""
    def k(v):
        LOG.append(("k:" + tok, owner))
        return _num(v) % (2 + variant)
    return _own(k, "k:" + tok, owner)


def mk_repr(owner, tok, variant=0):
    def r(v):
        LOG.append(("r:" + tok, owner))
        return f"R{variant}<{v!r}>"
    return _own(r, "r:" + tok, owner)


def mk_factory(owner, tok, variant=0):
    def f():
        LOG.append(("f:" + tok, owner))
        return 100 + variant
    return _own(f, "f:" + tok, owner)


def mk_hook(owner, tok, variant=0):
    def h(inst, a, value):
        LOG.append(("h:" + tok, owner))
        return ["h" + (f"#{variant}" if variant else ""), value]
    return _own(h, "h:" + tok, owner)


def mk_list_hook(owner, i):
    def h(inst, a, value):
        LOG.append((f"h:H{i}", owner))
        return value
    return _own(h, f"h:H{i}", owner)


def own_hash(self):
    return 42


def own_eq(self, other):
    return self is other


def own_lt(self, other):
    return False


def own_init(self, *a, **k):
    LOG.append(("own_init", None))


def own_repr(self):
    return "OWNREPR"


def own_setattr(self, n, v):
    LOG.append(("own_setattr", None))
    object.__setattr__(self, n, v)


def identity_transformer(cls, fields):
    return list(fields)


def pre_init(self):
    LOG.append(("pre", None))


def post_init(self):
    LOG.append(("post", None))


OWN = {id(f): f for f in (own_hash, own_eq, own_lt, own_init, own_repr, own_setattr, pre_init, post_init)}


def hook_obj(kind, custom=None):
    if kind == "n":
        return None
    if kind == "noOp":
        return setters.NO_OP
    if kind == "convert":
        return setters.convert
    if kind == "validate":
        return setters.validate
    if kind == "dflt":
        return _DEFAULT_ON_SETATTR
    if kind == "custom":
        return custom
    if kind == "list":
        return [setters.convert, setters.validate]
    raise ValueError(kind)


def hook_kind(h):
    if h is None:
        return "n"
    if h is setters.NO_OP:
        return "noOp"
    if h is setters.convert:
        return "convert"
    if h is setters.validate:
        return "validate"
    if h is _DEFAULT_ON_SETATTR:
        return "dflt"
    if isinstance(h, (list, tuple)):
        return "list"
    if getattr(h, "__name__", "") == "wrapped_pipe":
        return "list"
    return "custom"


def case_suffix(case):
    """class names carry a suffix derived from the case, so state that attrs might key by class name cannot
    travel from one case to the next inside a process (and a replay in a fresh process uses the same names)"""
    import hashlib
    import json
    return "_" + hashlib.sha1(json.dumps(case, sort_keys=True).encode()).hexdigest()[:8]


def normalised(world, deep):
    """a fingerprint as a string with this universe's class-name suffix removed"""
    import json
    return json.dumps(deep, sort_keys=True, default=str).replace(world.sfx, "")


def tri(v):
    return "n" if v is None else ("t" if v is True else ("f" if v is False else "other"))


def untri(s):
    return {"n": None, "t": True, "f": False}[s]


def n_valid(v):
    if v is None:
        return 0
    if isinstance(v, _AndValidator):
        return len(v._validators)
    if isinstance(v, (list, tuple)):
        return len(v)
    return 1


def ca_state(ca):
    return {"hasDefault": ca._default is not NOTHING, "conv": ca.converter is not None, "nValid": n_valid(ca._validator),
            "hook": hook_kind(ca.on_setattr), "kwOnly": bool(ca.kw_only), "metaN": len(ca.metadata)}


def exc4(e):
    k = common.exc_kind(e)
    return k if k in ("valueError", "typeError", "unannotated", "defaultAlreadySet") else "other"


# ------------------------------------------------------------------ structure of user objects (canonical, no ids)
def vstruct(v):
    if v is None:
        return None
    if isinstance(v, _AndValidator):
        return ["and"] + [vstruct(x) for x in v._validators]
    if isinstance(v, (list, tuple)):
        return ["seq"] + [vstruct(x) for x in v]
    return getattr(v, "tok", type(v).__name__)


def _cell(fn, name):
    try:
        i = fn.__code__.co_freevars.index(name)
        return fn.__closure__[i].cell_contents
    except Exception:  # noqa: BLE001
        return None


def cstruct(c):
    if c is None:
        return None
    if isinstance(c, attr.Converter):
        return ["Converter", cstruct(c.converter), bool(c.takes_self), bool(c.takes_field)]
    if isinstance(c, (list, tuple)):
        return ["seq"] + [cstruct(x) for x in c]
    t = getattr(c, "tok", None)
    if t is not None:
        return t
    if getattr(c, "__name__", "") == "pipe_converter":
        inner = _cell(c, "converters")
        return ["pipe"] + [cstruct(x) for x in (inner or ())]
    return getattr(c, "__name__", type(c).__name__)


def hstruct(h):
    k = hook_kind(h)
    if k == "list":
        if isinstance(h, (list, tuple)):
            return ["seq"] + [hstruct(x) for x in h]
        inner = _cell(h, "setters")
        return ["pipe"] + [hstruct(x) for x in (inner or ())]
    if k == "custom":
        return getattr(h, "tok", "custom")
    return k


def canon(v, depth=0):
    if v is None or isinstance(v, (bool, int, str)):
        return v
    if v is NotImplemented:
        return "NI"
    if v is NOTHING:
        return "NOTHING"
    if isinstance(v, (list, tuple)) and depth < 6:
        return [canon(x, depth + 1) for x in v]
    if isinstance(v, dict) and depth < 6:
        return sorted([[str(k), canon(x, depth + 1)] for k, x in v.items()])
    if isinstance(v, attr.Factory):
        return ["Factory", getattr(v.factory, "tok", getattr(v.factory, "__name__", "?")), bool(v.takes_self)]
    return getattr(v, "tok", None) or type(v).__name__


def attempt(thunk):
    try:
        return ["ok", canon(thunk())]
    except BaseException as e:  # noqa: BLE001
        return ["exc", common.exc_kind(e)]


# ------------------------------------------------------------------ fingerprints
def slot_of(cls, key):
    d = cls.__dict__
    if key not in d:
        return "absent"
    v = d[key]
    if v is None:
        return "nul"
    if id(v) in OWN:
        return "own"
    if v is _frozen_setattrs:
        return "frozen"
    if v is object.__setattr__:
        return "reset"
    return "gen"


def sa_hooks(cls):
    f = cls.__dict__.get("__setattr__")
    if f is None or slot_of(cls, "__setattr__") != "gen":
        return []
    sa = _cell(f, "sa_attrs")
    if not isinstance(sa, dict):
        return [["?", "custom"]]
    return [[k, hook_kind(h)] for k, (_, h) in sa.items()]


def result_of(cls):
    """the modelled part of the fingerprint (Lean `ClsResult`)"""
    fields = []
    for a in cls.__attrs_attrs__:
        fields.append({"name": a.name, "inherited": bool(a.inherited), "kwOnly": bool(a.kw_only),
                       "hasDefault": a.default is not NOTHING, "conv": a.converter is not None,
                       "nValid": n_valid(a.validator), "metaN": len(a.metadata), "onSetattr": hook_kind(a.on_setattr)})
    return {"ok": {"r": {
        "fields": fields, "hooks": sa_hooks(cls),
        "setattr": slot_of(cls, "__setattr__"), "hash": slot_of(cls, "__hash__"), "eq": slot_of(cls, "__eq__"),
        "order": slot_of(cls, "__lt__"), "init": slot_of(cls, "__init__"), "repr": slot_of(cls, "__repr__"),
        "attrsInit": "__attrs_init__" in cls.__dict__,
        "pre": bool(getattr(cls, "__attrs_pre_init__", False)), "post": bool(getattr(cls, "__attrs_post_init__", False)),
    }}}


RAW1, RAW2, RAW3 = 11, 22, 13     # 11 and 13: equal under key variant 0 (mod 2), different under variants 1, 2


def _blank(cls, raw):
    inst = cls.__new__(cls)
    for a in cls.__attrs_attrs__:
        try:
            object.__setattr__(inst, a.name, raw)
        except Exception:  # noqa: BLE001
            pass
    try:
        object.__setattr__(inst, "_attrs_cached_hash", None)
    except Exception:  # noqa: BLE001
        pass
    return inst


def owned_objects(cls):
    """every owner-tagged callable a class holds: in fields(), in its own dict, in the globals, defaults and
    closures of the methods attrs generated for it"""
    import types
    seen, out = set(), []

    def walk(o, d):
        if d > 10 or id(o) in seen or o is None or isinstance(o, (str, int, float, bool, bytes, types.ModuleType)):
            return
        seen.add(id(o))
        if isinstance(o, type):
            if isinstance(o.__dict__.get("owner"), str):
                out.append(o)          # an owner-tagged annotation type
            return
        try:
            ow = o.__dict__.get("owner") if inspect.isfunction(o) else None
        except Exception:  # noqa: BLE001
            ow = None
        if isinstance(ow, str):
            out.append(o)
        if inspect.isfunction(o):
            for v in list((getattr(o, "__annotations__", None) or {}).values()):
                walk(v, d + 1)
            if o.__code__.co_filename.startswith("<attrs generated"):
                # (attrs merges the globals of the class's module into those of the generated methods: those
                # names are the module's, not something attrs handed to this class)
                import sys
                mod = getattr(sys.modules.get(getattr(o, "__module__", None) or ""), "__dict__", {})
                for k, v in list(o.__globals__.items()):
                    if k != "__builtins__" and k not in mod:
                        walk(v, d + 1)
            for cell in o.__closure__ or ():
                try:
                    walk(cell.cell_contents, d + 1)
                except ValueError:
                    pass
            for v in o.__defaults__ or ():
                walk(v, d + 1)
            for v in (o.__kwdefaults__ or {}).values():
                walk(v, d + 1)
        elif isinstance(o, (list, tuple, set, frozenset)):
            for v in o:
                walk(v, d + 1)
        elif isinstance(o, (dict, types.MappingProxyType)):
            for v in list(o.values()):
                walk(v, d + 1)
        elif isinstance(o, attr.Attribute):
            for n in type(o).__slots__:
                walk(getattr(o, n, None), d + 1)
        elif isinstance(o, _AndValidator):
            walk(o._validators, d + 1)
        elif isinstance(o, attr.Converter):
            walk(o.converter, d + 1)
            walk(getattr(o, "__call__", None), d + 1)
            walk(getattr(o, "_first_param_type", None), d + 1)
        elif isinstance(o, attr.Factory):
            walk(o.factory, d + 1)
        elif isinstance(o, (classmethod, staticmethod)):
            walk(o.__func__, d + 1)
        elif isinstance(o, property):
            walk(o.fget, d + 1)

    for k, v in list(cls.__dict__.items()):
        if k not in ("__dict__", "__weakref__"):
            walk(v, 0)
    return out


def _safe(thunk):
    try:
        return thunk()
    except BaseException as e:  # noqa: BLE001
        return ["exc", common.exc_kind(e)]


def _field_row(a):
    return [a.name, a.alias, canon(a.init), "callable" if callable(a.repr) else canon(a.repr), canon(a.eq),
            canon(a.order), canon(a.hash), canon(a.kw_only), canon(a.inherited),
            getattr(a.type, "__name__", None) if a.type is not None else None, canon(a.default),
            vstruct(a.validator), cstruct(a.converter), canon(dict(a.metadata)), hstruct(a.on_setattr),
            canon(a.eq_key), canon(a.order_key)]


ENV_OPS = ("validatorsOff", "validatorsOn")


def deep_of(cls, allowed=None):
    """`_deep_of` with the process environment in a canonical state: the whole fingerprint is taken with validators
    enabled, the assignment/construction probes once more with validators disabled; the switch is put back to
    what it was.  (A class must behave the same whatever the switch was while it was being DEFINED.)"""
    prev = attr.validators.get_disabled()
    try:
        attr.validators.set_disabled(False)
        out = _deep_of(cls, allowed, True)
        attr.validators.set_disabled(True)
        off = _deep_of(cls, allowed, False)
        out["validators_disabled"] = {k: off.get(k) for k in ("assign", "construct", "construct_defaults")}
        out["foreign"] = list(out.get("foreign") or []) + list(off.get("foreign") or [])
        return out
    finally:
        attr.validators.set_disabled(prev)


def _deep_of(cls, allowed=None, full=True):
    """the full behaviour fingerprint of a class: structure of `fields()`, class dict keys, probes, and
    `foreign`: every owner-tagged callable held or run by the class that belongs neither to the class itself, nor
    to one of its bases, nor to the shared arguments (`allowed`: owner -> label).
    Never raises: a part that cannot be computed is recorded as the exception kind."""
    allowed = allowed or {}
    foreign = []

    def log():
        """the callback log since the last call, owners replaced by their label relative to this class"""
        res = []
        for what, owner in LOG:
            lab = "" if owner is None else allowed.get(owner, "FOREIGN")
            if lab == "FOREIGN":
                foreign.append("ran " + what)
            res.append(what + ("@" + lab if lab else ""))
        del LOG[:]
        return res

    out = {}
    d = cls.__dict__
    out["name"] = _safe(lambda: [cls.__name__, cls.__qualname__, cls.__module__, [b.__name__ for b in cls.__mro__]])
    # (`__slotnames__` is CPython's own cache, written by copy/pickle through copyreg._slotnames)
    out["dunders"] = sorted(k for k in d if k.startswith("__") and k not in ("__doc__", "__dict__", "__slotnames__"))
    out["slots"] = canon(d.get("__slots__", "nodict"))
    out["match_args"] = canon(d.get("__match_args__", "absent"))
    out["own_setattr_flag"] = canon(getattr(cls, "__attrs_own_setattr__", "absent"))
    out["slotkinds"] = {k: slot_of(cls, k) for k in ("__setattr__", "__delattr__", "__hash__", "__eq__", "__ne__", "__lt__",
                                                      "__le__", "__gt__", "__ge__", "__init__", "__repr__", "__str__",
                                                      "__getstate__", "__setstate__", "__attrs_init__")}
    out["result"] = _safe(lambda: result_of(cls)) if full else None
    held = _safe(lambda: sorted({o.tok + "@" + allowed.get(o.owner, "FOREIGN") for o in owned_objects(cls)})) if full else []
    out["held"] = held
    if isinstance(held, list):
        foreign += ["holds " + h for h in held if h.endswith("@FOREIGN")]
    tup = _safe(lambda: tuple(cls.__attrs_attrs__))
    if not isinstance(tup, tuple):
        out["fields"] = tup
        out["foreign"] = foreign
        return out
    real = cls.__attrs_attrs__
    out["tupcls"] = [type(real).__name__, len(real),
                     [_safe(lambda a=a: getattr(real, a.name) is a) for a in tup],
                     [_safe(lambda i=i: real[i] is tup[i]) for i in range(len(tup))]]
    out["fields"] = [_safe(lambda a=a: _field_row(a)) for a in tup] if full else None
    if full:
        out["ft_saw"] = allowed.get("__ft__")
        if allowed.get("__who__") == "def":
            # the method written in THIS body keeps answering with this class (zero-argument super() / __class__)
            out["who"] = attempt(lambda: _blank(cls, RAW1).who() is cls)
        # what inspect shows as the source of every generated method (through linecache)
        # (the hash script embeds hash(filename), a number that depends on the universe's class-name suffix)
        out["source"] = {m: attempt(lambda m=m: re.sub(r"-?\d{6,}", "N", inspect.getsource(d[m]))) for m in
                         ("__init__", "__attrs_init__", "__eq__", "__hash__", "__repr__")
                         if m in d and slot_of(cls, m) == "gen"}

        def lab(v):
            ow = getattr(v, "__dict__", {}).get("owner") if isinstance(v, type) else None
            if isinstance(ow, str):
                la = allowed.get(ow, "FOREIGN")
                if la == "FOREIGN":
                    foreign.append("resolves " + v.tok)
                return v.tok + "@" + la
            return getattr(v, "__name__", None) or str(v)

        for m in ("__init__", "__attrs_init__"):
            f = d.get(m)
            if f is not None and slot_of(cls, m) == "gen":
                import typing
                # string annotations are resolved through the globals of the generated method ...
                out["hints" + m] = attempt(lambda f=f: sorted((k, lab(v)) for k, v in typing.get_type_hints(f).items()))
                # ... which must show the module as it was when THIS class was defined
                out["ann_globals" + m] = attempt(lambda f=f: lab(f.__globals__["Ann"]) if "Ann" in f.__globals__ else None)
    for m in (("__init__", "__attrs_init__") if full else ()):
        f = d.get(m)
        if f is not None and slot_of(cls, m) == "gen":
            out["sig" + m] = attempt(lambda f=f: _ADDR.sub(" at 0x?", str(inspect.signature(f))))
            out["ann" + m] = attempt(lambda f=f: sorted((k, getattr(v, "__name__", str(v)))
                                                        for k, v in getattr(f, "__annotations__", {}).items()))
    # behaviour probes
    del LOG[:]
    x = attempt(lambda: _blank(cls, RAW1) and None)
    out["blank"] = x
    if x[0] == "ok":
        i1, i2, i3 = _blank(cls, RAW1), _blank(cls, RAW1), _blank(cls, RAW3)
        if full:
            out["hash"] = [attempt(lambda: hash(i1) == hash(i2))[0], attempt(lambda: hash(i1) == hash(i1)),
                           attempt(lambda: hash(i1) == hash(i3)), log()]
            out["repr"] = [attempt(lambda: _ADDR.sub(" at 0x?", repr(i1))), log()]
            out["eq"] = [attempt(lambda: i1 == i2), attempt(lambda: i1 != i2), attempt(lambda: i1 == i1),
                         attempt(lambda: i1 == i3), attempt(lambda: i1 != i3), log()]
            out["lt"] = [attempt(lambda: i1 < i2), attempt(lambda: i1 < i3), attempt(lambda: i3 <= i1),
                         attempt(lambda: i1 > i3), attempt(lambda: i1 >= i3), log()]
            if slot_of(cls, "__getstate__") == "gen":
                out["getstate"] = [attempt(lambda: i1.__getstate__()), log()]
        assigns = []
        for a in list(tup) + [None]:
            name = a.name if a is not None else "zz_other"
            r = attempt(lambda: setattr(i1, name, RAW2))
            got = attempt(lambda: getattr(i1, name))
            assigns.append([name, r, got, log()])
        out["assign"] = assigns
        out["delattr"] = attempt(lambda: delattr(_blank(cls, RAW1), tup[0].name) if len(tup) else None)
    del LOG[:]

    def make(only_mandatory):
        kw = {a.alias: RAW1 for a in tup if a.init and not (only_mandatory and a.default is not NOTHING)}
        inst = cls(**kw)
        return [[a.name, canon(getattr(inst, a.name, "unset"))] for a in tup] + [_ADDR.sub(" at 0x?", repr(inst))]

    out["construct"] = [attempt(lambda: make(False)), log()]
    out["construct_defaults"] = [attempt(lambda: make(True)), log()]
    out["foreign"] = foreign
    return out


# ------------------------------------------------------------------ closure cells of a decorator object
def cells_of(fn, depth=0):
    """name -> object for every closure cell reachable from the decorator (through function-valued cells)"""
    out = {}
    code = getattr(fn, "__code__", None)
    clo = getattr(fn, "__closure__", None)
    if code is None or not clo:
        return out
    for name, cell in zip(code.co_freevars, clo):
        try:
            v = cell.cell_contents
        except ValueError:
            v = "<empty>"
        out[("  " * depth) + name] = v
        if inspect.isfunction(v) and depth < 3:
            for k, x in cells_of(v, depth + 1).items():
                out.setdefault(k, x)
    return out


def decode_cells(fn, args_init):
    """the two modelled cells; a cell that does not exist (the source was reorganised) counts as unchanged"""
    cs = {k.strip(): v for k, v in cells_of(fn).items()}
    out = dict(args_init)
    if "hash" in cs or "unsafe_hash" in cs:
        h = cs.get("unsafe_hash")
        if h is None:
            h = cs.get("hash")
        t = tri(h)
        if t != "other":
            out["hash"] = t
    if "on_setattr" in cs:
        out["onSetattr"] = hook_kind(cs["on_setattr"])
    return out


USE_OPS = ("fields", "fields_dict", "has", "asdict", "astuple", "evolve", "validate", "repr_eq_hash", "copy", "pickle",
           "fingerprint")


def plain_snapshot(cls):
    """the own `__dict__` of a class attrs never decorated: nothing may ever be left behind on it"""
    return sorted((k, id(v)) for k, v in cls.__dict__.items() if k != "__slotnames__")   # (CPython's copyreg cache)


def in_thread(fn):
    """run fn() in a fresh thread and hand its result (or exception) back"""
    import threading
    box = {}

    def run():
        try:
            box["v"] = fn()
        except BaseException as e:  # noqa: BLE001
            box["e"] = e

    t = threading.Thread(target=run)
    t.start()
    t.join()
    if "e" in box:
        raise box["e"]
    return box.get("v")


class UserMapping(collections.abc.Mapping):
    """a user's own read-only Mapping over a dict the user keeps (and may edit later)"""

    def __init__(self, d):
        self._d = d

    def __getitem__(self, k):
        return self._d[k]

    def __iter__(self):
        return iter(self._d)

    def __len__(self):
        return len(self._d)


KINDS = {"M": ["dict", "proxy", "odict", "mapping"], "L": ["list", "tuple", "obj"], "Cs": ["list", "tuple", "obj"],
         "H": ["list", "tuple", "obj"], "these": ["dict", "odict"], "mk": ["dict", "odict"], "mkNames": ["list", "tuple"],
         "body": ["dict", "odict"]}


# ------------------------------------------------------------------ the world
class World:
    def __init__(self, case, tag="", fp_bases=True):
        self.case = case
        self.fp_bases = fp_bases
        self.sfx = case_suffix(case) + tag
        self.bases = {}
        self.last_who = None
        self.raw_objs = {}             # harness-only `obj` key -> [raw class, owner, did the last attempt on it fail?]
        self.modules = {}
        self.ft_seen = []
        self.mids = {}
        self.made = []
        self.plain_dicts = []          # (non-attrs class, snapshot of its __dict__ at creation)
        self.roots = {}
        self.base_fp = {}
        self.shared = "S" + self.sfx            # owner of everything passed in through shared arguments
        self.allowed = {}                        # id(class) -> (class, {owner: label})
        self.cur_owner = self.shared
        self.cur_variant = 0
        # every LIST object of the caller that was handed to a factory which must take it in at once: attr.s(on_setattr=[..])
        # and attr.ib(validator=[..] / on_setattr=[..]) of the shared counting attrs / these / make_class fields
        self.kept_lists = []
        # harness-only: the KIND of every shared argument container (the model only counts their members)
        self.kinds = {k: v[0] for k, v in KINDS.items()}
        self.kinds.update(case.get("kinds") or {})
        self.L_items = [mk_val(self.shared, f"L{i}") for i in range(case["valLen"])]
        self.Cs_items = [mk_conv(self.shared, f"C{i}") for i in range(case["convLen"])]
        self.H_items = [mk_list_hook(self.shared, i) for i in range(case["hookLen"])]
        self.M_items = self._dictlike("M", {f"k{i}": i for i in range(case["metaSize"])})   # what the user keeps and edits
        self._rebuild()
        S = self.shared
        # user OBJECTS that several classes may use, under any field name (owner: shared arguments)
        self.pool = {
            "conv": [attr.Converter(mk_conv(S, "P0")), attr.Converter(mk_conv_n(S, "P1", 1), takes_self=True),
                     attr.Converter(mk_conv_n(S, "P2", 1), takes_field=True),
                     attr.Converter(mk_conv_n(S, "P3", 2), takes_self=True, takes_field=True),
                     attr.converters.pipe(attr.Converter(mk_conv(S, "P4a")), mk_conv(S, "P4b")),
                     attr.converters.optional(attr.Converter(mk_conv(S, "P5")))],
            "factory": [attr.Factory(mk_factory(S, "PF0")), attr.Factory(mk_factory_self(S, "PF1"), takes_self=True)],
            "valid": [attr.validators.and_(mk_val(S, "PV0a"), mk_val(S, "PV0b")),
                      attr.validators.or_(mk_val(S, "PV1a"), mk_val(S, "PV1b")), attr.validators.instance_of(object)],
            "eqKey": [mk_key(S, "PK0", 0), mk_key(S, "PK1", 1)],
            "reprFn": [mk_repr(S, "PR0", 0), mk_repr(S, "PR1", 1)],
        }
        # harness-only: which thread creates the shared counting attrs, which thread runs the definitions
        self.threads = dict({"cas": False, "defs": "main"}, **(case.get("threads") or {}))
        self._worker = None

        def make_cas():
            if self.threads["cas"]:
                for _ in range(3):
                    attr.ib()                      # this thread has created a few fields before
            self.cas = [self._ca_from_state(s, f"ca{j}") for j, s in enumerate(case["cas"])]
            self.these = self._dictlike("these", {f["name"]: self._inline(f, "t") for f in case["these"]})
            self.mk_dict = self._dictlike("mk", {f["name"]: self._inline(f, "m") for f in case["mkFields"]})

        if self.threads["cas"]:
            in_thread(make_cas)
        else:
            make_cas()
        for k in case["mkHooks"]:
            self.mk_dict[k] = {"__attrs_pre_init__": pre_init, "__attrs_post_init__": post_init, "__init__": own_init}[k]
        self.mk_names = [f["name"] for f in case["mkFields"]]
        if self.kinds["mkNames"] == "tuple":
            self.mk_names = tuple(self.mk_names)
        self.mk_body = self._dictlike("body", self._own_ns(case["mkBody"]))
        self.mk_bases = {}
        self.hook_lists = []
        self.decos = [self._deco(a) for a in case["decos"]]
        self.cells0 = [cells_of(d) for d in self.decos]
        self.n_classes = 0
        # everything a definition step needs exists before the first step (so snapshots only see attrs's effects)
        for st in list(case["steps"]) + [case["target"]]:
            if isinstance(st, dict) and "defMk" in st:
                k = st["defMk"]["m"]["base"]
                if k not in self.mk_bases:
                    self.mk_bases[k] = (self.base(k),)
            elif isinstance(st, dict) and "defDeco" in st:
                self.body_base(st["defDeco"]["c"])

    # --- shared argument containers of the chosen kinds
    def _dictlike(self, which, d):
        return collections.OrderedDict(d) if self.kinds[which] == "odict" else d

    def _rebuild(self):
        """(re)create the container objects the user passes to attr.ib from what the user keeps.  A list is kept and
        mutated in place; a tuple or a prebuilt and_/pipe object is immutable, so an append makes a new one; a
        MappingProxyType / Mapping is a live view of the dict the user keeps."""
        k = self.kinds
        if not (k["L"] == "list" and hasattr(self, "L")):
            self.L = (self.L_items if k["L"] == "list" else tuple(self.L_items) if k["L"] == "tuple"
                      else attr.validators.and_(*self.L_items))
        if not (k["Cs"] == "list" and hasattr(self, "Cs")):
            self.Cs = (self.Cs_items if k["Cs"] == "list" else tuple(self.Cs_items) if k["Cs"] == "tuple"
                       else attr.converters.pipe(*self.Cs_items))
        if not (k["H"] == "list" and hasattr(self, "H")):
            self.H = (self.H_items if k["H"] == "list" else tuple(self.H_items) if k["H"] == "tuple"
                      else setters.pipe(*self.H_items))
        if not hasattr(self, "M"):
            self.M = (types.MappingProxyType(self.M_items) if k["M"] == "proxy"
                      else UserMapping(self.M_items) if k["M"] == "mapping" else self.M_items)

    def sizes(self):
        return [len(self.L_items), len(self.Cs_items), len(self.H_items), len(self.M_items)]

    # --- counting attrs
    def _ib(self, default, nvalid, convf, hook, kw_only, meta_n, tok, api="ib", fx=None):
        """a counting attr whose callables all belong to the current owner (a class body, or the shared arguments)"""
        own, var = self.cur_owner, self.cur_variant
        fx = fx or {}
        kw = {}
        if default:
            if fx.get("factory"):
                kw["factory" if fx["factory"] == "kw" else "default"] = (
                    mk_factory(own, tok, var) if fx["factory"] == "kw" else attr.Factory(mk_factory(own, tok, var)))
            else:
                kw["default"] = 7 + var
        if nvalid == 1:
            kw["validator"] = mk_val(own, tok + ".0")
        elif nvalid > 1:
            kw["validator"] = [mk_val(own, f"{tok}.{i}") for i in range(nvalid)]
            if own == self.shared:
                self.kept_lists.append(("val", kw["validator"]))
        if convf:
            kw["converter"] = mk_conv(own, tok, var)
        pool = fx.get("pool") or {}
        # (a pool object is used only where the modelled facts of the field say the same: a shrunk case stays consistent)
        if "conv" in pool and convf:
            kw["converter"] = self.pool["conv"][pool["conv"]]
        if "valid" in pool and nvalid == POOL_NVALID[pool["valid"]]:
            kw["validator"] = self.pool["valid"][pool["valid"]]
        if "factory" in pool and default:
            kw.pop("factory", None)
            kw["default"] = self.pool["factory"][pool["factory"]]
        if "eqKey" in pool:
            kw["eq"] = self.pool["eqKey"][pool["eqKey"]]
        if "reprFn" in pool:
            kw["repr"] = self.pool["reprFn"][pool["reprFn"]]
        if fx.get("eqKey") and "eq" not in kw:
            kw["eq"] = mk_key(own, tok + ".eq", var)
        if fx.get("orderKey"):
            kw["order"] = mk_key(own, tok + ".ord", var)
        if fx.get("reprFn") and "repr" not in kw:
            kw["repr"] = mk_repr(own, tok, var)
        h = hook_obj(hook, mk_hook(own, tok, var) if hook == "custom" else None)
        if h is not None:
            kw["on_setattr"] = h
            if isinstance(h, list) and own == self.shared:
                self.kept_lists.append(("hook", h))
        if kw_only:
            kw["kw_only"] = True
        if meta_n:
            kw["metadata"] = {f"m{i}": i for i in range(meta_n)}
        return (attrs.field if api == "field" else attr.ib)(**kw)

    def _ca_from_state(self, s, tok):
        return self._ib(s["hasDefault"], s["nValid"], s["conv"], s["hook"], s["kwOnly"], s["metaN"], tok)

    def _inline(self, f, prefix, api="ib"):
        return self._ib(f["hasDefault"], f["nValid"], f["conv"], f["hook"], f["kwOnly"], f["metaN"], prefix + f["name"], api,
                        f.get("x"))

    def _lists_field(self, f, api="ib"):
        kw = {"validator": self.L, "converter": self.Cs, "metadata": self.M, "on_setattr": self.H}
        if f["hasDefault"]:
            kw["default"] = 7
        if f["kwOnly"]:
            kw["kw_only"] = True
        return (attrs.field if api == "field" else attr.ib)(**kw)

    # --- decorators
    def _deco(self, a):
        x = a.get("x", {})
        kw = {}
        for k, py in (("repr", "repr"), ("init", "init"), ("eq", "eq"), ("order", "order"), ("autoAttribs", "auto_attribs")):
            if a.get(k) is not None:
                kw[py] = untri(a[k])
        if a.get("hash") is not None:
            kw[x.get("hashKw", "unsafe_hash")] = untri(a["hash"])
        for k, py in (("slots", "slots"), ("frozen", "frozen"), ("kwOnly", "kw_only"), ("cacheHash", "cache_hash"),
                      ("autoExc", "auto_exc"), ("autoDetect", "auto_detect")):
            if a.get(k) is not None:
                kw[py] = a[k]
        if a.get("onSetattr") is not None:
            h = hook_obj(a["onSetattr"], mk_hook(self.shared, "deco"))
            if isinstance(h, list):
                self.hook_lists.append(h)
                if a["api"] == "attrS":
                    # (define()/frozen() re-call attrs() per class and so read the caller's list at every application
                    # already on the unchanged source: that shape is not generated)
                    self.kept_lists.append(("hook", h))
            kw["on_setattr"] = h
        if a.get("these"):
            kw["these"] = self.these
        for k in ("weakref_slot", "match_args", "getstate_setstate"):
            if k in x:
                kw[k] = x[k]
        if x.get("ft"):
            kw["field_transformer"] = self.transformer(x["ft"])
        if a["api"] == "attrS":
            if "collect_by_mro" in x:
                kw["collect_by_mro"] = x["collect_by_mro"]
            return attr.s(**kw)
        if a["api"] == "define":
            return (attrs.mutable if x.get("alias") == "mutable" else attrs.define)(**kw)
        return attrs.frozen(**kw)

    # --- bases
    def base(self, kind):
        b = self.bases.get(kind)
        if b is not None:
            return b
        ns = {"__module__": MODNAME, "__qualname__": "Base_" + kind + self.sfx}
        if kind == "object":
            b = object
        elif kind == "exc":
            b = Exception
        elif kind == "plain":
            b = type("Base_plain" + self.sfx, (), ns)
            self.plain_dicts.append((b, plain_snapshot(b)))
        elif kind in ("frozenDefine", "mutableDefine"):
            ns["__annotations__"] = {"b": int}
            b = attrs.define(frozen=(kind == "frozenDefine"))(type("Base_" + kind + self.sfx, (), ns))
        elif kind == "hookedDefine":
            ns["__annotations__"] = {"b": int}
            ns["b"] = attrs.field(converter=mk_conv("B:" + kind + self.sfx, "base"), validator=mk_val("B:" + kind + self.sfx, "base"))
            b = attrs.define(type("Base_" + kind + self.sfx, (), ns))
        elif kind in ("frozenAttrS", "mutableAttrS"):
            ns["b"] = attr.ib()
            b = attr.s(frozen=(kind == "frozenAttrS"))(type("Base_" + kind + self.sfx, (), ns))
        elif kind in ("deepDefine", "deepFrozen", "deepHooked", "deepAttrS"):
            gns = {"__module__": MODNAME, "__qualname__": "Root_" + kind + self.sfx}
            if kind == "deepAttrS":
                gns["g"] = attr.ib()
                g = attr.s(type("Root_" + kind + self.sfx, (), gns))
                ns["b"] = attr.ib()
                b = attr.s(type("Base_" + kind + self.sfx, (g,), ns))
            else:
                gns["__annotations__"] = {"g": int}
                if kind == "deepHooked":
                    gns["g"] = attrs.field(converter=mk_conv("B:" + kind + self.sfx, "root"),
                                           validator=mk_val("B:" + kind + self.sfx, "root"))
                g = attrs.define(frozen=(kind == "deepFrozen"))(type("Root_" + kind + self.sfx, (), gns))
                ns["__annotations__"] = {"b": int}
                b = attrs.define(type("Base_" + kind + self.sfx, (g,), ns))
            self.roots[kind] = g
            self.allowed[id(g)] = (g, {"B:" + kind + self.sfx: "own", self.shared: "shared"})
            if self.fp_bases:
                self.base_fp["root:" + kind] = deep_of(g, self.allowed_of(g))
        else:
            raise ValueError(kind)
        self.bases[kind] = b
        if kind not in ("object", "exc", "plain"):
            self.allowed[id(b)] = (b, {"B:" + kind + self.sfx: "own", self.shared: "shared"})
            if self.fp_bases:
                self.base_fp[kind] = deep_of(b, self.allowed_of(b))
        return b

    def transformer(self, kind):
        """a field_transformer: the identity (True), one that OBSERVES what it is handed ("observe"), one that acts on
        the documented difference between `alias is None` and an explicit alias ("alias")"""
        if kind is True:
            return identity_transformer

        def ft(cls, fields):
            self.ft_seen.append([[a.name, a.alias is None, bool(a.inherited), bool(a.kw_only), a.default is not NOTHING]
                                 for a in fields])
            if kind == "alias":
                return [a.evolve(alias=a.name.lstrip("_") + "_") if a.alias is None and not a.inherited else a for a in fields]
            return list(fields)

        return ft

    def module_for(self, name=None):
        """the synthetic module (registered in sys.modules for the life of the universe) whose namespace the class
        bodies are executed in: every definition binds and REBINDS names in it"""
        import sys
        key = (name or MODNAME) + self.sfx
        m = self.modules.get(key)
        if m is None:
            m = self.modules[key] = types.ModuleType(key)
            sys.modules[key] = m
        return m

    def body_base(self, facts):
        """the class a body inherits from: the base of its kind, or (harness-only `plainMid`) an undecorated class in
        between, shared by all bodies of the universe that ask for it"""
        kind = facts["base"]
        b = self.base(kind)
        if not facts.get("x", {}).get("plainMid") or kind in ("object", "exc", "hookedDefine", "deepHooked"):
            return b
        m = self.mids.get(kind)
        if m is None:
            m = self.mids[kind] = type("Mid_" + kind + self.sfx, (b,), {"__module__": MODNAME, "__qualname__": "Mid_" + kind + self.sfx})
            self.plain_dicts.append((m, plain_snapshot(m)))
        return m

    def universe_classes(self):
        """every class of the universe a read-only use can be applied to, in a fixed order"""
        out = [b for k, b in sorted(self.bases.items()) if k not in ("object", "exc")]
        out += [b for _, b in sorted(self.roots.items())] + [m for _, m in sorted(self.mids.items())]
        return out + [c for c in self.made]

    def use(self, k):
        """a read-only use of what exists (never a definition, never an operation on an argument)"""
        import copy as _copy
        import pickle as _pickle
        objs = self.universe_classes()
        if not objs:
            return "done"
        cls = objs[(k // len(USE_OPS)) % len(objs)]
        op = USE_OPS[k % len(USE_OPS)]
        prev = attr.validators.get_disabled()
        try:
            if op == "fields":
                attr.fields(cls)
            elif op == "fields_dict":
                attr.fields_dict(cls)
            elif op == "has":
                attr.has(cls)
            elif op == "fingerprint":
                deep_of(cls, self.allowed_of(cls))
            else:
                inst = _blank(cls, RAW1) if hasattr(cls, "__attrs_attrs__") else cls()
                if op == "asdict":
                    attr.asdict(inst)
                elif op == "astuple":
                    attr.astuple(inst)
                elif op == "evolve":
                    attr.evolve(inst)
                elif op == "validate":
                    attr.validate(inst)
                elif op == "repr_eq_hash":
                    repr(inst), inst == _blank(cls, RAW1), attempt(lambda: hash(inst))
                elif op == "copy":
                    _copy.copy(inst)
                elif op == "pickle":
                    _pickle.dumps(inst)
        except BaseException:  # noqa: BLE001 -- what a use returns or raises is not C16's business
            pass
        finally:
            attr.validators.set_disabled(prev)
            del LOG[:]
        return "done"

    def allowed_of(self, cls):
        e = self.allowed.get(id(cls))
        return e[1] if e is not None and e[0] is cls else {self.shared: "shared"}

    # --- class bodies
    def _own_ns(self, own):
        ns = {}
        if own["ownHash"] == "fn":
            ns["__hash__"] = own_hash
        elif own["ownHash"] == "nul":
            ns["__hash__"] = None
        for k, name, f in (("ownEq", "__eq__", own_eq), ("ownLt", "__lt__", own_lt), ("ownInit", "__init__", own_init),
                           ("ownRepr", "__repr__", own_repr), ("ownSetattr", "__setattr__", own_setattr)):
            if own[k]:
                ns[name] = f
        return ns

    def raw_class(self, facts):
        """the undecorated class, built by executing a real `class` statement"""
        x = facts.get("x", {})
        name = x.get("name", "C") + self.sfx
        api = x.get("fieldApi", "ib")
        self.cur_owner = f"K{self.n_classes}{self.sfx}"     # every callable created by this body belongs to this class
        self.cur_variant = x.get("variant", 0)
        env = self.module_for(x.get("module")).__dict__
        env["Base"] = self.body_base(facts)
        # names the string annotations of this body refer to: `Ann` is REBOUND by every definition, `Ann<n>` is new
        env["Ann"] = marker(self.cur_owner, "ann")
        env["Ann_" + x.get("name", "C")] = marker(self.cur_owner, "annN")     # new unless an earlier class had this name
        lines = [f"class {name}(Base):" if facts["base"] != "object" else f"class {name}:"]
        for i, f in enumerate(facts["fields"]):
            n = f["name"]
            ann = ": int" if f["annotated"] else ""
            if f["annotated"] and x.get("strAnn"):
                ann = ': "Ann"' if i % 2 == 0 else ': "Ann_%s"' % x.get("name", "C")
            if f["src"] == "plain":
                lines.append(f"    {n}{ann}" + (" = 5" if f["hasDefault"] else ""))
                continue
            if f["src"] == "shared":
                env[f"V{i}"] = lambda j=f["ca"]: self.cas[j]
            elif f["src"] == "lists":
                env[f"V{i}"] = lambda f=f: self._lists_field(f, api)
            else:
                env[f"V{i}"] = lambda f=f: self._inline(f, "f", api)
            lines.append(f"    {n}{ann} = V{i}()")
        for k, v in self._own_ns(facts["own"]).items():
            env["O" + k] = v
            lines.append(f"    {k} = O{k}")
        if facts["hasPre"]:
            env["PRE"] = pre_init
            lines.append("    __attrs_pre_init__ = PRE")
        if facts["hasPost"]:
            env["POST"] = post_init
            lines.append("    __attrs_post_init__ = POST")
        # a method with a `__class__` cell: written in this body ("def"), or the very function object of the most
        # recent earlier class that wrote one ("reuse": a class factory / redefinition re-using A's function)
        if x.get("who") == "def":
            lines.append("    def who(self):")
            lines.append("        return __class__")
        elif x.get("who") == "reuse" and self.last_who is not None:
            env["WHO"] = self.last_who
            lines.append("    who = WHO")
        if len(lines) == 1:
            lines.append("    pass")
        src = "\n".join(lines) + "\n"
        code = _CODE.get(src)
        if code is None:
            if len(_CODE) > 5000:
                _CODE.clear()
            code = _CODE[src] = compile(src, "<c16 body>", "exec")
        try:
            exec(code, env)
        finally:
            owner, self.cur_owner, self.cur_variant = self.cur_owner, self.shared, 0
        self.last_owner = owner
        return env[name]

    def mutate_kept(self):
        """the caller goes on using ITS OWN list objects after a factory (attr.s / attr.ib) has taken them in: one more
        member is appended to every such list.  No argument of any later definition: erased with the uses."""
        for kind, lst in self.kept_lists:
            n = len(lst)
            lst.append(mk_list_hook(self.shared, 100 + n) if kind == "hook" else mk_val(self.shared, f"kept{n}"))
        return "done"

    # --- steps
    def define(self, step):
        """run a definition step in the thread the scenario says; returns (Result json, class or None)"""
        how = self.threads["defs"]
        if how == "fresh":
            return in_thread(lambda: self._define(step))
        if how == "worker":
            if self._worker is None:
                import concurrent.futures
                self._worker = concurrent.futures.ThreadPoolExecutor(max_workers=1)
            return self._worker.submit(self._define, step).result()
        return self._define(step)

    def close(self):
        import sys
        for k, m in self.modules.items():
            if sys.modules.get(k) is m:
                del sys.modules[k]
        if self._worker is not None:
            self._worker.shutdown(wait=True)
            self._worker = None

    def _define(self, step):
        self.n_classes += 1
        n_ft = len(self.ft_seen)
        try:
            if "defDeco" in step:
                facts = step["defDeco"]["c"]
                key = facts.get("x", {}).get("obj")
                ent = self.raw_objs.get(key) if key else None
                if ent is not None and ent[2] and ent[3] == facts:      # (only the very same body is the same class object)
                    raw, self.last_owner = ent[0], ent[1]       # a RETRY on the very class object of a rejected attempt
                else:
                    raw = self.raw_class(facts)
                    ent = self.raw_objs[key] = [raw, self.last_owner, False, copy.deepcopy(facts)] if key else None
                if ent is not None:
                    ent[2] = True
                cls = self.decos[step["defDeco"]["i"]](raw)
                if ent is not None:
                    ent[2] = False
                who = facts.get("x", {}).get("who")
                if who == "def" and inspect.isfunction(cls.__dict__.get("who")):
                    self.last_who = cls.__dict__["who"]
                self.allowed[id(cls)] = (cls, {self.last_owner: "own", "B:" + facts["base"] + self.sfx: "base",
                                               self.shared: "shared", "__ft__": self.ft_seen[n_ft:], "__who__": who})
            else:
                m = step["defMk"]["m"]
                a = m["args"]
                kw = {}
                for k, py in (("repr", "repr"), ("init", "init"), ("eq", "eq"), ("order", "order"),
                              ("autoAttribs", "auto_attribs")):
                    if a.get(k) is not None:
                        kw[py] = untri(a[k])
                if a.get("hash") is not None:
                    kw[a.get("x", {}).get("hashKw", "unsafe_hash")] = untri(a["hash"])
                for k, py in (("slots", "slots"), ("frozen", "frozen"), ("kwOnly", "kw_only"), ("cacheHash", "cache_hash"),
                              ("autoExc", "auto_exc"), ("autoDetect", "auto_detect")):
                    if a.get(k) is not None:
                        kw[py] = a[k]
                if a.get("onSetattr") is not None:
                    kw["on_setattr"] = hook_obj(a["onSetattr"], mk_hook(self.shared, "mk"))
                if m["withBody"]:
                    kw["class_body"] = self.mk_body
                bases = self.mk_bases[m["base"]]
                name = m.get("x", {}).get("name", "M") + self.sfx
                if a.get("x", {}).get("ft"):
                    kw["field_transformer"] = self.transformer(a["x"]["ft"])
                cls = attr.make_class(name, self.mk_names if m["useList"] else self.mk_dict, bases, **kw)
                self.allowed[id(cls)] = (cls, {"B:" + m["base"] + self.sfx: "base", self.shared: "shared",
                                               "__ft__": self.ft_seen[n_ft:]})
        except BaseException as e:  # noqa: BLE001
            return {"err": {"e": exc4(e)}}, None
        try:
            r = result_of(cls)
        except BaseException as e:  # noqa: BLE001
            return {"err": {"e": "other"}}, None
        self.made.append(cls)
        return r, cls

    def user_op(self, step):
        try:
            if isinstance(step, dict) and "caValidator" in step:
                j = step["caValidator"]["j"]
                self.cas[j].validator(mk_val(self.shared, f"ca{j}.op{n_valid(self.cas[j]._validator)}"))
            elif isinstance(step, dict) and "caDefault" in step:
                self.cas[step["caDefault"]["j"]].default(_DEFAULT_METH)
            elif isinstance(step, dict) and "use" in step:
                if step["use"].get("mut"):
                    return self.mutate_kept()
                return self.use(step["use"]["k"])
            elif step in ENV_OPS:
                attr.validators.set_disabled(step == "validatorsOff")
            elif step == "valAppend":
                self.L_items.append(mk_val(self.shared, f"L{len(self.L_items)}"))
                self._rebuild()
            elif step == "convAppend":
                self.Cs_items.append(mk_conv(self.shared, f"C{len(self.Cs_items)}"))
                self._rebuild()
            elif step == "hookAppend":
                self.H_items.append(mk_list_hook(self.shared, len(self.H_items)))
                self._rebuild()
            elif step == "metaSet":
                # the user edits the dict they keep: a new key, and every old key gets another value
                n = len(self.M_items)
                for key in list(self.M_items):
                    self.M_items[key] = f"edited{n}"
                self.M_items[f"k{n}"] = n
            else:
                raise ValueError(step)
        except BaseException as e:  # noqa: BLE001
            return {"err": {"e": exc4(e)}}
        return "done"

    # --- snapshots (ids are compared inside this world only, objects are kept alive by the world)
    def _ca_snap(self, ca):
        if not isinstance(ca, _CountingAttr):
            return id(ca)
        return (id(ca), id(ca._default), id(ca._validator), vstruct(ca._validator), id(ca.converter), id(ca.metadata),
                tuple(sorted((k, id(v)) for k, v in ca.metadata.items())), id(ca.type), ca.kw_only, id(ca.eq), id(ca.eq_key),
                id(ca.order), id(ca.order_key), id(ca.hash), ca.init, id(ca.on_setattr), ca.alias, id(ca.repr))

    def snapshot(self):
        def dsnap(d):
            return (id(d), tuple((k, self._ca_snap(v)) for k, v in d.items()))

        return (
            dsnap(self.these), dsnap(self.mk_dict), (id(self.mk_names), tuple(self.mk_names)),
            (id(self.mk_body), tuple((k, id(v)) for k, v in self.mk_body.items())),
            tuple((k, id(t), tuple(id(b) for b in t)) for k, t in sorted(self.mk_bases.items())),
            tuple(self._ca_snap(c) for c in self.cas),
            (id(self.L), tuple(id(v) for v in self.L_items), vstruct(self.L)),
            (id(self.Cs), tuple(id(v) for v in self.Cs_items), cstruct(self.Cs)),
            (id(self.H), tuple(id(v) for v in self.H_items), hstruct(self.H)),
            (id(self.M), id(self.M_items), tuple((k, id(v)) for k, v in self.M_items.items()), tuple(self.M)),
            tuple((id(h), tuple(id(v) for v in h)) for h in self.hook_lists),
            tuple((id(c), id(c.converter), c.takes_self, c.takes_field) for c in self.pool["conv"]),
            tuple((id(f), id(f.factory), f.takes_self) for f in self.pool["factory"]),
            tuple((id(v), id(getattr(v, "_validators", None)), tuple(id(x) for x in getattr(v, "_validators", None) or ()))
                  for v in self.pool["valid"]),
        )

    def cells_same(self):
        for d, c0 in zip(self.decos, self.cells0):
            c1 = cells_of(d)
            if list(c0) != list(c1):
                return False
            for k in c0:
                if c0[k] is not c1[k]:
                    return False
        return True

    def final_cells(self):
        out = []
        for d, a in zip(self.decos, self.case["decos"]):
            out.append(decode_cells(d, {"hash": a.get("hash") or "n", "onSetattr": a.get("onSetattr") or "n"}))
        return out


def _DEFAULT_METH(self):
    return 9


_DEFAULT_METH.tok = "dm"
_CODE: dict = {}
