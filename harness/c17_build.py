"""C17 part A -- building one class specification in a synthetic module (clean or poisoned), reading the
name-resolution table of its generated code objects, and taking a name-free behaviour fingerprint.

A *case* (kind "herm") carries `cls` (class options as they reach `attrs()`), `fields` (name, alias and the
options that decide which helper globals exist) and a poison mode.  Everything the class refers to from the
module namespace goes through ONE harness global, `__h__`, so that every other name can be pre-bound to a
poison object without disturbing the class statement itself.
"""
from __future__ import annotations

import builtins
import copy
import dis
import itertools
import keyword
import linecache
import pickle
import re
import sys
import types

import attr
import attrs
from attr import setters

import common

_COUNTER = itertools.count()
GENERATED = ("__init__", "__attrs_init__", "__repr__", "__eq__", "__hash__")
METH_TAG = {"__init__": "init", "__attrs_init__": "init", "__repr__": "repr", "__eq__": "eq", "__hash__": "hash"}
# names of a module namespace that class creation itself needs intact
KEEP = {"__h__", "__name__", "__builtins__", "__qualname__", "__module__"}


class PoisonError(Exception):
    pass


class Poison:
    """raises on every use"""

    __slots__ = ("name",)

    def __init__(self, name):
        object.__setattr__(self, "name", name)

    def _boom(self, *a, **k):
        raise PoisonError(object.__getattribute__(self, "name"))

    __call__ = __getattr__ = __setattr__ = __getitem__ = __iter__ = __bool__ = __eq__ = __ne__ = _boom
    __lt__ = __le__ = __gt__ = __ge__ = __contains__ = __len__ = __hash__ = __get__ = _boom
    __repr__ = __str__ = _boom


def kind_of(e):
    if isinstance(e, PoisonError):
        return "poison"
    return common.exc_kind(e)


# ------------------------------------------------------------------------------------------ callbacks
class Ctx:
    """per-build state: log of callback invocations, name -> index map"""

    def __init__(self, names):
        self.names = list(names)
        self.idx = {n: i for i, n in enumerate(names)}
        self.log = []
        self.cls = None

    def canon(self, v):
        if v is attr.NOTHING:
            return "NOTHING"
        if isinstance(v, Poison):
            return "POISON"
        if isinstance(v, attr.Attribute):
            return ["attr", self.idx.get(v.name, -1)]
        if self.cls is not None and type(v) is self.cls:
            return "S"
        if isinstance(v, (tuple, list)):
            return [self.canon(x) for x in v]
        if isinstance(v, bool) or v is None or isinstance(v, (int, str)):
            return v
        if v is NotImplemented:
            return "NI"
        return "other:" + type(v).__name__


class Pool:
    """user-supplied objects (Factory objects, Converter instances, validator / key / repr / hook callables)
    that may be SHARED: between fields of one class, and with classes defined earlier.

    `get(kind, sig, i)` hands out one object per (kind, signature, i mod ngroups) when `shared`, a brand-new
    one on every request otherwise; either way the object tags what it returns / logs with that triple, never
    with the field it happens to serve, so a class built from shared objects and its twin built from fresh
    ones have equal fingerprints exactly when every call reached an object of the right group."""

    def __init__(self, shared, ngroups):
        self.shared, self.ngroups = shared, max(1, ngroups)
        self.ctx = None          # the build whose class is being exercised right now
        self.objs = {}

    def _log(self, entry):
        if self.ctx is not None:
            self.ctx.log.append(entry)

    def _canon(self, v):
        return self.ctx.canon(v) if self.ctx is not None else "?"

    def get(self, kind, sig, i):
        tag = "%s.%s.%d" % (kind, sig, i % self.ngroups)
        if self.shared and tag in self.objs:
            return self.objs[tag]
        obj = self._make(kind, sig, tag)
        if self.shared:
            self.objs[tag] = obj
        return obj

    def _make(self, kind, sig, tag):
        fn, obj = self._make_untagged(kind, sig, tag)
        fn._c17_tag = tag
        return fn, obj

    def _make_untagged(self, kind, sig, tag):
        pool = self
        if kind == "factory":
            if sig == "self":
                def fn(inst):
                    pool._log(["fac", tag, pool._canon(inst)])
                    return ("fs", tag)
            else:
                def fn():
                    pool._log(["fac", tag])
                    return ("f", tag)
            return (fn, attr.Factory(fn, takes_self=sig == "self"))
        if kind == "converter":
            def fn(value, *extra):
                pool._log(["conv", tag, pool._canon(value), [pool._canon(e) for e in extra]])
                return ("c", tag, value)
            return (fn, attr.Converter(fn, takes_self=sig in ("self", "both"), takes_field=sig in ("field", "both")))
        if kind == "validator":
            def fn(inst, a, value):
                pool._log(["val", tag, pool._canon(inst), pool._canon(a), pool._canon(value)])
            return (fn, fn)
        if kind == "key":
            def fn(value):
                return ("k", tag, value)
            return (fn, fn)
        if kind == "repr":
            def fn(value):
                return "R%s<%r>" % (tag, pool._canon(value))
            return (fn, fn)
        if kind == "hook":
            def fn(inst, a, value):
                pool._log(["hook", tag, pool._canon(a), pool._canon(value)])
                return ("h", tag, value)
            return (fn, fn)
        raise KeyError(kind)


def _mk_pool_callbacks(pool, i, f):
    """like _mk_callbacks, with the objects taken from a pool; `_obj_<kind>` is what is handed to attr.ib"""
    cb = {}

    def take(slot, kind, sig):
        fn, obj = pool.get(kind, sig, i)
        cb[slot] = fn
        cb["_obj_" + slot] = obj

    if f["dflt"] == "factory":
        take("factory", "factory", "plain")
    elif f["dflt"] == "factorySelf":
        take("factory", "factory", "self")
    if f["conv"] != "none":
        take("converter", "converter", f["conv"])
    if f["validator"]:
        take("validator", "validator", "v")
    if f["eqKey"]:
        take("key", "key", "k")
    if f["repr"] == "custom":
        take("repr", "repr", "r")
    if f["onSetattr"] == "hook":
        take("hook", "hook", "h")
    return cb


def _mk_callbacks(ctx, i, f):
    """the callables of field i; every one records its own identity in what it returns / logs"""
    cb = {}
    d = f["dflt"]
    if d == "factory":
        def fac():
            ctx.log.append(["fac", i])
            return ("f", i)
        cb["factory"] = fac
    elif d == "factorySelf":
        def fac_s(inst):
            ctx.log.append(["fac", i, ctx.canon(inst)])
            return ("fs", i)
        cb["factory"] = fac_s
    c = f["conv"]
    if c != "none":
        def conv(value, *extra):
            ctx.log.append(["conv", i, ctx.canon(value), [ctx.canon(e) for e in extra]])
            return ("c", i, value)
        cb["converter"] = conv
    if f["validator"]:
        def val(inst, a, value):
            ctx.log.append(["val", i, ctx.canon(inst), ctx.canon(a), ctx.canon(value)])
        cb["validator"] = val
    if f["eqKey"]:
        def key(value):
            return ("k", i, value)
        cb["key"] = key
    if f["repr"] == "custom":
        def rep(value):
            return "R%d<%r>" % (i, ctx.canon(value))
        cb["repr"] = rep
    if f["onSetattr"] == "hook":
        def hook(inst, a, value):
            ctx.log.append(["hook", i, ctx.canon(a), ctx.canon(value)])
            return ("h", i, value)
        cb["hook"] = hook
    return cb


def _ib(ctx, i, f, cbs):
    kw = {}
    d = f["dflt"]
    if d == "value":
        kw["default"] = 700 + i
    elif "_obj_factory" in cbs:
        kw["default"] = cbs["_obj_factory"]          # a (possibly shared) attr.Factory object
    elif d == "factory":
        kw["default"] = attr.Factory(cbs["factory"])
    elif d == "factorySelf":
        kw["default"] = attr.Factory(cbs["factory"], takes_self=True)
    if not f["init"]:
        kw["init"] = False
    if f["kwOnly"]:
        kw["kw_only"] = True
    if f.get("explicitAlias"):
        kw["alias"] = f["alias"]
    c = f["conv"]
    if "_obj_converter" in cbs:
        kw["converter"] = cbs["_obj_converter"]      # a (possibly shared) explicit attr.Converter instance
    elif c == "plain":
        kw["converter"] = cbs["converter"]
    elif c != "none":
        kw["converter"] = attr.Converter(cbs["converter"], takes_self=c in ("self", "both"),
                                         takes_field=c in ("field", "both"))
    if f["validator"]:
        kw["validator"] = cbs["validator"]
    if not f["eq"]:
        kw["eq"] = False
    elif f["eqKey"]:
        kw["eq"] = cbs["key"]
    if f["hash"] != "unset":
        kw["hash"] = f["hash"] == "t"
    if f["repr"] == "off":
        kw["repr"] = False
    elif f["repr"] == "custom":
        kw["repr"] = cbs["repr"]
    if f["onSetattr"] == "hook":
        kw["on_setattr"] = cbs["hook"]
    elif f["onSetattr"] == "noop":
        kw["on_setattr"] = setters.NO_OP
    return attr.ib(**kw)


class Build:
    """one real class built from a case in one synthetic module"""

    def __init__(self, case, names=None, aliases=None, poison=(), pool=None, clsname=None):
        self.case = case
        self.pool = pool
        # harness-only naming dimension: what the class itself is called (its __name__ / __qualname__ and the
        # module-level name the class statement binds); "@load:k" forms are resolved by the caller
        cn = clsname or case.get("cfg", {}).get("clsName") or "C"
        self.clsname = cn if not cn.startswith("@") else "C"
        fields = case["fields"]
        self.names = list(names) if names is not None else [f["name"] for f in fields]
        self.ctx = Ctx(self.names)
        self.modname = "c17m_%d" % next(_COUNTER)
        self.module = types.ModuleType(self.modname)
        self.error = None
        self.cls = None
        self.cbs = []
        cfg = case.get("cfg", {})
        c = case["cls"]
        ctx = self.ctx
        if pool is not None:
            pool.ctx = ctx
        for i, f in enumerate(fields):
            self.cbs.append(_mk_pool_callbacks(pool, i, f) if pool is not None else _mk_callbacks(ctx, i, f))
        ibs = []
        for i, f in enumerate(fields):
            g = dict(f)
            if aliases is not None:
                g["alias"], g["explicitAlias"] = aliases[i], aliases[i] is not None
            ibs.append(_ib(ctx, i, g, self.cbs[i]))

        def cls_hook(inst, a, value):
            ctx.log.append(["clshook", ctx.canon(a), ctx.canon(value)])
            return value

        def pre(inst, a, k):
            ctx.log.append(["pre", [ctx.canon(x) for x in a], sorted((self._alias_ix(n), ctx.canon(v)) for n, v in k.items())])

        def post(inst):
            ctx.log.append(["post"])

        self.cls_hook = cls_hook
        api = cfg.get("api", "attr.s")
        kw = {"repr": c["genRepr"], "eq": c["genEq"], "init": c["genInit"], "frozen": c["frozen"],
              "slots": c["slots"], "cache_hash": c["cacheHash"]}
        if api == "define":
            kw["unsafe_hash"] = c["genHash"]
        else:
            kw["hash"] = c["genHash"]
        if c["genEq"] and cfg.get("order"):
            kw["order"] = True
        elif api != "define":
            kw["order"] = False
        kw["auto_exc"] = bool(c["isExc"])
        osa = c["clsOnSetattr"]
        if osa == "hook":
            kw["on_setattr"] = cls_hook
        elif osa == "noop":
            kw["on_setattr"] = setters.NO_OP
        # api == "define": an omitted on_setattr reaches attrs() as the default pipe ("dflt") on mutable classes
        # and as None on frozen ones; the generator only emits those combinations.
        # harness-only class-shape variation: which exception root the class derives from (directly or through
        # a plain intermediate class) and whether frozen-ness comes from the argument or from a frozen attrs base
        root = object
        if c["isExc"]:
            spec = cfg.get("excRoot", "Exception")
            root = getattr(builtins, spec.split(":")[-1])
            if spec.startswith("mid:"):
                root = type("Mid", (root,), {})
        base = root
        if c["frozen"] and cfg.get("frozenVia") == "base":
            base = attr.s(frozen=True, slots=c["slots"], auto_exc=bool(c["isExc"]), eq=False, repr=False,
                          init=False)(type("FrozenBase", (root,), {}))
            kw["frozen"] = False
        # a plain base whose __getattr__ answers names starting with fb_ (the generated __getattr__ of a slotted
        # class with cached properties falls back to it through super())
        if cfg.get("baseGetattr"):
            def base_getattr(inst, item):
                if item.startswith("fb_"):
                    return ("base", item)
                raise AttributeError(item)
            base = type("GetattrBase", (base,), {"__slots__": (), "__getattr__": base_getattr})

        def cprop(inst):
            ctx.log.append(["cprop"])
            return ("cp", 1)

        def own_getattr(inst, item):
            if item.startswith("zz_"):
                return ("own", item)
            raise AttributeError(item)

        import functools
        self.has_cprop = bool(case.get("cachedProp")) and api != "make_class"
        self.has_own_getattr = bool(case.get("ownGetattr")) and api != "make_class"
        h = {"ib": ibs, "pre": pre, "post": post, "base": base, "kw": kw, "cprop": cprop, "own_getattr": own_getattr,
             "cached_property": functools.cached_property,
             "deco": (attrs.define if api == "define" else attr.s)(**kw) if api != "make_class" else None,
             "make_class": attr.make_class}
        lines = []
        if api == "make_class":
            lines.append("__h__['attrs'] = {}")
            for i, n in enumerate(self.names):
                lines.append("__h__['attrs'][%r] = __h__['ib'][%d]" % (n, i))
            if c["preInit"]:
                if c["preInitArgs"]:
                    lines.append("def __h_pre(self, *a, **k): __h__['pre'](self, a, k)")
                else:
                    lines.append("def __h_pre(self): __h__['pre'](self, (), {})")
                lines.append("__h__['attrs']['__attrs_pre_init__'] = __h_pre")
                lines.append("del __h_pre")
            if c["postInit"]:
                lines.append("def __h_post(self): __h__['post'](self)")
                lines.append("__h__['attrs']['__attrs_post_init__'] = __h_post")
                lines.append("del __h_post")
            lines.append("__h__['result'] = __h__['make_class'](%r, __h__['attrs'], bases=(__h__['base'],), **__h__['kw'])"
                         % self.clsname)
        else:
            lines.append("@__h__['deco']")
            lines.append("class %s(__h__['base']):" % self.clsname)
            for i, n in enumerate(self.names):
                lines.append("    %s = __h__['ib'][%d]" % (n, i))
            if c["preInit"]:
                if c["preInitArgs"]:
                    lines.append("    def __attrs_pre_init__(self, *a, **k): __h__['pre'](self, a, k)")
                else:
                    lines.append("    def __attrs_pre_init__(self): __h__['pre'](self, (), {})")
            if c["postInit"]:
                lines.append("    def __attrs_post_init__(self): __h__['post'](self)")
            if self.has_cprop:
                lines.append("    @__h__['cached_property']")
                lines.append("    def cprop_(self): return __h__['cprop'](self)")
            if self.has_own_getattr:
                lines.append("    def __getattr__(self, item): return __h__['own_getattr'](self, item)")
            lines.append("    pass")
        self.source = "\n".join(lines) + "\n"
        md = self.module.__dict__
        md["__h__"] = h
        md["__builtins__"] = builtins
        self.poisoned = sorted(n for n in poison if n not in KEEP)
        for n in self.poisoned:
            md[n] = Poison(n)
        sys.modules[self.modname] = self.module
        try:
            exec(compile(self.source, "<c17 %s>" % self.modname, "exec"), md)
            if "result" in h:
                md[self.clsname] = h["result"]      # what a class statement would have bound (pickle finds it there)
            self.cls = md[self.clsname]
            ctx.cls = self.cls
            self.afields = list(attr.fields(self.cls))
        except BaseException as e:  # noqa: BLE001
            self.error = "syntaxError" if isinstance(e, SyntaxError) else kind_of(e)

    def _alias_ix(self, alias):
        for i, a in enumerate(getattr(self, "afields", [])):
            if a.init and a.alias == alias:     # only init fields are parameters
                return i
        return alias

    def close(self):
        sys.modules.pop(self.modname, None)
        for k in [k for k in linecache.cache if k.startswith("<attrs generated") and (self.modname + ".") in k]:
            del linecache.cache[k]

    # -------------------------------------------------------------------------------- code objects
    def functions(self):
        """generated methods of the main script (`_eval_snippets`)"""
        out = {}
        for n in GENERATED:
            fn = self.cls.__dict__.get(n)
            if isinstance(fn, types.FunctionType) and fn.__code__.co_filename.startswith("<attrs generated methods"):
                out[n] = fn
        return out

    def getattr_function(self):
        """the generated cached-property `__getattr__` of a slotted class (`_make_cached_property_getattr`), if any"""
        fn = self.cls.__dict__.get("__getattr__")
        if isinstance(fn, types.FunctionType) and fn.__code__.co_filename.startswith("<attrs generated getattr"):
            return fn
        return None

    def all_functions(self):
        out = dict(self.functions())
        ga = self.getattr_function()
        if ga is not None:
            out["__getattr__"] = ga
        return out

    def referenced_names(self):
        """every name the generated code objects mention (co_names, co_freevars; nested code too), including the
        top-level code of each script (default expressions, the `wrapper` of the __getattr__ script)"""
        names = set()

        def walk(co):
            names.update(co.co_names)
            names.update(co.co_freevars)
            for k in co.co_consts:
                if isinstance(k, types.CodeType):
                    walk(k)

        seen = set()
        for fn in self.all_functions().values():
            walk(fn.__code__)
            if fn.__code__.co_filename not in seen:
                seen.add(fn.__code__.co_filename)
                top = self.toplevel_code(fn)
                if top is not None:
                    walk(top)
        return names

    def toplevel_code(self, fn):
        ent = linecache.cache.get(fn.__code__.co_filename)
        if not ent or len(ent) != 4:
            return None
        try:
            return compile("".join(ent[2]), fn.__code__.co_filename, "exec")
        except SyntaxError:
            return None

    def loads(self):
        """[(method tag, global name)] : LOAD_GLOBAL in method bodies, LOAD_NAME at the main script's top level
        (default expressions), LOAD_GLOBAL in the `wrapper` of the __getattr__ script (its default expressions)"""
        out = set()
        fns = self.functions()
        for n, fn in fns.items():
            for ins in dis.get_instructions(fn.__code__):
                if ins.opname in ("LOAD_GLOBAL", "LOAD_NAME"):
                    out.add((METH_TAG[n], ins.argval))
        for fn in fns.values():
            top = self.toplevel_code(fn)
            if top is not None:
                for ins in dis.get_instructions(top):
                    if ins.opname in ("LOAD_NAME", "LOAD_GLOBAL"):
                        out.add(("top", ins.argval))
            break
        ga = self.getattr_function()
        if ga is not None:
            for ins in dis.get_instructions(ga.__code__):
                if ins.opname in ("LOAD_GLOBAL", "LOAD_NAME"):
                    out.add(("getattr", ins.argval))
            top = self.toplevel_code(ga)
            if top is not None:
                for k in top.co_consts:
                    if isinstance(k, types.CodeType) and k.co_name == "wrapper":
                        for ins in dis.get_instructions(k):
                            if ins.opname in ("LOAD_GLOBAL", "LOAD_NAME"):
                                out.add(("getattrTop", ins.argval))
        return sorted(out)

    def globals_for(self, tag):
        if tag in ("getattr", "getattrTop"):
            ga = self.getattr_function()
            return ga.__globals__ if ga is not None else {}
        fns = self.functions()
        return next(iter(fns.values())).__globals__ if fns else {}

    def classify(self, fn_globals, name):
        """what a global name of the generated functions is bound to, by identity"""
        if name not in fn_globals:
            if hasattr(builtins, name):
                return {"kind": "builtin", "arg": name}
            return {"kind": "unbound", "arg": name}
        v = fn_globals[name]
        if isinstance(v, Poison):
            return {"kind": "module", "arg": object.__getattribute__(v, "name")}
        for i, cb in enumerate(self.cbs):
            for k, fn in cb.items():
                if v is fn:
                    kind = {"factory": "factory", "converter": "converter", "validator": "validator",
                            "key": "key", "repr": "reprFn"}.get(k)
                    if kind:
                        return {"kind": kind, "arg": self.names[i]}
        if isinstance(v, attr.Attribute):
            for a in self.afields:
                if v is a:
                    return {"kind": "attribute", "arg": a.name}
            return {"kind": "other", "arg": "Attribute"}
        import attr._make as mk
        fixed = {
            "NOTHING": lambda: v is attr.NOTHING,
            "_config": lambda: v is mk._config,
            "_compat": lambda: v is mk._compat,
            "attr_dict": lambda: isinstance(v, dict) and all(
                isinstance(x, attr.Attribute) and any(x is a for a in self.afields) and k == x.name
                for k, x in v.items()),
            "_cached_setattr_get": lambda: v == object.__setattr__.__get__,
            "AttributeError": lambda: v is AttributeError,
            "BaseException": lambda: v is BaseException,
            "id": lambda: v is id, "getattr": lambda: v is getattr, "hash": lambda: v is hash,
            "object": lambda: v is object, "__import__": lambda: v is __import__,
            "NotImplemented": lambda: v is NotImplemented,
            "cached_properties": lambda: isinstance(v, dict) and set(v) == {"cprop_"} and callable(v["cprop_"]),
            "original_getattr": lambda: v is None or isinstance(v, types.FunctionType),
        }
        t = fixed.get(name)
        try:
            if t is not None and t():
                return {"kind": "fixed", "arg": name}
        except Exception:  # noqa: BLE001
            pass
        return {"kind": "other", "arg": type(v).__name__}

    def table(self):
        if not self.all_functions():
            return []
        return [{"meth": m, "name": n, "obj": self.classify(self.globals_for(m), n)} for m, n in self.loads()]

    def group_table(self):
        """for builds from a pool: what each global load finds, by the pool tag of the object (never by field)"""
        if not self.all_functions():
            return []
        out = []
        for m, n in self.loads():
            g = self.globals_for(m)
            v = g.get(n, None)
            tag = getattr(v, "_c17_tag", None) if n in g else None
            if tag is not None:
                out.append([m, n, "tag", tag])
            elif isinstance(v, attr.Attribute):
                out.append([m, n, "attribute", next((i for i, a in enumerate(self.afields) if a is v), -1)])
            else:
                out.append([m, n, self.classify(g, n)["kind"], ""])
        return out

    def injected(self):
        """names in the generated functions' globals that do not come from the module namespace"""
        fns = self.functions()
        if not fns:
            return []
        g = next(iter(fns.values())).__globals__
        md = self.module.__dict__
        return sorted(k for k in g if k not in md or md[k] is not g[k])

    def same_globals(self):
        fns = list(self.functions().values())
        return all(f.__globals__ is fns[0].__globals__ for f in fns)

    # -------------------------------------------------------------------------------- behaviour
    def fingerprint(self):
        """name-free behaviour of the class: construction (three call shapes, validators on/off), repr, eq, ne,
        hash pattern, ordering, setattr, copy, pickle.  Field names never appear: indices do."""
        ctx, C, c = self.ctx, self.cls, self.case["cls"]
        if self.pool is not None:
            self.pool.ctx = ctx
        fields = self.case["fields"]
        afs = self.afields
        names = [a.name for a in afs]
        MISSING = "MISSING"

        def make(kwargs, args=()):
            if c["genInit"]:
                return C(*args, **kwargs)
            inst = C.__new__(C)
            inst.__attrs_init__(*args, **kwargs)
            return inst

        def readback(inst):
            out = []
            if c["isExc"]:
                # what BaseException.__init__ received, and the text an uncaught exception would show
                try:
                    out.append(["args", ctx.canon(inst.args), BaseException.__str__(inst)])
                except BaseException as e:  # noqa: BLE001
                    out.append("exc:" + kind_of(e))
            for n in names:
                try:
                    out.append(ctx.canon(getattr(inst, n, MISSING)))
                except BaseException as e:  # noqa: BLE001
                    out.append("exc:" + kind_of(e))
            return out

        def attempt(thunk):
            del ctx.log[:]
            try:
                v = thunk()
                return ["ok", v, list(ctx.log)]
            except BaseException as e:  # noqa: BLE001
                return ["exc", kind_of(e), list(ctx.log)]
            finally:
                del ctx.log[:]

        init_ix = [i for i, a in enumerate(afs) if a.init]
        kw_all = lambda base: {afs[i].alias: base + i for i in init_ix}  # noqa: E731
        kw_min = {afs[i].alias: 100 + i for i in init_ix if afs[i].default is attr.NOTHING}
        pos = [100 + i for i in init_ix if not afs[i].kw_only]
        kwo = {afs[i].alias: 100 + i for i in init_ix if afs[i].kw_only}
        fp = {}
        fp["mk_all"] = attempt(lambda: readback(make(kw_all(100))))
        fp["mk_min"] = attempt(lambda: readback(make(kw_min)))
        fp["mk_pos"] = attempt(lambda: readback(make(kwo, pos)))
        was = attr.validators.get_disabled()
        try:
            attr.validators.set_disabled(True)
            fp["mk_noval"] = attempt(lambda: readback(make(kw_all(100))))
        finally:
            attr.validators.set_disabled(was)
        try:
            a = make(kw_all(100))
            b = make(kw_all(100))
            d = make(kw_all(200))
        except BaseException as e:  # noqa: BLE001
            fp["instances"] = "exc:" + kind_of(e)
            del ctx.log[:]
            return fp
        del ctx.log[:]

        def norm_repr(s):
            if s.startswith(self.clsname + "("):
                s = "C(" + s[len(self.clsname) + 1:]
            pat = "|".join(re.escape(n) for n in sorted(names, key=len, reverse=True))
            if pat:
                s = re.sub(r"(?<![A-Za-z0-9_])(%s)=" % pat, lambda m: "f%d=" % names.index(m.group(1)), s)
            return s

        def truth(v):
            if v is NotImplemented:
                return "NI"
            if v is True or v is False:
                return v
            return ctx.canon(v)

        other = object()
        # without a generated __repr__ the text is object.__repr__'s (an address) or BaseException's
        has_repr = bool(c["genRepr"])
        fp["repr"] = attempt(lambda: norm_repr(repr(a)) if has_repr else "-")
        fp["str"] = attempt(lambda: norm_repr(str(a)) if has_repr and not c["isExc"] else "-")
        fp["eq"] = [attempt(lambda: truth(a == b)), attempt(lambda: truth(a == d)), attempt(lambda: truth(a != b)),
                    attempt(lambda: truth(a == other)), attempt(lambda: truth(a != other)),
                    attempt(lambda: truth(type(a).__eq__(a, other))), attempt(lambda: truth(type(a).__ne__(a, other)))]
        fp["hash"] = [attempt(lambda: hash(a) == hash(b)), attempt(lambda: hash(a) == hash(a)),
                      attempt(lambda: hash(a) == hash(d))]
        fp["order"] = [attempt(lambda: truth(a < d)), attempt(lambda: truth(a <= b)), attempt(lambda: truth(a > d)),
                       attempt(lambda: truth(a >= b)), attempt(lambda: truth(type(a).__lt__(a, other)))]
        if names:
            def set0():
                setattr(a, names[0], 300)
                return readback(a)
            fp["setattr"] = attempt(set0)
            a2 = None
            try:
                a2 = make(kw_all(100))
            except BaseException:  # noqa: BLE001
                pass
            del ctx.log[:]
            def setlast():
                setattr(a2, names[-1], 301)
                return readback(a2)
            fp["setattr_last"] = attempt(setlast)
        # attribute lookups that go through a generated cached-property __getattr__ (or miss): the cached property
        # twice (computed once), names answered by an own / a base __getattr__, plain misses
        fp["lookups"] = [attempt(lambda: ctx.canon(b.cprop_)), attempt(lambda: ctx.canon(b.cprop_)),
                         attempt(lambda: ctx.canon(b.zz_own)), attempt(lambda: ctx.canon(b.fb_base)),
                         attempt(lambda: ctx.canon(b.nope_)), attempt(lambda: ctx.canon(getattr(b, "nope_", "dflt"))),
                         attempt(lambda: hasattr(b, "nope_")), attempt(lambda: hasattr(b, "cprop_"))]
        fp["copy"] = attempt(lambda: readback(copy.copy(b)))
        fp["pickle"] = attempt(lambda: readback(pickle.loads(pickle.dumps(b, 2))))
        fp["hash_after_copy"] = attempt(lambda: hash(copy.copy(b)) == hash(b))
        fp["match_args"] = [names.index(n) if n in names else n for n in getattr(C, "__match_args__", ())]
        return fp
