"""Generic engine: prepare Lean, audit proofs, run the correspondence (T2), apply the verdict rules,
shrink, write replay + evidence files."""
from __future__ import annotations

import hashlib
import importlib
import json
import os
import random
import sys
import time
import traceback
from collections import Counter
from pathlib import Path

import leantools
from leantools import ToolFailure, VERIF

TRUSTED_BASE = [
    "Lean 4.33.0 kernel (theorems compiled by `lake build`; re-checked by leanchecker in the thorough tier)",
    "axioms allowed: propext, Classical.choice, Quot.sound (audited with #print axioms on every run; no sorry/admit/native_decide/bv_decide/own axioms)",
    "Lean compiler for the native driver executable that evaluates model and spec",
    "harness (case generators, class builders, observers, canonicaliser) and the T1 table extractor",
    "CPython 3.12.1 as reference semantics for the fragments modelled as small trusted functions",
    "src/attr is modelled, not verified: theorems are about the model; the correspondence check ties it to the code",
]

BATCH = 4000


def load_prop(pid: str):
    sys.path.insert(0, str(VERIF / "harness"))
    return importlib.import_module(f"props.{pid.lower()}")


def known_findings(pid: str):
    f = VERIF / "known_findings.json"
    entries = json.loads(f.read_text()) if f.exists() else []
    d = VERIF / "known_findings.d"          # per-property fragments (development); merged into the file
    if d.is_dir():
        for g in sorted(d.glob("*.json")):
            entries += json.loads(g.read_text())
    out = {}
    for e in entries:
        if isinstance(e, dict) and e.get("property") == pid and "id" in e:
            out[e["id"]] = e
    return out


def case_key(case) -> str:
    return hashlib.sha1(json.dumps(case, sort_keys=True).encode()).hexdigest()[:16]


def write_replay(pid: str, kind: str, payload: dict) -> Path:
    d = VERIF / "replays" / pid
    d.mkdir(parents=True, exist_ok=True)
    body = {"property": pid, "kind": kind, **payload}
    h = hashlib.sha1(json.dumps(body, sort_keys=True, default=str).encode()).hexdigest()[:12]
    p = d / f"{kind}-{h}.json"
    body["how"] = f"./check replay replays/{pid}/{p.name}"
    p.write_text(json.dumps(body, indent=1, default=str))
    return p.relative_to(VERIF)


class Evaluator:
    """observe + drive for a list of cases (in-process; pool for thorough)."""

    def __init__(self, prop, pool=None):
        self.prop = prop
        self.pool = pool

    def observe_all(self, cases):
        if self.pool is not None and len(cases) > 64:
            return self.pool.map(_observe_one, [(self.prop.ID, c) for c in cases], chunksize=32)
        return [_observe_one((self.prop.ID, c)) for c in cases]

    def evaluate(self, cases):
        obs = self.observe_all(cases)
        lines, idx = [], []
        results = [None] * len(cases)
        for i, (c, o) in enumerate(zip(cases, obs)):
            if isinstance(o, dict) and "__harness_error__" in o:
                results[i] = {"harness_error": o["__harness_error__"]}
            else:
                lines.append(leantools.request(self.prop.ID, c, o))
                idx.append(i)
        for i, r in zip(idx, leantools.drive(lines)):
            results[i] = r
        return obs, results


_PROPS = {}


def _observe_one(args):
    pid, case = args
    prop = _PROPS.get(pid)
    if prop is None:
        prop = _PROPS[pid] = load_prop(pid)
    try:
        return prop.observe(case)
    except Exception:  # noqa: BLE001  -- an observer must never raise; report as tool failure
        return {"__harness_error__": traceback.format_exc()[-1500:]}


def classify(reply, listed_known):
    """pass | known:<id> | violation | disagree | error"""
    if "error" in reply or "harness_error" in reply:
        return "error"
    if not reply["wf"]:
        return "notwf"
    if not reply["specObs"]:
        ks = [k for k in reply["known"] if k in listed_known]
        if ks:
            return "known:" + ks[0]
        return "violation"
    if not reply["agree"]:
        return "disagree"
    return "pass"


def shrink(prop, ev, case, listed_known, budget_s=20.0):
    """greedy delta debugging while the case stays an unlisted violation"""
    if not hasattr(prop, "shrink"):
        return case
    t0 = time.time()
    cur = case
    improved = True
    while improved and time.time() - t0 < budget_s:
        improved = False
        for cand in prop.shrink(cur):
            if time.time() - t0 > budget_s:
                break
            try:
                _, res = ev.evaluate([cand])
            except ToolFailure:
                continue
            if classify(res[0], listed_known) == "violation":
                cur = cand
                improved = True
                break
    return cur


def run(pid: str, tier: str, seed: int) -> int:
    t0 = time.time()
    prop = load_prop(pid)
    _PROPS[pid] = prop
    listed_known = known_findings(pid)
    rng = random.Random(seed * 1000003 + int(pid[1:]))

    prep = leantools.prepare(pid)
    if not prep.get("driver_ok"):
        print(f"TOOL-FAILURE: driver does not build\n{prep.get('driver_log', '')}")
        return 2
    proofs_built = bool(prep.get("proofs_ok"))
    audit = leantools.audit(pid) if proofs_built else {
        "theorems": [{"name": n, "axioms": None, "ok": False} for n in leantools.theorem_names(pid)],
        "obligations": len(leantools.theorem_names(pid)), "discharged": 0, "ok": False,
        "forbidden": leantools.forbidden_tokens(), "log": prep.get("proofs_log", ""),
    }
    recheck = {"ran": False}
    if tier == "thorough" and proofs_built:
        recheck = leantools.leanchecker(pid)
        if not recheck["ok"]:
            audit["ok"] = False
            audit["log"] = "leanchecker rejected the compiled module: " + recheck.get("log", "")
    tables = prep["tables"]
    used_tables = set(getattr(prop, "TABLES", []))
    tables_broken = [b for b in tables["broken"] if b.split(":")[0] in used_tables]

    pool = None
    if tier == "thorough" and getattr(prop, "PARALLEL", True):
        import multiprocessing as mp

        pool = mp.get_context("fork").Pool(min(16, os.cpu_count() or 1))
    ev = Evaluator(prop, pool)
    t_gen0 = time.time()     # the generation budget starts after the Lean build and audit

    counts = Counter()
    dist = {}
    distinct = set()
    nontrivial = set()
    samples = []
    violations = []      # (case, obs, reply)
    disagreements = []   # (case, obs, reply)
    known_hit = {}
    witness_gone = []    # listed findings whose witness case now satisfies the property (fixed upstream?)
    errors = []
    budget = getattr(prop, "BUDGET_S", {"quick": 45, "thorough": 600})[tier]
    exhaustive = False
    out_of_time = False

    def consume(batch):
        nonlocal out_of_time
        # A generator that could not even define the classes of a specification it considers valid hands the
        # case over with a "__gen_error__" key: on the unchanged tree this never happens; when it does, the
        # specification itself is the failing input (valid definitions must define), re-confirmed here.
        gen_failed = [c for c in batch if isinstance(c, dict) and "__gen_error__" in c]
        if gen_failed:
            batch = [c for c in batch if not (isinstance(c, dict) and "__gen_error__" in c)]
            for c in gen_failed:
                counts["evaluations"] += 1
                err = c["__gen_error__"]
                if hasattr(prop, "defines"):
                    try:
                        err = prop.defines(c)
                    except Exception as e:  # noqa: BLE001
                        err = f"{type(e).__name__}: {e}"
                if err:
                    counts["violation"] += 1
                    violations.append((c, {"definition_error": str(err)[:500]},
                                       {"wf": True, "agree": False, "specObs": False, "specModel": True, "known": [], "model": None}))
                else:
                    counts["gen_error_not_reproduced"] += 1
        obs, res = ev.evaluate(batch)
        for c, o, r in zip(batch, obs, res):
            counts["evaluations"] += 1
            cls = classify(r, listed_known)
            counts[cls.split(":")[0]] += 1
            k = case_key(c)
            if k not in distinct:
                distinct.add(k)
                try:
                    if cls != "error" and prop.nontrivial(c, r.get("model")):
                        nontrivial.add(k)
                except Exception:  # noqa: BLE001
                    pass
            if hasattr(prop, "dist"):
                try:
                    for dk, dv in prop.dist(c, o).items():
                        dist.setdefault(dk, Counter())[str(dv)] += 1
                except Exception:  # noqa: BLE001 -- the distribution is bookkeeping, never a verdict
                    counts["dist_errors"] += 1
            if len(samples) < 3 and cls == "pass" and counts["evaluations"] % 7 == 1:
                samples.append({"case": c, "obs": o, "model": r.get("model")})
            if cls == "error":
                errors.append((c, r))
            elif cls == "notwf":
                errors.append((c, {"error": "generator produced a non-wf case"}))
            elif cls.startswith("known:"):
                known_hit.setdefault(cls[6:], (c, o, r))
            elif cls == "violation":
                violations.append((c, o, r))
            elif cls == "disagree":
                disagreements.append((c, o, r))

    try:
        # corpus first
        corpus = []
        cdir = VERIF / "corpus" / pid
        if cdir.is_dir():
            for f in sorted(cdir.glob("*.json")):
                corpus.append(json.loads(f.read_text())["case"])
        if corpus:
            consume(corpus)
            counts["corpus"] = len(corpus)
        # witness cases of the listed known findings run on every check, so each listed finding is
        # re-confirmed (and printed) deterministically rather than only when the sampler happens to hit it
        for kid, e in sorted(listed_known.items()):
            w = e.get("witness")
            if not isinstance(w, dict):
                continue
            try:
                obs_w, res_w = ev.evaluate([w])
                cls_w = classify(res_w[0], listed_known)
            except Exception:  # noqa: BLE001
                cls_w = "error"
            counts["witness_" + cls_w.split(":")[0]] += 1
            if cls_w.startswith("known:"):
                known_hit.setdefault(cls_w[6:], (w, obs_w[0], res_w[0]))
            elif cls_w == "pass":
                witness_gone.append(kid)
        gen = prop.gen_cases(tier, rng)
        batch = []
        finished = True
        for c in gen:
            batch.append(c)
            if len(batch) >= (BATCH if tier == "thorough" else BATCH // 2):
                consume(batch)
                batch = []
                if time.time() - t_gen0 > budget or len(violations) > 20 or len(errors) > 5:
                    finished = False
                    break
        if batch:
            consume(batch)
        exhaustive = finished and bool(getattr(prop, "EXHAUSTIVE", {}).get(tier, False))

        if errors:
            c, r = errors[0]
            print(f"TOOL-FAILURE: {len(errors)} cases could not be evaluated; first: {json.dumps(r)[:1500]}\ncase: {json.dumps(c)[:1500]}")
            return 2

        # ---------------------------------------------------------------- verdicts
        exit_code = 0
        for kid, (c, o, r) in sorted(known_hit.items()):
            print(f"KNOWN-FINDING: property={pid} {kid} {listed_known[kid].get('what', '')}")

        replay_paths = []
        if violations:
            # report distinct minimal failing inputs (at most 3)
            seen = set()
            for c, o, r in violations[:3]:
                if isinstance(c, dict) and "__gen_error__" in c:
                    p = write_replay(pid, "failing-input", {"case": c, "obs": o, "model": None, "agree": False,
                                                            "spec_obs": False, "seed": seed, "tier": tier,
                                                            "note": "a specification that defines on the unchanged tree no longer defines"})
                    replay_paths.append(str(p))
                    print(f"VIOLATION property={pid} replay={p}")
                    continue
                small = shrink(prop, ev, c, listed_known)
                k = case_key(small)
                if k in seen:
                    continue
                seen.add(k)
                obs2, res2 = ev.evaluate([small])
                p = write_replay(pid, "failing-input", {
                    "case": small, "obs": obs2[0], "model": res2[0].get("model"),
                    "agree": res2[0].get("agree"), "spec_obs": res2[0].get("specObs"),
                    "seed": seed, "tier": tier, "shrunk_from": c if small != c else None,
                })
                replay_paths.append(str(p))
                print(f"VIOLATION property={pid} replay={p}")
            exit_code = 1
        else:
            broken = []
            if disagreements:
                broken.append(f"correspondence: {len(disagreements)} cases where /repo's behaviour differs from the Lean model (the property still held on each)")
            if not proofs_built:
                broken.append(f"theorem module AttrsModel.Properties.{pid} no longer builds")
            elif not audit["ok"]:
                bad = [t["name"] for t in audit["theorems"] if not t["ok"]]
                broken.append(f"axiom audit failed: {bad or audit['forbidden'] or audit.get('log', '')[:300]}")
            if tables_broken:
                broken.append(f"T1 extraction failed: {tables_broken}")
            if broken:
                # failing-input search in the neighbourhood of the disagreeing cases
                found = None
                if hasattr(prop, "neighbours"):
                    tried = 0
                    for c, o, r in disagreements[:50]:
                        ns = list(prop.neighbours(c, rng))
                        if not ns:
                            continue
                        obs2, res2 = ev.evaluate(ns)
                        tried += len(ns)
                        for c2, o2, r2 in zip(ns, obs2, res2):
                            if classify(r2, listed_known) == "violation":
                                found = (c2, o2, r2)
                                break
                        if found or time.time() - t0 > budget * 2:
                            break
                    counts["search_evaluations"] = tried
                if found:
                    c2, o2, r2 = found
                    small = shrink(prop, ev, c2, listed_known)
                    obs3, res3 = ev.evaluate([small])
                    p = write_replay(pid, "failing-input", {"case": small, "obs": obs3[0], "model": res3[0].get("model"),
                                                            "spec_obs": False, "seed": seed, "tier": tier})
                    print(f"VIOLATION property={pid} replay={p}")
                else:
                    p = write_replay(pid, "broken-tie", {
                        "what_no_longer_checks": broken,
                        "theorems": audit["theorems"],
                        "proofs_log": audit.get("log", "")[-3000:],
                        "disagreeing_cases": [{"case": c, "obs": o, "model": r.get("model")} for c, o, r in disagreements[:10]],
                        "seed": seed, "tier": tier,
                    })
                    print(f"VIOLATION property={pid} replay={p} no-failing-input-found")
                replay_paths.append(str(p))
                exit_code = 1
    finally:
        if pool is not None:
            pool.terminate()

    # ---------------------------------------------------------------- evidence
    wall = time.time() - t0
    ev_doc = {
        "property_id": pid, "tier": tier, "seed": seed, "level": "proof", "wall_s": round(wall, 2),
        "violations": 0 if exit_code == 0 else max(1, len(violations)),
        "coverage": {
            "obligations": audit["obligations"], "discharged": audit["discharged"],
            "checker_cmd": f"cd lean/AttrsModel && lake build AttrsModel.Properties.{pid} && lake env lean <#print axioms for each theorem>",
            "trusted_base": TRUSTED_BASE + list(getattr(prop, "TRUSTED", [])),
            "theorems": audit["theorems"],
            "forbidden_tokens": audit["forbidden"],
            "leanchecker": recheck,
            "tables_T1": tables,
            "evaluations": counts["evaluations"], "distinct": len(distinct),
            "distinct_nontrivial": len(nontrivial),
            "rule": prop.RULE, "exhaustive": exhaustive,
            "samples": samples or [{"note": "no passing sample recorded"}],
            "disagreements_checked": len(disagreements),
            "known_findings_hit": sorted(known_hit),
            "known_findings_whose_witness_now_passes": witness_gone,
            "verdict_counts": {k: v for k, v in counts.items()},
            "distribution": {k: dict(v.most_common(12)) for k, v in dist.items()},
            "replays": replay_paths,
        },
        "assumptions": list(getattr(prop, "ASSUMPTIONS", [])),
    }
    edir = VERIF / "evidence"
    edir.mkdir(exist_ok=True)
    (edir / f"{pid}.json").write_text(json.dumps(ev_doc, indent=1, default=str))
    status = "ok" if exit_code == 0 else "VIOLATION"
    print(f"[{pid}] {status} tier={tier} seed={seed} theorems={audit['discharged']}/{audit['obligations']} "
          f"cases={counts['evaluations']} nontrivial={len(nontrivial)} disagreements={len(disagreements)} "
          f"known={sorted(known_hit)} wall={wall:.1f}s")
    return exit_code


def replay(path: str) -> int:
    p = Path(path)
    if not p.is_absolute():
        p = VERIF / p
    doc = json.loads(p.read_text())
    pid = doc["property"]
    prop = load_prop(pid)
    _PROPS[pid] = prop
    prep = leantools.prepare(pid)
    if not prep.get("driver_ok"):
        print("TOOL-FAILURE: driver does not build")
        return 2
    if "case" not in doc:
        print(json.dumps(doc, indent=1)[:4000])
        print("(no concrete failing input in this replay file; it names what no longer checks)")
        return 1
    if isinstance(doc["case"], dict) and "__gen_error__" in doc["case"]:
        err = doc["case"]["__gen_error__"]
        if hasattr(prop, "defines"):
            try:
                err = prop.defines(doc["case"])
            except Exception as e:  # noqa: BLE001
                err = f"{type(e).__name__}: {e}"
        print("case:    ", json.dumps(doc["case"])[:3000])
        print("definition error now:", err)
        if err:
            print(f"VIOLATION property={pid} replay={path}")
            return 1
        print("verdict:  pass (the specification defines)")
        return 0
    ev = Evaluator(prop)
    obs, res = ev.evaluate([doc["case"]])
    print("case:    ", json.dumps(doc["case"]))
    print("observed:", json.dumps(obs[0]))
    print("reply:   ", json.dumps(res[0]))
    cls = classify(res[0], known_findings(pid))
    print("verdict: ", cls)
    if cls in ("violation", "disagree"):
        if cls == "violation":
            print(f"VIOLATION property={pid} replay={path}")
        return 1
    return 0
