"""T1b: translate the decision functions of /repo/src/attr into Lean on every run.

`regenerate()` parses the working tree with `ast` (no import), translates the functions listed in TARGETS into
definitions over the PyLite domain (lean/AttrsModel/AttrsModel/PyLite.lean) and writes
lean/AttrsModel/AttrsModel/Generated/Funcs.lean (only when the text changes).  The theorems in Properties/*.lean that
mention `Attrs.Gen.*` are therefore re-checked by `lake build` against what the source says *now*: an edit of one of
these functions that changes a decision either still satisfies the theorems (harmless rewrite) or breaks a proof
obligation.  A function that uses a construct outside the fragment is not guessed at: the pinned translation
(harness/funcs_pinned.json, written by `--pin` on the unchanged tree) is emitted instead and the function is
reported in `broken`, which the runner treats as a broken tie for the properties that list it in TABLES.

Fragment (everything else raises Unsupported):
  statements  docstrings, `x = e`, `a, b = e`, `if/elif/else`, `return e`, `raise ValueError/TypeError(...)`, `pass`,
              `for v in e: if t: <block ending in return/raise/break>`, nested `def` without free outer locals,
              and in effect mode `b = _ClassBuilder(...)`, `b.method(args)`, `return b.method(args)`
  expressions None/True/False/int/str/f-string (opaque), names, tuples, `is`/`is not`/`==`/`!=`/`in`/`not in`,
              `and`/`or`/`not`, `a if c else b`, `any(t)`/`all(t)`/`callable(x)`/`isinstance(x, str)`, `s.lower()`,
              `s.lstrip(c)`, calls of other translated functions (positional, keywords, constant defaults),
              attribute reads and calls of un-modelled helpers (uninterpreted `ext`)
Free variables (closure cells of the enclosing function, module globals) are read through `env`.
"""
from __future__ import annotations

import ast
import json
import os
import sys
from pathlib import Path

VERIF = Path(__file__).resolve().parent.parent
OUT = VERIF / "lean" / "AttrsModel" / "AttrsModel" / "Generated" / "Funcs.lean"
PINNED = VERIF / "harness" / "funcs_pinned.json"


def repo_src() -> Path:
    return Path(os.environ.get("ATTRS_REPO", "/repo")) / "src" / "attr"


class Unsupported(Exception):
    pass


# (lean name, file, path of nested function names, effect mode)
TARGETS = [
    ("determine_attrs_eq_order", "_make.py", ["_determine_attrs_eq_order"], False),
    ("determine_attrib_eq_order", "_make.py", ["_determine_attrib_eq_order"], False),
    ("determine_whether_to_implement", "_make.py", ["_determine_whether_to_implement"], False),
    ("has_frozen_base_class", "_make.py", ["_has_frozen_base_class"], False),
    ("default_init_alias_for", "_make.py", ["_default_init_alias_for"], False),
    ("to_bool", "converters.py", ["to_bool"], False),
    ("setters_frozen", "setters.py", ["frozen"], False),
    ("setters_validate", "setters.py", ["validate"], True),
    ("setters_convert", "setters.py", ["convert"], False),
    ("frozen_setattrs", "_make.py", ["_frozen_setattrs"], True),
    ("frozen_delattrs", "_make.py", ["_frozen_delattrs"], True),
    ("attrs_wrap", "_make.py", ["attrs", "wrap"], True),
    ("define_wrap", "_next_gen.py", ["define", "wrap"], True),
]
# python name -> lean name for calls between translated functions
CALLABLE = {
    "_determine_attrs_eq_order": "determine_attrs_eq_order",
    "_determine_attrib_eq_order": "determine_attrib_eq_order",
    "_determine_whether_to_implement": "determine_whether_to_implement",
}
EFFECT_CTORS = {"_ClassBuilder"}
EFFECT_CALLS = {"do_it"}          # closures whose call is recorded as an effect (define.wrap -> attrs(...))
LEAN_KEYWORDS = set()


def lstr(s: str) -> str:
    return '"' + s.replace("\\", "\\\\").replace('"', '\\"').replace("\n", "\\n") + '"'


def find_func(tree, path):
    node = tree
    for name in path:
        for ch in ast.walk(node) if node is tree else ast.iter_child_nodes(node):
            if isinstance(ch, ast.FunctionDef) and ch.name == name:
                node = ch
                break
        else:
            raise Unsupported(f"function {'.'.join(path)} not found")
    return node


def terminates(stmts) -> bool:
    """every path through the block ends in return / raise"""
    if not stmts:
        return False
    s = stmts[-1]
    if isinstance(s, (ast.Return, ast.Raise)):
        return True
    if isinstance(s, ast.If):
        return terminates(s.body) and terminates(s.orelse)
    if isinstance(s, ast.Try):
        return terminates(s.body) and all(terminates(h.body) for h in s.handlers)
    return False


def bound_names(fn: ast.FunctionDef) -> set[str]:
    out = {a.arg for a in fn.args.args + fn.args.kwonlyargs}
    for n in ast.walk(fn):
        if isinstance(n, ast.Name) and isinstance(n.ctx, ast.Store):
            out.add(n.id)
    return out


class Tr:
    def __init__(self, lean_name, fn, effect, signatures, outer_bound=frozenset()):
        self.lean_name = lean_name
        self.fn = fn
        self.effect = effect
        self.sigs = signatures          # python name -> (lean name, [params], {param: default ast})
        self.tmp = 0
        self.nested = []                # rendered nested defs
        self.local_fns = {}             # python name of nested def -> lean name
        self.outer_bound = outer_bound
        self.builders = set()
        # names that are only ever read inside `raise …(name)`: messages, never part of a decision
        in_raise = {id(n) for r in ast.walk(fn) if isinstance(r, ast.Raise) for n in ast.walk(r)}
        loads = [n for n in ast.walk(fn) if isinstance(n, ast.Name) and isinstance(n.ctx, ast.Load)]
        self.raise_only = {n.id for n in loads} - {n.id for n in loads if id(n) not in in_raise}

    # ------------------------------------------------------------------ helpers
    def fresh(self):
        self.tmp += 1
        return f"t{self.tmp}"

    def var(self, name, scope):
        if name in scope:
            return f"v_{name}"
        return f"(env {lstr(name)})"

    # ------------------------------------------------------------------ expressions -> (binds, term)
    def ex(self, e, scope):
        if isinstance(e, ast.Constant):
            v = e.value
            if v is None:
                return [], "vNone"
            if v is True:
                return [], "vTrue"
            if v is False:
                return [], "vFalse"
            if isinstance(v, int):
                return [], f"(vInt ({v}))"
            if isinstance(v, str):
                return [], f"(vStr {lstr(v)})"
            raise Unsupported(f"constant {v!r}")
        if isinstance(e, ast.JoinedStr):
            return [], '(vStr "<f-string>")'
        if isinstance(e, ast.Name):
            return [], self.var(e.id, scope)
        if isinstance(e, ast.Tuple):
            bs, ts = self.exs(e.elts, scope)
            return bs, f"(mkTup [{', '.join(ts)}])"
        if isinstance(e, ast.UnaryOp) and isinstance(e.op, ast.Not):
            b, t = self.ex(e.operand, scope)
            return b, f"(pyNot {t})"
        if isinstance(e, ast.Compare):
            if len(e.ops) != 1:
                raise Unsupported("chained comparison")
            op = {ast.Is: "pyIs", ast.IsNot: "pyIsNot", ast.Eq: "pyEq", ast.NotEq: "pyNe", ast.In: "pyIn",
                  ast.NotIn: "pyNotIn"}.get(type(e.ops[0]))
            if op is None:
                raise Unsupported(f"comparison {type(e.ops[0]).__name__}")
            b1, l = self.ex(e.left, scope)
            b2, r = self.ex(e.comparators[0], scope)
            return b1 + b2, f"({op} {l} {r})"
        if isinstance(e, ast.BoolOp):
            fn = "pyAnd" if isinstance(e.op, ast.And) else "pyOr"
            binds, acc = self.ex(e.values[0], scope)
            for v in e.values[1:]:
                b, t = self.ex(v, scope)
                if not b:
                    acc = f"({fn} {acc} {t})"
                else:   # the right operand performs calls: evaluate it only when Python would
                    x = self.fresh()
                    inner = " ".join(f"{ln};" for ln in b)
                    rhs = f"(do {inner} pure {t})"
                    if fn == "pyAnd":
                        binds = binds + [f"let {x} ← (if truthy {acc} then {rhs} else pure {acc})"]
                    else:
                        binds = binds + [f"let {x} ← (if truthy {acc} then pure {acc} else {rhs})"]
                    acc = x
            return binds, acc
        if isinstance(e, ast.IfExp):
            bc, c = self.ex(e.test, scope)
            ba, a = self.ex(e.body, scope)
            bb, b = self.ex(e.orelse, scope)
            if ba or bb:
                raise Unsupported("call inside conditional expression")
            return bc, f"(if truthy {c} then {a} else {b})"
        if isinstance(e, ast.Attribute):
            if isinstance(e.value, ast.Name) and e.value.id not in scope:
                return [], f"(env {lstr(e.value.id + '.' + e.attr)})"
            b, o = self.ex(e.value, scope)
            return b, f"(ext \"getattr\" [{o}, vStr {lstr(e.attr)}])"
        if isinstance(e, ast.Call):
            return self.call(e, scope)
        raise Unsupported(f"expression {type(e).__name__}")

    def exs(self, es, scope):
        binds, terms = [], []
        for x in es:
            b, t = self.ex(x, scope)
            binds += b
            terms.append(t)
        return binds, terms

    def call(self, e, scope):
        f = e.func
        if any(isinstance(a, ast.Starred) for a in e.args) or any(k.arg is None for k in e.keywords):
            raise Unsupported("star arguments")
        if isinstance(f, ast.Name):
            n = f.id
            if n in scope and n not in self.local_fns:
                if e.keywords:
                    raise Unsupported(f"keywords in call of local value {n}")
                binds, ts = self.exs(e.args, scope)
                return binds, f"(ext \"call\" [{', '.join([self.var(n, scope)] + ts)}])"
            if n in self.local_fns or n in self.sigs:
                lean, params, defaults = self.sigs[n] if n in self.sigs else self.local_fns[n]
                given = {}
                if len(e.args) > len(params):
                    raise Unsupported(f"too many arguments for {n}")
                for p, a in zip(params, e.args):
                    given[p] = a
                for k in e.keywords:
                    if k.arg not in params or k.arg in given:
                        raise Unsupported(f"bad keyword {k.arg} for {n}")
                    given[k.arg] = k.value
                args = []
                for p in params:
                    if p in given:
                        args.append(given[p])
                    elif p in defaults:
                        args.append(defaults[p])
                    else:
                        raise Unsupported(f"missing argument {p} for {n}")
                binds, ts = self.exs(args, scope)
                x = self.fresh()
                return binds + [f"let {x} ← {lean} env ext {' '.join(ts)}"], x
            if e.keywords:
                raise Unsupported(f"keywords in call of un-modelled {n}")
            binds, ts = self.exs(e.args, scope)
            if n in ("any", "all") and len(ts) == 1:
                return binds, f"({'pyAny' if n == 'any' else 'pyAll'} {ts[0]})"
            if n == "callable" and len(ts) == 1:
                return binds, f"(pyCallable {ts[0]})"
            if n == "isinstance" and len(ts) == 2 and isinstance(e.args[1], ast.Name) and e.args[1].id == "str":
                return binds, f"(pyIsStr {ts[0]})"
            return binds, f"(ext {lstr(n)} [{', '.join(ts)}])"
        if isinstance(f, ast.Attribute):
            if e.keywords:
                raise Unsupported("keywords in method call")
            binds, ts = self.exs(e.args, scope)
            if f.attr == "lower" and not ts:
                b, o = self.ex(f.value, scope)
                return b + binds, f"(pyLower {o})"
            if f.attr == "lstrip" and len(ts) == 1:
                b, o = self.ex(f.value, scope)
                return b + binds, f"(pyLstrip {o} {ts[0]})"
            if isinstance(f.value, ast.Name) and f.value.id in self.builders:
                raise Unsupported("builder call in expression position")
            if isinstance(f.value, ast.Name) and f.value.id not in scope:
                return binds, f"(ext {lstr(f.value.id + '.' + f.attr)} [{', '.join(ts)}])"
            b, o = self.ex(f.value, scope)
            return b + binds, f"(ext {lstr('.' + f.attr)} [{', '.join([o] + ts)}])"
        raise Unsupported("call of a computed function")

    # ------------------------------------------------------------------ effects
    def eff_args(self, call, scope):
        """arguments of an effect call: positional, then keyword arguments as (name, value) in source order"""
        binds, ts = self.exs(call.args, scope)
        for k in call.keywords:
            if k.arg is None:
                raise Unsupported("**kwargs")
            b, t = self.ex(k.value, scope)
            binds += b
            ts.append(f"vStr {lstr(k.arg + '=')}")
            ts.append(t)
        return binds, ts

    def is_builder_call(self, e):
        return (isinstance(e, ast.Call) and isinstance(e.func, ast.Attribute) and isinstance(e.func.value, ast.Name)
                and e.func.value.id in self.builders)

    def is_effect_call(self, e):
        return isinstance(e, ast.Call) and isinstance(e.func, ast.Name) and e.func.id in (EFFECT_CTORS | EFFECT_CALLS)

    # ------------------------------------------------------------------ statements
    def ret(self, term):
        return f"pure ({term}, effs)" if self.effect else f"pure {term}"

    def emit(self, binds, last, ind):
        pad = "  " * ind
        return "\n".join(pad + ln for ln in binds + [last])

    def blk(self, stmts, scope, ind, ft=None):
        """Lean term (a `do` block body, one statement per line) for the statement list; `ft` is what a block that
        falls off its end yields (default: the function returns None)"""
        pad = "  " * ind
        if not stmts:
            return pad + (ft if ft is not None else self.ret("vNone"))
        s, rest = stmts[0], stmts[1:]
        if isinstance(s, ast.Expr) and isinstance(s.value, ast.Constant) and isinstance(s.value.value, str):
            return self.blk(rest, scope, ind, ft)
        if isinstance(s, (ast.Pass, ast.Import, ast.ImportFrom)):
            # an import binds a module-level name; reads of it go through `env` like any other global
            return self.blk(rest, scope, ind, ft)
        if isinstance(s, ast.FunctionDef):
            self.nested_def(s, scope)
            return self.blk(rest, scope, ind, ft)
        if isinstance(s, ast.Return):
            if s.value is None:
                return pad + self.ret("vNone")
            if self.effect and (self.is_builder_call(s.value) or self.is_effect_call(s.value)):
                name = s.value.func.attr if isinstance(s.value.func, ast.Attribute) else s.value.func.id
                binds, ts = self.eff_args(s.value, scope)
                return self.emit(binds, f"pure (vObj 2, effs ++ [Eff.mk {lstr(name)} [{', '.join(ts)}]])", ind)
            binds, t = self.ex(s.value, scope)
            return self.emit(binds, self.ret(t), ind)
        if isinstance(s, ast.Raise):
            exc = s.exc
            name = exc.func.id if isinstance(exc, ast.Call) and isinstance(exc.func, ast.Name) else (
                exc.id if isinstance(exc, ast.Name) else None)
            if name is None:
                raise Unsupported(f"raise of {ast.dump(exc)[:60]}")
            kind = {"ValueError": "PyErr.valueError", "TypeError": "PyErr.typeError"}.get(name, f"(PyErr.other {lstr(name)})")
            return pad + f"throw {kind}"
        if isinstance(s, ast.Assign):
            if len(s.targets) != 1:
                raise Unsupported("chained assignment")
            tg = s.targets[0]
            if isinstance(tg, ast.Name):
                if self.effect and self.is_effect_call(s.value) and s.value.func.id in EFFECT_CTORS:
                    binds, ts = self.eff_args(s.value, scope)
                    self.builders.add(tg.id)
                    lines = binds + [f"let effs := effs ++ [Eff.mk {lstr(s.value.func.id)} [{', '.join(ts)}]]",
                                     f"let v_{tg.id} := vObj 1"]
                    return self.emit(lines[:-1], lines[-1], ind) + "\n" + self.blk(rest, scope | {tg.id}, ind, ft)
                binds, t = self.ex(s.value, scope)
                return self.emit(binds, f"let v_{tg.id} := {t}", ind) + "\n" + self.blk(rest, scope | {tg.id}, ind, ft)
            if isinstance(tg, ast.Tuple) and all(isinstance(x, ast.Name) for x in tg.elts):
                names = [x.id for x in tg.elts]
                if isinstance(s.value, ast.Tuple) and len(s.value.elts) == len(names):
                    binds, ts = self.exs(s.value.elts, scope)
                    tmps = [self.fresh() for _ in names]
                    lines = binds + [f"let {x} := {t}" for x, t in zip(tmps, ts)] + [
                        f"let v_{n} := {x}" for n, x in zip(names, tmps)]
                else:
                    binds, t = self.ex(s.value, scope)
                    x = self.fresh()
                    lines = binds + [f"let {x} := {t}"] + [f"let v_{n} := nth {x} {i}" for i, n in enumerate(names)]
                return self.emit(lines[:-1], lines[-1], ind) + "\n" + self.blk(rest, scope | set(names), ind, ft)
            raise Unsupported("assignment target")
        if isinstance(s, ast.Expr):
            if self.effect and self.is_builder_call(s.value):
                binds, ts = self.eff_args(s.value, scope)
                line = f"let effs := effs ++ [Eff.mk {lstr(s.value.func.attr)} [{', '.join(ts)}]]"
                return self.emit(binds, line, ind) + "\n" + self.blk(rest, scope, ind, ft)
            v = s.value
            if (self.effect and isinstance(v, ast.Call) and isinstance(v.func, ast.Name) and v.func.id in scope
                    and v.func.id not in self.local_fns):
                # calling a value the function was handed (a user callback) for its effect
                binds, ts = self.eff_args(v, scope)
                line = f"let effs := effs ++ [Eff.mk \"call\" [{', '.join([self.var(v.func.id, scope)] + ts)}]]"
                return self.emit(binds, line, ind) + "\n" + self.blk(rest, scope, ind, ft)
            if (self.effect and isinstance(v, ast.Call) and isinstance(v.func, ast.Attribute)
                    and isinstance(v.func.value, ast.Name) and v.func.value.id not in scope):
                # a call made for its effect on a global's attribute, e.g. `BaseException.__setattr__(self, name, value)`
                binds, ts = self.eff_args(v, scope)
                line = f"let effs := effs ++ [Eff.mk {lstr(v.func.value.id + '.' + v.func.attr)} [{', '.join(ts)}]]"
                return self.emit(binds, line, ind) + "\n" + self.blk(rest, scope, ind, ft)
            raise Unsupported("expression statement")
        if isinstance(s, ast.If):
            binds, c = self.ex(s.test, scope)
            has_ret = any(isinstance(n, ast.Return) for st in s.body + s.orelse for n in ast.walk(st))
            if rest and not has_ret and not terminates(s.body) and not (s.orelse and terminates(s.orelse)):
                # join point: the statement yields the variables it assigns (and the effects so far)
                assigned = sorted({n.id for st in s.body + s.orelse for n in ast.walk(st)
                                   if isinstance(n, ast.Name) and isinstance(n.ctx, ast.Store)})
                live = []
                st_in = lambda blk: {n.id for st in blk for n in ast.walk(st)  # noqa: E731
                                     if isinstance(n, ast.Name) and isinstance(n.ctx, ast.Store)}
                both = st_in(s.body) & st_in(s.orelse)
                for n in assigned:
                    if n in self.raise_only:
                        continue
                    if n in scope or n in both:
                        live.append(n)
                    else:
                        raise Unsupported(f"{n} is assigned in one branch only")
                vs = [f"v_{n}" for n in live] + (["effs"] if self.effect else [])
                tup = "()" if not vs else (vs[0] if len(vs) == 1 else "(" + ", ".join(vs) + ")")
                pat = "_u" if not vs else tup
                if self.pure_block(s.body) and self.pure_block(s.orelse):
                    # both branches are straight-line (no call of a translated function, no raise): a plain `let`
                    head = self.emit(binds, f"let {pat} := (if truthy {c} then Id.run do", ind)
                    return (head + "\n" + self.blk(s.body, scope, ind + 2, f"pure {tup}") + "\n" + pad
                            + "  else Id.run do\n" + self.blk(s.orelse, scope, ind + 2, f"pure {tup}") + ")\n"
                            + self.blk(rest, scope | set(live), ind, ft))
                head = self.emit(binds, f"let {pat} ← (if truthy {c} then do", ind)
                return (head + "\n" + self.blk(s.body, scope, ind + 2, f"pure {tup}") + "\n" + pad + "  else do\n"
                        + self.blk(s.orelse, scope, ind + 2, f"pure {tup}") + ")\n"
                        + self.blk(rest, scope | set(live), ind, ft))
            then = s.body if terminates(s.body) else s.body + rest
            other = s.orelse if (s.orelse and terminates(s.orelse)) else s.orelse + rest
            head = self.emit(binds, f"if truthy {c} then do", ind)
            return (head + "\n" + self.blk(then, scope, ind + 1, ft) + "\n" + pad + "else do\n"
                    + self.blk(other, scope, ind + 1, ft))
        if isinstance(s, ast.For):
            if s.orelse or not isinstance(s.target, ast.Name) or len(s.body) != 1 or not isinstance(s.body[0], ast.If) \
                    or s.body[0].orelse:
                raise Unsupported("for loop outside the `for v in e: if t: ...` shape")
            inner = s.body[0]
            body = inner.body
            if body and isinstance(body[-1], ast.Break):
                found = body[:-1] + rest
            elif terminates(body):
                found = body
            else:
                raise Unsupported("for loop whose body neither breaks nor returns")
            if any(isinstance(n, (ast.Break, ast.Continue)) for st in found for n in ast.walk(st)):
                raise Unsupported("break/continue inside nested statement")
            bi, it = self.ex(s.iter, scope)
            v = s.target.id
            bt, t = self.ex(inner.test, scope | {v})
            if bt:
                raise Unsupported("call of a translated function inside a loop test")
            head = self.emit(bi, f"match (items {it}).find? (fun v_{v} => truthy {t}) with", ind)
            return (head + "\n" + pad + f"| some v_{v} => do\n" + self.blk(found, scope | {v}, ind + 1, ft) + "\n"
                    + pad + "| none => do\n" + self.blk(rest, scope, ind + 1, ft))
        if isinstance(s, ast.Try):
            # `try: return f(a) except E: return f(b)` with f an effect call: recorded as one effect naming both
            if (self.effect and len(s.body) == 1 and len(s.handlers) == 1 and not s.orelse and not s.finalbody
                    and isinstance(s.body[0], ast.Return) and self.is_effect_call(s.body[0].value)
                    and len(s.handlers[0].body) == 1 and isinstance(s.handlers[0].body[0], ast.Return)
                    and self.is_effect_call(s.handlers[0].body[0].value) and isinstance(s.handlers[0].type, ast.Name)):
                b1, t1 = self.eff_args(s.body[0].value, scope)
                b2, t2 = self.eff_args(s.handlers[0].body[0].value, scope)
                n1 = s.body[0].value.func.id
                n2 = s.handlers[0].body[0].value.func.id
                line = (f"pure (vObj 2, effs ++ [Eff.mk {lstr('try:' + n1)} [{', '.join(t1)}], "
                        f"Eff.mk {lstr('except ' + s.handlers[0].type.id + ':' + n2)} [{', '.join(t2)}]])")
                return self.emit(b1 + b2, line, ind)
            raise Unsupported("try statement")
        raise Unsupported(f"statement {type(s).__name__}")

    def pure_block(self, stmts):
        """only assignments / effect statements whose expressions need no monadic bind"""
        for st in stmts:
            if isinstance(st, ast.Pass) or (isinstance(st, ast.Expr) and isinstance(st.value, ast.Constant)):
                continue
            if isinstance(st, ast.Assign) or (isinstance(st, ast.Expr) and self.is_builder_call(st.value)):
                for n in ast.walk(st):
                    if isinstance(n, ast.Call) and isinstance(n.func, ast.Name) and (
                            n.func.id in self.sigs or n.func.id in self.local_fns):
                        return False
                continue
            return False
        return True

    def nested_def(self, fn, scope):
        free = {n.id for n in ast.walk(fn) if isinstance(n, ast.Name) and isinstance(n.ctx, ast.Load)} - bound_names(fn)
        if free & (scope | self.outer_bound):
            raise Unsupported(f"nested function {fn.name} closes over locals {sorted(free & scope)}")
        lean = f"{self.lean_name}.{fn.name}"
        sub = Tr(lean, fn, False, self.sigs)
        text, params, defaults = sub.render()
        self.nested += sub.nested + [text]
        self.local_fns[fn.name] = (lean, params, defaults)

    def render(self):
        a = self.fn.args
        if a.vararg or a.kwarg or a.posonlyargs:
            raise Unsupported("star parameters")
        params = [x.arg for x in a.args + a.kwonlyargs]
        defaults = {}
        for p, d in zip(reversed(a.args), reversed(a.defaults)):
            defaults[p.arg] = d
        for p, d in zip(a.kwonlyargs, a.kw_defaults):
            if d is not None:
                defaults[p.arg] = d
        for d in defaults.values():
            if not isinstance(d, ast.Constant):
                raise Unsupported("non-constant parameter default")
        body = self.blk(self.fn.body, set(params), 1)
        ps = " ".join(f"v_{p}" for p in params)
        sig = f"(env : Env) (ext : Ext){' (' + ps + ' : PV)' if params else ''}"
        if self.effect:
            head = f"def {self.lean_name} {sig} (effs : List Eff) : Except PyErr (PV × List Eff) := do"
        else:
            head = f"def {self.lean_name} {sig} : Except PyErr PV := do"
        return head + "\n" + body + "\n", params, defaults


def translate_all():
    """-> ({lean name: text}, [broken messages])"""
    trees = {}
    texts, broken = {}, []
    sigs = {}
    for lean, fname, path, effect in TARGETS:
        try:
            if fname not in trees:
                trees[fname] = ast.parse((repo_src() / fname).read_text())
            fn = find_func(trees[fname], path)
            outer = frozenset()
            if len(path) > 1:
                outer = frozenset()     # free names of a closure are read through env, by design
            tr = Tr(lean, fn, effect, dict(sigs))
            text, params, defaults = tr.render()
            texts[lean] = "".join(t + "\n" for t in tr.nested) + text
            py = path[-1]
            if py in CALLABLE and not effect:
                sigs[py] = (lean, params, defaults)
        except (Unsupported, OSError, SyntaxError) as e:
            broken.append(f"fn_{lean}: {type(e).__name__}: {e}")
    return texts, broken


HEADER = """/- GENERATED by harness/funcs_from_source.py from /repo/src/attr on every run (T1b). Do not edit.
   One definition per translated source function; see AttrsModel/PyLite.lean for the meaning of the operations. -/
import AttrsModel.PyLite

set_option linter.unusedVariables false

namespace Attrs.Gen
open Attrs.Py

"""


def render(texts, pinned):
    parts = [HEADER]
    for lean, *_ in TARGETS:
        parts.append(texts.get(lean, pinned.get(lean, f"-- {lean}: no translation available\n")))
        parts.append("\n")
    parts.append("end Attrs.Gen\n")
    return "".join(parts)


def regenerate() -> dict:
    texts, broken = translate_all()
    pinned = json.loads(PINNED.read_text()) if PINNED.exists() else {}
    text = render(texts, pinned)
    changed = not OUT.exists() or OUT.read_text() != text
    if changed:
        OUT.parent.mkdir(parents=True, exist_ok=True)
        OUT.write_text(text)
    differs = [k for k in texts if pinned.get(k) != texts[k]]
    return {"changed": changed, "broken": broken, "differs_from_pinned": differs}


if __name__ == "__main__":
    if "--pin" in sys.argv:
        texts, broken = translate_all()
        if broken:
            print("NOT pinned, untranslatable:", broken)
            sys.exit(1)
        PINNED.write_text(json.dumps(texts, indent=1, sort_keys=True) + "\n")
    print(regenerate())
