"""Python mirror of the Lean model `Attrs.C10` (lean/AttrsModel/AttrsModel/Model/C10.lean).

Only `wf` is used by the check itself (the generator must emit well-formed cases: "every field is set"
depends on where the generated `__init__` puts each value).  `model` is the development prototype the Lean
model was ported from; `./check` never consults it for a verdict.
"""
from __future__ import annotations

CACHE = "_attrs_cached_hash"
EXC = [False]      # the chain under evaluation is rooted at `Exception` and every attrs class has auto_exc=True


# ------------------------------------------------------------------------------------------- collection
def is_attrs(c):
    return c["kind"] == "attrs"


def own_names(c):
    return [f["name"] for f in c["fields"]] if is_attrs(c) else []


def resolved(prefix):
    """`__attrs_attrs__` the last class of `prefix` resolves: [(name, inherited)]"""
    acc = []
    for c in prefix:
        if not is_attrs(c):
            continue
        own = own_names(c)
        acc = [(n, True) for (n, _) in acc if n not in own] + [(n, False) for n in own]
    return acc


def names(prefix):
    return [n for n, _ in resolved(prefix)]


def field_info(chain, name):
    out = None
    for c in chain:
        if is_attrs(c):
            for f in c["fields"]:
                if f["name"] == name:
                    out = f
    return out


# ------------------------------------------------------------------------------------------- layout
def slot_decl(c):
    """names a class contributes as slot descriptors (weakref aside)"""
    if not c["slots"]:
        return []
    if is_attrs(c):
        return own_names(c) + ([CACHE] if c["cacheHash"] else [])
    return list(c["plainSlots"])


def slot_names(chain):
    out = []
    for c in chain:
        out += slot_decl(c)
    return out


def has_dict(chain):
    return EXC[0] or any(not c["slots"] for c in chain)      # BaseException instances always have a __dict__


def eff_frozen(prefix):
    return any(is_attrs(c) and c["frozen"] for c in prefix)


def provides_weakref(c):
    return (not c["slots"]) or (is_attrs(c) and c["weakrefSlot"])


def slots_tuple(chain, k):
    """`__slots__` of class k (which has slots)"""
    c = chain[k]
    if not is_attrs(c):
        return list(c["plainSlots"])
    existing = []
    for j in range(k):
        cj = chain[j]
        if cj["slots"]:
            existing += slots_tuple(chain, j)
    out = [n for n in own_names(c) if n not in existing]
    if c["weakrefSlot"] and not any(provides_weakref(chain[j]) for j in range(k)):
        out.append("__weakref__")
    if c["cacheHash"]:
        out.append(CACHE)
    return out


def slots_truthy(chain):
    for k in range(len(chain) - 1, -1, -1):
        if chain[k]["slots"]:
            return len(slots_tuple(chain, k)) > 0
    return False


# ------------------------------------------------------------------------------------------- storage
class Inst:
    def __init__(self):
        self.slot = {}
        self.dict = {}

    def clone(self):
        y = Inst()
        y.slot = dict(self.slot)
        y.dict = dict(self.dict)
        return y


def read(L, i, n):
    if n in L["slots"]:
        return i.slot.get(n)
    if L["dict"]:
        return i.dict.get(n)
    return None


def osetattr(L, i, n, v):
    if n in L["slots"]:
        i.slot[n] = v
        return True
    if L["dict"]:
        i.dict[n] = v
        return True
    return False


def layout(chain):
    return {"slots": slot_names(chain), "dict": has_dict(chain)}


# ------------------------------------------------------------------------------------------- belief
def belief(chain, n):
    leaf = chain[-1]
    own = own_names(leaf)
    bases = []
    for j in range(len(chain) - 2, -1, -1):
        bases.append((chain[j]["slots"], resolved(chain[: j + 1])))
    if leaf["collectByMro"]:
        # `_collect_base_attrs` reads each base's own `__attrs_attrs__`: a plain class contributes nothing
        for j, (has, attrs) in zip(range(len(chain) - 2, -1, -1), bases):
            if not is_attrs(chain[j]):
                continue
            if any(m == n and not inh and m not in own for m, inh in attrs):
                return has
        return False
    if n in own:
        return False
    for has, attrs in bases:
        if any(m == n for m, _ in attrs):
            return has
    return False


# ------------------------------------------------------------------------------------------- decisions
def gs_eff(c, inherited):
    """`inherited`: what the bases resolve -- a class that would inherit a generated pair gets its own"""
    if not is_attrs(c):
        return False
    if c["gs"] == "t":
        return True
    if c["gs"] == "f":
        return False
    if c["autoDetect"] and c["userGS"]:
        return False
    return c["slots"] or (not c["userGS"] and inherited[0] == "gen")


def resolve_gs(chain):
    cur = ("default", None)
    for k, c in enumerate(chain):
        if gs_eff(c, cur):
            cur = ("gen", k)
        elif c["userGS"]:
            cur = ("user", k)
    return cur


def hash_decision(chain, k):
    c = chain[k]
    if not is_attrs(c) or EXC[0]:          # auto_exc: neither __eq__ nor __hash__ is generated
        return "inherit"
    if c["unsafeHash"]:
        return "gen"
    if c["eq"]:
        return "gen" if eff_frozen(chain[: k + 1]) else "none"
    return "inherit"


def resolve_hash(chain):
    for k in range(len(chain) - 1, -1, -1):
        d = hash_decision(chain, k)
        if d == "gen":
            return ("gen", k)
        if d == "none":
            return ("none", k)
    return ("identity", None)


def resolve_eq(chain):
    if EXC[0]:
        return None
    for k in range(len(chain) - 1, -1, -1):
        if is_attrs(chain[k]) and chain[k]["eq"]:
            return k
    return None


def class_ok(chain, k):
    """definition-time acceptance of class k"""
    c = chain[k]
    if not is_attrs(c):
        return True
    if c["cacheHash"] and hash_decision(chain, k) != "gen":
        return False
    return True


# ------------------------------------------------------------------------------------------- init, hash
def construct(chain, tokens, assign_unset):
    """None = the constructor raised"""
    L = layout(chain)
    leaf = chain[-1]
    i = Inst()
    frozen = eff_frozen(chain)
    for n in names(chain):
        f = field_info(chain, n)
        if not f["init"]:
            continue
        v = ("tok", tokens[n])
        if frozen and not leaf["slots"] and not belief(chain, n):
            i.dict[n] = v
        elif not osetattr(L, i, n, v):
            return None
    if leaf["cacheHash"]:
        if frozen and not leaf["slots"]:
            i.dict[CACHE] = ("none",)
        elif not osetattr(L, i, CACHE, ("none",)):
            return None
    if assign_unset:
        for n in names(chain):
            if not field_info(chain, n)["init"]:
                if not osetattr(L, i, n, ("tok", tokens[n])):
                    return None
    return i


def do_hash(chain, i):
    """(kind, hashvalue, recomputed); mutates i"""
    L = layout(chain)
    kind, k = resolve_hash(chain)
    if kind == "none":
        return ("typeError", None, False)
    if kind == "identity":
        return ("ok", ("id",), False)
    ns = names(chain[: k + 1])

    def compute():
        vals = []
        for n in ns:
            v = read(L, i, n)
            if v is None:
                return None
            vals.append(v[1])
        return tuple(vals)

    has_box = any(field_info(chain, n)["kind"] == "box" for n in ns)
    if not chain[k]["cacheHash"]:
        hv = compute()
        return ("attributeError", None, False) if hv is None else ("ok", hv, has_box)
    c = read(L, i, CACHE)
    if c is None:
        return ("attributeError", None, False)
    if c[0] == "wrap":
        return ("ok", c[1], False)
    hv = compute()
    if hv is None:
        return ("attributeError", None, False)
    if eff_frozen(chain[: k + 1]):
        if not osetattr(L, i, CACHE, ("wrap", hv)):
            return ("attributeError", None, has_box)
    else:
        if eff_frozen(chain):
            return ("frozenInstance", None, has_box)
        if not osetattr(L, i, CACHE, ("wrap", hv)):
            return ("attributeError", None, has_box)
    return ("ok", hv, has_box)


def do_eq(chain, a, b):
    L = layout(chain)
    k = resolve_eq(chain)
    if k is None:
        return "F"
    for n in names(chain[: k + 1]):
        va, vb = read(L, a, n), read(L, b, n)
        if va is None or vb is None:
            return "attributeError"
        if va != vb:
            return "F"
    return "T"


# ------------------------------------------------------------------------------------------- the round trip
def sanitize(v):
    return ("none",) if v[0] == "wrap" else v


def roundtrip(chain, orig, op):
    """(exc, copy)"""
    L = layout(chain)
    kind, k = resolve_gs(chain)
    low = isinstance(op, dict) and "pickle" in op and op["pickle"]["proto"] < 2
    deep = op != "copy"
    frozen = eff_frozen(chain)
    if low and kind == "default" and slots_truthy(chain):
        return "typeError", None
    # ---- state
    if kind == "gen":
        ns = names(chain[: k + 1])
        st = []
        for n in ns:
            v = read(L, orig, n)
            if v is None:
                return "attributeError", None
            st.append((n, v))
        falsy = not st and not chain[k]["cacheHash"]
        none = False
    elif kind == "user":
        st = []
        for n in names(chain):
            v = read(L, orig, n)
            if v is None:
                return "attributeError", None
            st.append((n, v))
        falsy = none = False
    else:
        dpart = list(orig.dict.items()) if L["dict"] and orig.dict else None
        spart = []
        seen = set()
        for n in L["slots"]:
            if n in orig.slot and n not in seen:
                seen.add(n)
                spart.append((n, orig.slot[n]))
        none = dpart is None and not spart
        falsy = none
    y = Inst()
    if none or (low and falsy):
        return None, y
    tr = sanitize if deep else (lambda v: v)
    if kind == "gen":
        for n, v in st:
            if not osetattr(L, y, n, tr(v)):
                return "attributeError", None
        if chain[k]["cacheHash"]:
            if not osetattr(L, y, CACHE, ("none",)):
                return "attributeError", None
    elif kind == "user":
        for n, v in st:
            if not osetattr(L, y, n, tr(v)):
                return "attributeError", None
        hk, hi = resolve_hash(chain)
        if hk == "gen" and chain[hi]["cacheHash"]:
            if not osetattr(L, y, CACHE, ("none",)):
                return "attributeError", None
    else:
        if dpart is not None:
            for n, v in dpart:
                y.dict[n] = tr(v)
        for n, v in spart:
            if frozen:
                return "frozenInstance", None
            if not osetattr(L, y, n, tr(v)):
                return "attributeError", None
    return None, y


def legacy(chain, n):
    L = layout(chain)
    kind, k = resolve_gs(chain)
    if kind == "default":
        return "attributeError", None
    if kind == "user":
        return "typeError", None
    y = Inst()
    for name, i in zip(names(chain[: k + 1]), range(n)):
        if not osetattr(L, y, name, ("tok", f"t{i}")):
            return "attributeError", None
    if chain[k]["cacheHash"]:
        if not osetattr(L, y, CACHE, ("none",)):
            return "attributeError", None
    return None, y


def cur_tokens(case):
    return {n: ("m_" if case.get("mutate") == n else "v_") + n for n in names(case["chain"])}


def history(case):
    chain = case["chain"]
    orig = construct(chain, {n: "v_" + n for n in names(chain)}, case["assignUnset"])
    if orig is None:
        return None
    if case["hashedBefore"]:
        do_hash(chain, orig)
    m = case.get("mutate")
    if m is not None:
        if not osetattr(layout(chain), orig, m, ("tok", "m_" + m)):
            return None
    return orig


def arg_tok(case, n):
    """what `args` holds for init field n when the exception is copied: the value stored at construction; an
    in-place change of that object is visible through it, a later assignment is not"""
    return ("m_" if case.get("mutate") == n and case.get("mutInPlace") else "v_") + n


def exc_roundtrip(case, orig):
    """BaseException.__reduce__: cls(*args), then __setstate__(__dict__) if there is a dict"""
    chain = case["chain"]
    L = layout(chain)
    deep = case["op"] != "copy"
    tr = sanitize if deep else (lambda v: v)
    y = construct(chain, {n: arg_tok(case, n) for n in names(chain)}, False)
    if y is None:
        return "attributeError", None
    st = [(n, tr(orig.dict[n])) for n in names(chain) if n in orig.dict]
    kind, k = resolve_gs(chain)
    if kind == "gen":
        ns = names(chain[: k + 1])
        for n, v in st:
            if n in ns and not osetattr(L, y, n, v):
                return "attributeError", None
        if chain[k]["cacheHash"] and not osetattr(L, y, CACHE, ("none",)):
            return "attributeError", None
    elif kind == "user":
        return "other", None
    else:
        if eff_frozen(chain) and st:
            return "frozenInstance", None
        for n, v in st:
            if not osetattr(L, y, n, v):
                return "attributeError", None
    return None, y


def wf(case):
    EXC[0] = bool(case.get("exc"))
    chain = case["chain"]
    if not chain or not is_attrs(chain[-1]) or len(chain) > 3:
        return False
    for k, c in enumerate(chain):
        ns = own_names(c)
        if len(set(ns)) != len(ns) or any(n in (CACHE, "__weakref__") for n in ns):
            return False
        if not class_ok(chain, k):
            return False
        if not is_attrs(c) and (c["fields"] or (not c["slots"] and c["plainSlots"])):
            return False
        if any(n in (CACHE, "__weakref__", "__dict__") for n in c["plainSlots"]):
            return False
        if EXC[0] and (c["userGS"] or c["gs"] == "f" or c["cacheHash"]):
            return False
    m = case.get("mutate")
    if m is not None and m not in names(chain):
        return False
    if case.get("mutInPlace") and (m is None or field_info(chain, m)["kind"] != "box"):
        return False
    op = case["op"]
    if isinstance(op, dict) and "pickle" in op and op["pickle"]["proto"] > 5:
        return False
    if EXC[0] and isinstance(op, dict) and "legacy" in op:
        return False
    # every field is set on the constructed instance (before any later change)
    orig = construct(chain, {n: "v_" + n for n in names(chain)}, case["assignUnset"])
    if orig is None:
        return False
    L = layout(chain)
    return all(read(L, orig, n) is not None for n in names(chain))


def model(case):
    EXC[0] = bool(case.get("exc"))
    chain = case["chain"]
    L = layout(chain)
    obs = {"exc": None, "distinct": False, "sameClass": False, "fields": [], "aliased": [],
           "eqOrig": "na", "cacheAfter": "absent", "hashCopy": "na", "hashFresh": "na", "hashOrig": "na",
           "hashEqFresh": False, "hashEqOrig": False, "recomputed": False}
    orig = history(case)
    op = case["op"]
    if isinstance(op, dict) and "legacy" in op:
        exc, cp = legacy(chain, op["legacy"]["len"])
    elif EXC[0]:
        exc, cp = exc_roundtrip(case, orig)
    else:
        exc, cp = roundtrip(chain, orig, op)
    if exc is not None:
        obs["exc"] = exc
        return obs
    obs["distinct"] = obs["sameClass"] = True
    for n in names(chain):
        v = read(L, cp, n)
        obs["fields"].append([n, None if v is None else "None" if v[0] == "none" else v[1]])
        if op == "copy" and v is not None and field_info(chain, n)["kind"] == "box" and v == read(L, orig, n):
            obs["aliased"].append(n)
    c = read(L, cp, CACHE)
    obs["cacheAfter"] = "absent" if c is None else "isNone" if c[0] == "none" else "carried"
    obs["eqOrig"] = do_eq(chain, cp, orig)
    kc, hc, rec = do_hash(chain, cp)
    obs["hashCopy"], obs["recomputed"] = kc, rec and not (isinstance(op, dict) and "legacy" in op)
    fresh = history(dict(case, hashedBefore=False))
    kf, hf, _ = do_hash(chain, fresh)
    obs["hashFresh"] = kf
    ko, ho, _ = do_hash(chain, orig)
    obs["hashOrig"] = ko
    ident = resolve_hash(chain)[0] == "identity"
    obs["hashEqFresh"] = kc == "ok" and kf == "ok" and hc == hf and not ident
    obs["hashEqOrig"] = kc == "ok" and ko == "ok" and hc == ho and not ident
    return obs
