"""C08, structural part: build one class body through the slotted build and observe the new class.

A harness spec `hs` (JSON-able) describes the bases (root first), the class body (items with their closure
cells), the decorator arguments and a history of cached-property reads.  `build(hs)` creates the real
classes: functions are made either by exec'ing a real class statement ("natural": the compiler's own
`__class__` cell, shared by every method that mentions it) or from compiled templates through
`types.FunctionType` with hand-made cells, so that cells not shared with any other function, cells holding
another object and empty cells can be expressed.  `lean_case(hs)` derives the Lean `Attrs.C08.Case`
(base summaries are read from the real base classes, the body from the original class's `__dict__`).
"""
from __future__ import annotations

import abc
import functools
import os
import sys
import types
import weakref

import attr
import attrs

import common

MODNAME = "verif_c08"
LOG: list = []           # (tag, evidence) records written by fabricated functions
ISUB: list = []          # classes received by __attrs_init_subclass__ hooks
CP_LOG: list = []        # (inst index, name) compute events of cached properties
CP_INSTS: list = []      # instances taking part in the cached-property history
MISSING = object()


def _rec(tag, ev):
    LOG.append((tag, ev))


def _cp(self, name):
    idx = -1
    for j, o in enumerate(CP_INSTS):
        if o is self:
            idx = j
            break
    k = sum(1 for e in CP_LOG if e == (idx, name)) + 1
    CP_LOG.append((idx, name))
    return f"{name}@{idx}#{k}"


class Other:
    """content of 'other' cells: some other class of the same (synthetic) module"""
    __module__ = MODNAME


class _Boom(BaseException):
    """not an Exception: only `except BaseException` catches it"""


class _AnyEq:
    """equal to everything (like unittest.mock.ANY)"""
    __hash__ = None

    def __eq__(self, other):
        return True

    def __ne__(self, other):
        return False


class _NeverEq:
    """equal to nothing, not even itself"""
    __hash__ = None

    def __eq__(self, other):
        return False


def _raising_eq(exc):
    class _RaisingEq:
        __hash__ = None

        def __eq__(self, other):
            raise exc("== on a closed-over object")
    return _RaisingEq


class _EqMeta(type):
    """a CLASS that compares equal to every other class"""

    def __eq__(cls, other):
        return True

    def __hash__(cls):
        return 0


def other_object(kind):
    """a fresh object of the requested kind for an 'other' cell; the build must leave the cell holding THIS object"""
    import unittest.mock
    if kind == "anyeq":
        return _AnyEq()
    if kind == "mock_any":
        return unittest.mock.ANY
    if kind == "nevereq":
        return _NeverEq()
    if kind == "eq_typeerror":
        return _raising_eq(TypeError)()
    if kind == "eq_valueerror":
        return _raising_eq(ValueError)()
    if kind == "eq_baseexc":
        return _raising_eq(_Boom)()
    if kind == "eqclass":
        return _EqMeta("EqClass", (), {"__module__": MODNAME})
    if kind == "value":
        return ("a", 1)
    return Other


class _Descr:
    """a descriptor attrs knows nothing about, hiding a function"""

    def __init__(self, f):
        self.f = f
        self.owner = None

    def __set_name__(self, owner, name):
        self.owner = owner       # CPython calls this again for the replacement class
        try:
            setattr(owner, "_sn_" + name, SN_MARK)      # a descriptor that registers itself on its owner
        except BaseException:  # noqa: BLE001
            pass

    def __get__(self, inst, owner):
        if inst is None:
            return self
        return self.f(inst)


class _SubCachedProperty(functools.cached_property):
    """a subclass of functools.cached_property (typing shims, traced / documented cached properties)"""
    extra = "sub"


class _SubProperty(property):
    """a subclass of property"""
    extra = "sub"


class _SubClassMethod(classmethod):
    extra = "sub"


class _SubStaticMethod(staticmethod):
    extra = "sub"


WRAPPERS = {
    ("cprop", False): functools.cached_property, ("cprop", True): _SubCachedProperty,
    ("prop", False): property, ("prop", True): _SubProperty,
    ("cm", False): classmethod, ("cm", True): _SubClassMethod,
    ("sm", False): staticmethod, ("sm", True): _SubStaticMethod,
}
WRAPPER_SRC = {
    ("cprop", False): "functools.cached_property", ("cprop", True): "_SubCachedProperty",
    ("prop", False): "property", ("prop", True): "_SubProperty",
    ("cm", False): "classmethod", ("cm", True): "_SubClassMethod",
    ("sm", False): "staticmethod", ("sm", True): "_SubStaticMethod",
}


def _wrap(f):
    @functools.wraps(f)
    def wrapper(*a, **k):
        return f(*a, **k)
    return wrapper


HOOK_LOG: list = []      # names for which an on_setattr hook of the synthetic classes ran
HOOK_PROBE = [None]      # while the class under test is being decorated: callable(cls) run by inherited hooks


def _hook(inst, a, v):
    HOOK_LOG.append(a.name)
    return v


META_MARK, ISC_MARK, AISUB_MARK, SN_MARK = ("meta-mark",), ("isc-mark",), ("aisub-mark",), ("sn-mark",)


class Meta(type):
    def __new__(mcs, name, bases, ns, **kw):
        return super().__new__(mcs, name, bases, ns)

    def __init__(cls, name, bases, ns, **kw):
        super().__init__(name, bases, ns)
        cls.meta_mark = META_MARK        # a metaclass hook that annotates every class it creates


GLOBALS = {"_SubCachedProperty": _SubCachedProperty, "_SubProperty": _SubProperty,
           "_SubClassMethod": _SubClassMethod, "_SubStaticMethod": _SubStaticMethod, "_REC": _rec, "_CP": _cp, "attr": attr, "functools": functools, "_Descr": _Descr, "_wrap": _wrap,
           "Meta": Meta, "abc": abc, "__name__": MODNAME, "__builtins__": __builtins__}

# ------------------------------------------------------------------------------------------ function source
PARAMS = {"fn": "self", "cm": "cls", "sm": "", "fget": "self", "fset": "self, value", "fdel": "self",
          "cprop": "self", "opaque": "self", "getattr": "self, item", "setattr": "self, name, value",
          "isub": "cls"}


def fn_source(defname, role, tag, use, naux, cpname=None, indent="    "):
    """source of one function; `use` in (None, 'cls', 'super'); `naux` extra free variables aux0.."""
    i2 = indent + "    "
    lines = [f"{indent}def {defname}({PARAMS[role]}):"]
    for i in range(naux):
        lines.append(f"{i2}(lambda: aux{i})")
    if use == "cls":
        lines.append(f"{i2}_REC({tag!r}, __class__)")
    elif use == "super":
        lines += [f"{i2}try:", f"{i2}    super()", f"{i2}    _REC({tag!r}, True)",
                  f"{i2}except TypeError:", f"{i2}    _REC({tag!r}, False)"]
    else:
        lines.append(f"{i2}_REC({tag!r}, None)")
    if role == "cprop":
        lines.append(f"{i2}return _CP(self, {cpname!r})")
    elif role == "getattr":
        lines.append(f"{i2}raise AttributeError(item)")
    elif role == "setattr":
        lines.append(f"{i2}object.__setattr__(self, name, value)")
    elif role == "isub":
        lines.append(f"{i2}_ISUB.append(cls)")
    else:
        lines.append(f"{i2}return {tag!r}")
    return lines


GLOBALS["_ISUB"] = ISUB
_CODE_CACHE: dict = {}


def fn_code(role, tag, use, naux, cpname=None):
    key = (role, tag, use, naux, cpname)
    got = _CODE_CACHE.get(key)
    if got is not None:
        return got
    src = ["def _outer():"]
    for i in range(naux):
        src.append(f"    aux{i} = None")
    src.append("    class _T:")
    src += fn_source("fn", role, tag, use, naux, cpname, indent="        ")
    src.append("    return _T.__dict__['fn']")
    ns: dict = {}
    exec(compile("\n".join(src), f"<c08 template {role}>", "exec"), GLOBALS, ns)
    code = ns["_outer"]().__code__
    if len(_CODE_CACHE) > 4000:
        _CODE_CACHE.clear()
    _CODE_CACHE[key] = code
    return code


def unmangled(clsname, key):
    """the spelling a class statement would use for a body key (`_C__x` is written `__x` inside class C)"""
    pre = "_" + clsname.lstrip("_") + "__"
    if key.startswith(pre) and not key.endswith("__"):
        return key[len(pre) - 2:]
    return key


def func_name(hs, key, spec, natural=False):
    """__name__ of the function(s) behind a body key: normally the key as written, but a member may be an ALIAS of
    a differently named function, a lambda, or carry the name of another member / a field (harness-only variation:
    nothing in the build may go by a function's __name__)"""
    kind = spec.get("fname") or "same"
    if kind == "same":
        return unmangled(hs.get("name", "C"), key)
    if kind == "lambda" and not natural:
        return "<lambda>"
    if kind.startswith("collide:") and not natural:
        return kind[len("collide:"):]
    return "_impl_" + "".join(ch if ch.isalnum() else "_" for ch in key)


def make_fn(name, role, tag, fs, cells, cpname=None):
    """a function object whose closure is made of the cells named by fs['cells']"""
    ids = list(fs["cells"])
    use = fs.get("use") if fs["uses"] else None
    naux = len(ids) - (1 if use else 0)
    code = fn_code(role, tag, use, naux, cpname)
    cmap = {}
    rest = list(ids)
    if use:
        cmap["__class__"] = cells[rest.pop(0)]
    for i, cid in enumerate(rest):
        cmap[f"aux{i}"] = cells[cid]
    closure = tuple(cmap[n] for n in code.co_freevars) or None
    f = types.FunctionType(code, GLOBALS, name, None, closure)
    f.__qualname__ = name
    f.__module__ = MODNAME
    return f


# ------------------------------------------------------------------------------------------ bases
def _base_cprop(name):
    def f(self):
        return _cp(self, name)
    f.__name__ = name
    return functools.cached_property(f)


GQ_PROBES = ["gq", "gq_pub", "_gq", "_gq_priv", "_{name}__gq", "__gq", "__gq__", "gq__", "_"]


def _base_getattr(tag):
    """a COOPERATIVE __getattr__ for a base class: answers every name containing 'gq' (public, underscore-led,
    name-mangled, dunder-like alike), hands every other name to the next __getattr__ of the MRO (a slotted attrs
    base's generated one, say) and raises AttributeError when there is none.  Returns (function, holder); holder[0]
    must be set to the finished class."""
    holder = [None]

    def __getattr__(self, item):
        if "gq" in item:
            return f"{tag}:{item}"
        try:
            nxt = super(holder[0], self).__getattr__
        except AttributeError:
            raise AttributeError(item) from None
        return nxt(item)
    return __getattr__, holder


def gq_probe(inst, name):
    """canonical answers of `inst` to the fallback probe names"""
    out = []
    for pn in GQ_PROBES:
        pn = pn.replace("{name}", name.lstrip("_"))
        try:
            out.append([pn, "v:" + str(getattr(inst, pn))])
        except BaseException as e:  # noqa: BLE001
            out.append([pn, "exc:" + common.exc_kind(e)])
    return out


def _isub_hook():
    def __attrs_init_subclass__(cls):
        ISUB.append(cls)
        cls.aisub_mark = AISUB_MARK      # the hook annotates the class it is given
        if HOOK_PROBE[0] is not None:
            HOOK_PROBE[0](cls)       # look at the class NOW, not after the decorator returned
    return classmethod(__attrs_init_subclass__)


def build_bases(hs):
    """returns (chain of real classes root first, {class: base spec})"""
    chain, specs = [], {}
    base = object
    for i, bs in enumerate(hs["bases"]):
        k = bs["kind"]
        if k == "exc":
            base = Exception
            chain.append(base)
            specs[base] = bs
            continue
        ns = {"__module__": MODNAME}
        if bs.get("isub"):
            ns["__attrs_init_subclass__"] = _isub_hook()
        for n in bs.get("cprops", []):
            cp = _base_cprop(n)
            ns[n] = cp
        ns["bm"] = lambda self: "bm"
        gholder = None
        if bs.get("getattr"):
            ns["__getattr__"], gholder = _base_getattr(f"B{i}")
        if bs.get("isc"):
            def __init_subclass__(cls, **kw):
                cls.isc_mark = ISC_MARK          # runs for the original class AND for the slotted replacement
            ns["__init_subclass__"] = classmethod(__init_subclass__)
        name = f"B{i}"
        if k in ("sattrs", "dattrs"):
            for f in bs.get("fields", []):
                ns[f] = attr.ib(default=f"b{i}.{f}")
            cls = type(name, (base,), ns)
            # a class-level hook: the class gets an attrs-made __setattr__, its Attributes carry no hook
            cls = attr.s(slots=(k == "sattrs"), weakref_slot=bs.get("weakref_slot", True),
                         cache_hash=bool(bs.get("cache_hash")), unsafe_hash=True if bs.get("cache_hash") else None,
                         eq=True, on_setattr=(_hook if bs.get("hook") else None))(cls)
        elif k == "pslots":
            ns["__slots__"] = tuple(bs.get("slots", []))
            cls = type(name, (base,), ns)
        elif k == "pweak":
            ns["__slots__"] = ("__weakref__",)
            try:
                cls = type(name, (base,), ns)
            except TypeError:
                # the base turned out to be weak-referenceable already (it should not be): keep going with
                # an empty __slots__; the base's own defect is reported when it is the class under test
                ns["__slots__"] = ()
                cls = type(name, (base,), ns)
        elif k == "pdict":
            cls = type(name, (base,), ns)
        else:
            raise ValueError(k)
        if gholder is not None:
            gholder[0] = cls
        chain.append(cls)
        specs[cls] = bs
        base = cls
    mixin = None
    ms = hs.get("mixin")
    if ms:
        ns = {"__module__": MODNAME}
        if ms["kind"] == "pempty":
            ns["__slots__"] = ()
        if ms.get("isub"):
            ns["__attrs_init_subclass__"] = _isub_hook()
        gholder = None
        if ms.get("getattr"):
            ns["__getattr__"], gholder = _base_getattr("Mx")
        mixin = type("Mx", (object,), ns)
        if gholder is not None:
            gholder[0] = mixin
        specs[mixin] = ms
    return chain, specs, mixin


# ------------------------------------------------------------------------------------------ the class under test
def _meta(hs):
    return {"type": type, "custom": Meta, "abc": abc.ABCMeta}[hs.get("meta", "type")]


def ft_objects(hs):
    """the objects a field_transformer hook of this case installs on the class it is handed"""
    out = {}
    for op in hs.get("ft") or []:
        kind, key = op[0], op[1]
        if kind == "del":
            continue
        what = op[2] if len(op) > 2 else "plain"
        if what == "fn":
            out[key] = (lambda k: (lambda self: k))(key)
        elif what == "cm":
            out[key] = classmethod((lambda k: (lambda cls: k))(key))
        else:
            out[key] = ("ft", key)
    return out


def ft_apply(hs, objs, target):
    """what the hook does -- to a class (setattr / delattr) or, to predict the outcome, to a dict"""
    for op in hs.get("ft") or []:
        kind, key = op[0], op[1]
        try:
            if isinstance(target, dict):
                if kind == "del":
                    target.pop(key, None)
                else:
                    target[key] = objs[key]
            elif kind == "del":
                delattr(target, key)
            else:
                setattr(target, key, objs[key])
        except (AttributeError, TypeError):
            pass


def eff_items(hs):
    """the body items as the builder will see them: those a field_transformer deletes or replaces are gone"""
    gone = {op[1] for op in hs.get("ft") or []}
    return {k: sp for k, sp in hs["items"] if k not in gone}


def _decorate(hs, cls, slots=True, ft_objs=None):
    kw = {"slots": slots, "weakref_slot": bool(hs.get("weakref_slot", True))}
    if hs.get("ft"):
        objs = ft_objs if ft_objs is not None else ft_objects(hs)

        def transformer(klass, fields):
            ft_apply(hs, objs, klass)       # a hook that annotates the class it is handed
            return list(fields)
        kw["field_transformer"] = transformer
    if hs.get("cache_hash"):
        kw["cache_hash"] = True
        kw["unsafe_hash"] = True
    if hs.get("frozen"):
        kw["frozen"] = True
    api = hs.get("api", "attr.s")
    if api == "define":
        return attrs.define(**kw)(cls)
    if hs.get("custom_setattr"):
        kw["auto_detect"] = True
    if api == "these":
        these = {f: _field(hs, j, f) for j, f in enumerate(hs["fields"])}
        return attr.s(these=these, **kw)(cls)
    return attr.s(**kw)(cls)


def _field(hs, j, f):
    kw = {"default": f"own.{f}"}
    if hs.get("hook") and j == 0:
        kw["on_setattr"] = _hook
    return attr.ib(**kw)


def _parts(spec):
    """(role, part-label-suffix, fnspec) of an item spec"""
    k = spec["k"]
    if k in ("fn", "cm", "sm", "cprop", "opaque"):
        return [(k, "", spec["f"])]
    if k == "prop":
        return [(r, "." + r, spec[r]) for r in ("fget", "fset", "fdel") if spec.get(r)]
    return []


def _role_of(key, spec):
    if key == "__getattr__":
        return "getattr"
    if key == "__setattr__":
        return "setattr"
    if key == "__attrs_init_subclass__":
        return "isub"
    return None


DOCS = {"text": "the docstring", "empty": "", "zero": 0, "false": False, "none": None}


def doc_value(hs):
    return DOCS[hs.get("doc_kind") or "text"]


class Built:
    pass


def build(hs, decorate=True):
    """create bases, the original class and (unless decorate=False) the slotted class; returns a Built record"""
    b = Built()
    b.hs = hs
    chain, specs, mixin = build_bases(hs)
    b.chain, b.specs, b.mixin = chain, specs, mixin
    last = chain[-1] if chain else object
    if mixin is None:
        bases = (last,)
    elif last is object:
        bases = (mixin,)
    elif (hs.get("mixin") or {}).get("first"):
        bases = (mixin, last)        # the attrs base is a direct base but not `__base__`
    else:
        bases = (last, mixin)
    name = hs.get("name", "C")
    cells = {cid: types.CellType() for cid, _ in hs["cells"]}
    b.cells = cells
    b.cell_objs = {}
    items = hs["items"]
    own_hook = False
    if hs.get("natural"):
        src = [f"class {name}({', '.join('_b%d' % i for i in range(len(bases)))}"
               + (", metaclass=_M" if _meta(hs) is not type else "") + "):"]
        if hs.get("doc"):
            dv = doc_value(hs)
            src.append(f"    {dv!r}" if isinstance(dv, str) else f"    __doc__ = {dv!r}")
        if hs.get("body_slots") is not None:
            src.append(f"    __slots__ = {tuple(hs['body_slots'])!r}")
        if hs.get("api") != "these":
            for j, f in enumerate(hs["fields"]):
                src.append(f"    {f} = _FIELD({j}, {f!r})")
        for key, spec in items:
            k = spec["k"]
            if k == "plain":
                src.append(f"    {unmangled(name, key)} = {spec.get('value', 0)!r}")
                continue
            if k == "prop":
                for r in ("fget", "fset", "fdel"):
                    if spec.get(r):
                        fs = spec[r]
                        src += fn_source(f"_{r}", r, f"{key}.{r}", fs.get("use") if fs["uses"] else None, 0)
                args = ", ".join(f"_{r}" if spec.get(r) else "None" for r in ("fget", "fset", "fdel"))
                src.append(f"    {unmangled(name, key)} = {WRAPPER_SRC[('prop', bool(spec.get('sub')))]}({args})")
                for r in ("fget", "fset", "fdel"):
                    if spec.get(r):
                        src.append(f"    del _{r}")
                continue
            fs = spec["f"]
            role = _role_of(key, spec) or k
            use = fs.get("use") if fs["uses"] else None
            keysrc = unmangled(name, key)
            defname = func_name(hs, key, spec, natural=True)
            sub = bool(spec.get("sub"))
            if k == "cm" or role == "isub":
                wrapper = WRAPPER_SRC[("cm", sub)]
            elif k == "sm":
                wrapper = WRAPPER_SRC[("sm", sub)]
            elif k == "cprop":
                wrapper = WRAPPER_SRC[("cprop", sub)]
            elif k == "opaque" and spec.get("opq") == "wraps":
                wrapper = "_wrap"
            elif k == "opaque":
                wrapper = "_Descr"
            else:
                wrapper = None
            src += fn_source(defname, role if role in PARAMS else k, key, use, 0, cpname=key)
            if wrapper or defname != keysrc:
                src.append(f"    {keysrc} = {wrapper}({defname})" if wrapper else f"    {keysrc} = {defname}")
            if defname != keysrc:
                src.append(f"    del {defname}")
        if len(src) == 1:
            src.append("    pass")
        ns = dict(GLOBALS)
        for i, bb in enumerate(bases):
            ns[f"_b{i}"] = bb
        ns["_M"] = _meta(hs)
        ns["_FIELD"] = lambda j, f: _field(hs, j, f)
        exec(compile("\n".join(src), "<c08 natural body>", "exec"), ns)
        old = ns[name]
        if hs.get("qualname"):
            old.__qualname__ = hs["qualname"]
        # the compiler's __class__ cell is cell 0
        for v in old.__dict__.values():
            for f in _functions_of(v):
                if f.__closure__ and "__class__" in f.__code__.co_freevars:
                    cells[0] = f.__closure__[f.__code__.co_freevars.index("__class__")]
    else:
        ns = {"__module__": MODNAME}
        if hs.get("qualname"):
            ns["__qualname__"] = hs["qualname"]
        if hs.get("doc"):
            ns["__doc__"] = doc_value(hs)
        if hs.get("body_slots") is not None:
            ns["__slots__"] = tuple(hs["body_slots"])
        if hs.get("api") != "these":
            for j, f in enumerate(hs["fields"]):
                ns[f] = _field(hs, j, f)
        for key, spec in items:
            k = spec["k"]
            if k == "plain":
                ns[key] = spec.get("value", 0)
            elif k == "prop":
                fns = [make_fn(func_name(hs, key, spec), r, f"{key}.{r}", spec[r], cells) if spec.get(r) else None
                       for r in ("fget", "fset", "fdel")]
                ns[key] = WRAPPERS[("prop", bool(spec.get("sub")))](*fns)
            else:
                role = _role_of(key, spec) or k
                f = make_fn(func_name(hs, key, spec), role if role in PARAMS else k, key, spec["f"], cells, cpname=key)
                if k == "cm" or role == "isub":
                    ns[key] = WRAPPERS[("cm", bool(spec.get("sub")))](f)
                elif k == "sm":
                    ns[key] = WRAPPERS[("sm", bool(spec.get("sub")))](f)
                elif k == "cprop":
                    cp = WRAPPERS[("cprop", bool(spec.get("sub")))](f)
                    ns[key] = cp
                elif k == "opaque":
                    ns[key] = _wrap(f) if spec.get("opq") == "wraps" else _Descr(f)
                else:
                    ns[key] = f
        old = _meta(hs)(name, bases, ns)
    for cid, content in hs["cells"]:
        if hs.get("natural") and cid == 0:
            continue
        if content == "old":
            cells[cid].cell_contents = old
        elif content == "other":
            b.cell_objs[cid] = other_object((hs.get("cell_objs") or {}).get(str(cid), "class"))
            cells[cid].cell_contents = b.cell_objs[cid]
    b.old = old
    # ABCMeta's own bookkeeping is recomputed by the metaclass for the new class: not part of the body
    b.old_dict = {k: v for k, v in old.__dict__.items() if k not in ("__abstractmethods__", "_abc_impl")}
    # ... and the builder copies the class dict AFTER the user's field_transformer ran on the class
    b.ft_objs = ft_objects(hs)
    ft_apply(hs, b.ft_objs, b.old_dict)
    del ISUB[:]
    b.new = None
    b.isub = []
    b.hook_raw, b.hook_snap = [], []
    if decorate:
        # HISTORY: earlier classes built from the very same body objects (function objects, classmethod / property /
        # cached_property wrappers, the user __getattr__, the attr.ib()s) -- a shared helper, a class factory called
        # twice, a copied body.  Whatever attrs memoises per function / per name / per body object and hands to a
        # later class shows up on the class under test.  The model is a function of the class under test alone.
        for kind in hs.get("history", []):
            try:
                ns2 = {k: v for k, v in old.__dict__.items()
                       if k not in ("__dict__", "__weakref__", "__abstractmethods__", "_abc_impl")}
                earlier = _meta(hs)(name, bases, ns2)
                _decorate(hs, earlier, slots=(kind == "slots"), ft_objs=b.ft_objs)
            except BaseException:  # noqa: BLE001 -- context only; the class under test is what is judged
                pass
            finally:
                del ISUB[:]
                del LOG[:]
        def at_hook_time(cls):
            b.hook_raw.append(_raw_calls(cls, b))
            snap = {"slots": cls.__dict__.get("__slots__", MISSING), "keys": set(cls.__dict__), "cls": cls}
            try:
                snap["fields"] = [a.name for a in attr.fields(cls)]
            except BaseException:  # noqa: BLE001
                snap["fields"] = None
            b.hook_snap.append(snap)
        HOOK_PROBE[0] = at_hook_time
        try:
            b.new = _decorate(hs, old, ft_objs=b.ft_objs)
            b.isub = list(ISUB)
        finally:
            HOOK_PROBE[0] = None
            del ISUB[:]
    return b


def _attr_names(hs):
    return set(hs["fields"]) | set(inherited_names(hs))


def _raw_calls(cls, b):
    """invoke every reachable function part of the body that uses the class, on `cls` as it is right now;
    returns [[key, part], raw evidence] (the class object seen, True/False for super(), MISSING if it did not run)"""
    hs = b.hs
    items = eff_items(hs)
    attr_names = _attr_names(hs)
    has_cp = any(s["k"] == "cprop" and k not in attr_names for k, s in hs["items"])
    out = []
    for k in b.old_dict:
        spec = items.get(k)
        if spec is None or spec["k"] == "plain":
            continue
        kept = cls.__dict__.get(k, MISSING) is b.old_dict[k]
        reachable = kept or (k not in attr_names and spec["k"] == "cprop") or \
            (k not in attr_names and k == "__getattr__" and has_cp)
        if not reachable:
            continue
        for role, suffix, fs in _parts(spec):
            if not fs["uses"]:
                continue
            tag = k + suffix
            del LOG[:]
            obj = b.old_dict[k]
            n_isub = len(ISUB)
            try:
                target = cls()
                if k == "__getattr__":
                    try:
                        getattr(target, "zz_call_probe")
                    except AttributeError:
                        pass
                elif k == "__attrs_init_subclass__":
                    obj.__func__(cls)
                elif role == "fn":
                    obj(target)
                elif role in ("cm",):
                    obj.__func__(cls)
                elif role == "sm":
                    obj.__func__()
                elif role == "fget":
                    obj.fget(target)
                elif role == "fset":
                    obj.fset(target, 1)
                elif role == "fdel":
                    obj.fdel(target)
                elif role == "cprop":
                    getattr(target, k)
                elif role == "opaque":
                    r = getattr(target, k)
                    if callable(r):
                        r()
            except BaseException:  # noqa: BLE001
                pass
            del ISUB[n_isub:]
            ev = MISSING
            for t, e in reversed(LOG):
                if t == tag:
                    ev = e
                    break
            out.append([[k, suffix[1:] or "whole"], ev])
    del LOG[:]
    del CP_LOG[:]
    return out


def _classify(ev, new, old):
    if ev is MISSING:
        return "empty"      # the function did not run
    if ev is True:
        return "new"
    if ev is False:
        return "old"
    if ev is new:
        return "new"
    if ev is old:
        return "old"
    return "other"


def _static(cls, k):
    """the raw object found under `k` along the MRO (no descriptor binding)"""
    for K in cls.__mro__:
        if k in K.__dict__:
            return K.__dict__[k]
    return MISSING


def assign_probe(C, names):
    """assign every field on a fresh instance: outcome, hooks that ran, value read back"""
    out = []
    for f in names:
        try:
            inst = C()
        except BaseException as e:  # noqa: BLE001
            out.append([f, "ctor:" + common.exc_kind(e)])
            continue
        del HOOK_LOG[:]
        r = _probe(lambda: setattr(inst, f, "pv"))
        log = list(HOOK_LOG)
        del HOOK_LOG[:]
        try:
            v = getattr(inst, f)
            v = v if isinstance(v, str) else type(v).__name__
        except BaseException as e:  # noqa: BLE001
            v = "exc:" + common.exc_kind(e)
        out.append([f, r, log, v])
    return out


def _functions_of(v):
    if isinstance(v, (classmethod, staticmethod)):
        v = v.__func__
    if isinstance(v, functools.cached_property):
        v = v.func
    if isinstance(v, property):
        return [f for f in (v.fget, v.fset, v.fdel) if isinstance(f, types.FunctionType)]
    if isinstance(v, _Descr):
        v = v.f
    if isinstance(v, types.FunctionType):
        out = [v]
        w = getattr(v, "__wrapped__", None)
        if isinstance(w, types.FunctionType):
            out.append(w)
        return out
    return []


# ------------------------------------------------------------------------------------------ the Lean case
def _fn_json(fs):
    return {"cells": list(fs["cells"]), "uses": bool(fs["uses"])}


def _item_json(spec):
    k = spec["k"]
    if k == "plain":
        return "plain"
    if k == "prop":
        return {"prop": {r: (_fn_json(spec[r]) if spec.get(r) else None) for r in ("fget", "fset", "fdel")}}
    return {k: {"f": _fn_json(spec["f"])}}


def base_summary(K, old, specs):
    sl = K.__dict__.get("__slots__", MISSING)
    if sl is MISSING:
        slots = None
    elif isinstance(sl, str):
        slots = [sl]
    else:
        slots = list(sl)
    flag = K.__dict__.get("__attrs_own_setattr__", None)
    return {
        "direct": K in old.__bases__,
        "slots": slots,
        "hasDict": "__dict__" in K.__dict__,
        "hasWeakref": K.__dict__.get("__weakref__", None) is not None,
        "ownSetattr": None if flag is None else bool(flag),
        "initSubclass": "__attrs_init_subclass__" in K.__dict__,
        "cprops": list(specs.get(K, {}).get("cprops", [])),
    }


def inherited_names(hs):
    own = set(hs["fields"])
    out = []
    for bs in hs["bases"]:
        if bs["kind"] in ("sattrs", "dattrs"):
            for f in bs.get("fields", []):
                if f not in own and f not in out:
                    out.append(f)
    return out


def lean_case(hs, b=None):
    b = b or build(hs, decorate=False)
    items = eff_items(hs)
    body = []
    for k in b.old_dict:
        spec = items.get(k)
        body.append([k, _item_json(spec) if spec is not None else "plain"])
    mode = "frozen" if hs.get("frozen") else "hooks" if hs.get("hook") else "none"
    return {
        "body": body,
        "cells": [[cid, content] for cid, content in hs["cells"]],
        "own": list(hs["fields"]),
        "inherited": inherited_names(hs),
        "mro": [base_summary(K, b.old, b.specs) for K in b.old.__mro__[1:-1]],
        "bodySlots": (list(hs["body_slots"]) if hs.get("body_slots") is not None else None),
        "weakrefSlot": bool(hs.get("weakref_slot", True)),
        "cacheHash": bool(hs.get("cache_hash")),
        "setattrMode": mode,
        "customSetattr": bool(hs.get("custom_setattr")),
        "accesses": [{"inst": i, "name": n} for i, n in hs.get("accesses", [])],
    }


# ------------------------------------------------------------------------------------------ observation
def _cellval(cell, b, cid=None):
    """by IDENTITY only (closed-over objects may have any __eq__): the new class, the old class, the very object
    the harness put there ("other"); anything else reads as "empty" (the original content is gone)"""
    try:
        v = cell.cell_contents
    except ValueError:
        return "empty"
    if v is b.new:
        return "new"
    if v is b.old:
        return "old"
    if cid in b.cell_objs and v is not b.cell_objs[cid]:
        return "empty"
    return "other"


def _probe(thunk):
    try:
        thunk()
        return "ok"
    except AttributeError:
        return "attributeError"
    except TypeError:
        return "typeError"
    except BaseException:  # noqa: BLE001
        return "other"


def _evidence(tag, b):
    for t, ev in reversed(LOG):
        if t == tag:
            if ev is True:
                return "new"
            if ev is False:
                return "old"
            if ev is b.new:
                return "new"
            if ev is b.old:
                return "old"
            return "other"
    return "empty"      # the function did not run


def failed_obs(hs, what):
    """the slotted build did not produce a class at all: nothing of the property holds"""
    return {"keys": [], "slots": [], "reused": [], "slotCount": [], "hasDict": False, "weakrefable": False,
            "setUnknown": "other", "getUnknown": "other", "cells": [], "calls": [], "cachedReturns": [],
            "cachedComputes": [], "initSubclass": [], "ownSetattrFlag": None, "setattrReset": False,
            "hookCalls": [], "hookView": [], "assignAgree": False, "lookupDiff": [], "callbackDiff": [], "runtimeDiff": [what]}


def attrs_caused(e):
    """the exception was raised from inside the attrs package (not by the harness's own class statements)"""
    tb = e.__traceback__
    marker = os.sep + "attr" + os.sep
    while tb is not None:
        if marker in tb.tb_frame.f_code.co_filename:
            return True
        tb = tb.tb_next
    return False


def observe(hs):
    try:
        b = build(hs)
    except BaseException as e:  # noqa: BLE001
        if not attrs_caused(e):
            raise               # the specification itself is not definable: a generator bug
        return failed_obs(hs, "define:" + common.exc_kind(e))
    new, old = b.new, b.old
    items = eff_items(hs)
    attr_names = set(hs["fields"]) | set(inherited_names(hs))
    obs = {}
    # keys
    keys = []
    for k, v in b.old_dict.items():
        got = new.__dict__.get(k, MISSING)
        st = "absent" if got is MISSING else "same" if got is v else "replaced"
        if k in ("__dict__", "__weakref__") and st == "replaced":
            st = "absent"       # which layout descriptors CPython creates anew is its business; "same" = the old one leaked
        if k == "__slots__" and st == "same":
            st = "replaced"     # `()` is a singleton: identity means nothing for the tuple
        keys.append([k, st])
    obs["keys"] = keys
    obs["slots"] = list(new.__slots__) if isinstance(new.__dict__.get("__slots__"), tuple) else ["<no __slots__>"]
    cp_names = [k for k, s in hs["items"] if s["k"] == "cprop" and k not in attr_names]
    order = list(hs["fields"]) + ["__weakref__"] + cp_names
    mro_tail = list(new.__mro__[1:-1])
    reused = []
    for k, v in new.__dict__.items():
        if isinstance(v, types.MemberDescriptorType) and v.__objclass__ is not new:
            idx = mro_tail.index(v.__objclass__) if v.__objclass__ in mro_tail else 99
            reused.append([k, idx])
    reused.sort(key=lambda kv: (order.index(kv[0]) if kv[0] in order else 999, kv[0]))
    obs["reused"] = reused
    sc = []
    for f in hs["fields"]:
        n = 0
        for K in new.__mro__:
            d = K.__dict__.get(f)
            if isinstance(d, types.MemberDescriptorType) and d.__objclass__ is K:
                n += 1
        sc.append([f, n])
    obs["slotCount"] = sc
    try:
        inst = new()
    except BaseException as e:  # noqa: BLE001
        inst = None
        obs["runtimeDiff"] = ["instantiate:" + common.exc_kind(e)]
    del LOG[:]
    try:
        obs["hasDict"] = hasattr(inst, "__dict__") if inst is not None else False
    except BaseException as e:  # noqa: BLE001 -- hasattr must not raise; recorded below through lookupDiff too
        obs["hasDict"] = False
        obs.setdefault("runtimeDiff", []).append("hasattr(__dict__):" + common.exc_kind(e))
    del LOG[:]
    try:
        weakref.ref(inst)
        obs["weakrefable"] = True
    except TypeError:
        obs["weakrefable"] = False
    obs["setUnknown"] = _probe(lambda: setattr(inst, "zz_unknown", 1))
    if obs["setUnknown"] == "ok":
        try:
            del inst.zz_unknown
        except BaseException:  # noqa: BLE001
            pass
    obs["getUnknown"] = _probe(lambda: getattr(inst, "zz_unknown_get"))
    # what follows from "a failed lookup raises AttributeError": hasattr / getattr-with-default / copy / deepcopy
    ld = []
    if inst is not None:
        try:
            if hasattr(inst, "zz_nope") is not False:
                ld.append("hasattr")
        except BaseException as e:  # noqa: BLE001
            ld.append("hasattr:" + common.exc_kind(e))
        try:
            if getattr(inst, "zz_nope", MISSING) is not MISSING:
                ld.append("getattr-default")
        except BaseException as e:  # noqa: BLE001
            ld.append("getattr-default:" + common.exc_kind(e))
        import copy as _copy
        for nm, fn_ in (("copy", _copy.copy), ("deepcopy", _copy.deepcopy)):
            try:
                c2 = fn_(inst)
                if type(c2) is not new:
                    ld.append(nm + ":type")
                for f in list(inherited_names(hs)) + list(hs["fields"]):     # every field survives, whatever its name
                    if getattr(c2, f, MISSING) != getattr(inst, f, MISSING):
                        ld.append(nm + ":field")
                        break
            except BaseException as e:  # noqa: BLE001
                ld.append(nm + ":" + common.exc_kind(e))
    obs["lookupDiff"] = ld
    del LOG[:]
    obs["cells"] = [[cid, _cellval(b.cells[cid], b, cid)] for cid, _ in hs["cells"]]
    # calls (now), and what the same functions saw when the inherited hook invoked them (then)
    obs["calls"] = [[lab, _classify(ev, new, old)] for lab, ev in _raw_calls(new, b)]
    hook_calls, view = [], []
    for raw, snap in zip(b.hook_raw, b.hook_snap):
        hook_calls += [[lab, _classify(ev, new, old)] for lab, ev in raw]
        if snap["cls"] is not new:
            view.append("not-the-returned-class")
        if snap["slots"] is MISSING or snap["slots"] != new.__dict__.get("__slots__"):
            view.append("slots")
        if snap["keys"] != set(new.__dict__):
            view.append("dict-keys")
        try:
            final_fields = [a.name for a in attr.fields(new)]
        except BaseException:  # noqa: BLE001
            final_fields = "?"
        if snap["fields"] != final_fields:
            view.append("fields")
    obs["hookCalls"] = hook_calls
    obs["hookView"] = sorted(set(view))
    # cached properties
    del CP_LOG[:]
    del CP_INSTS[:]
    rets = []
    try:
        n_inst = max([i for i, _ in hs.get("accesses", [])] + [-1]) + 1
        for _ in range(n_inst):
            try:
                CP_INSTS.append(new())
            except BaseException:  # noqa: BLE001
                CP_INSTS.append(None)
        for i, n in hs.get("accesses", []):
            try:
                if CP_INSTS[i] is None:
                    raise RuntimeError("no instance")
                rets.append(str(getattr(CP_INSTS[i], n)))
            except BaseException as e:  # noqa: BLE001
                rets.append("exc:" + common.exc_kind(e))
        obs["cachedReturns"] = rets
        obs["cachedComputes"] = [{"inst": i, "name": n} for i, n in CP_LOG]
    finally:
        del CP_LOG[:]
        del CP_INSTS[:]
    obs["initSubclass"] = ["new" if c is new else "old" if c is old else "other" for c in b.isub]
    flag = new.__dict__.get("__attrs_own_setattr__", None)
    obs["ownSetattrFlag"] = None if flag is None else bool(flag)
    obs["setattrReset"] = new.__dict__.get("__setattr__", None) is object.__setattr__
    rd = obs.get("runtimeDiff", [])
    if type(new) is not type(old):
        rd.append("type")
    for a in ("__name__", "__qualname__", "__module__", "__doc__", "__bases__"):
        if getattr(new, a, MISSING) != getattr(old, a, MISSING):
            rd.append(a)
    if new is old:
        rd.append("same-object")
    if hs.get("meta") == "abc" and not isinstance(new, abc.ABCMeta):
        rd.append("abc")
    for k, v in b.old_dict.items():
        if isinstance(v, _Descr) and new.__dict__.get(k, MISSING) is v and v.owner is not new:
            rd.append("__set_name__")
    obs["runtimeDiff"] = rd
    # the same class built as a dict class (the original class object goes through the decorator again, which
    # patches it in place -- nothing else is observed on it afterwards): assignments must behave alike
    obs["assignAgree"] = True
    names = list(inherited_names(hs)) + list(hs["fields"])
    inh = set(inherited_names(hs))
    cb = []
    for op in hs.get("ft") or []:
        if op[0] == "del" and op[1] in new.__dict__:
            cb.append("deleted-key-present:" + op[1])
    if b.isub and new.__dict__.get("aisub_mark", MISSING) is not AISUB_MARK:
        cb.append("aisub-mark")
    try:
        twin = _decorate(hs, old, slots=False, ft_objs=b.ft_objs)
    except BaseException:  # noqa: BLE001
        twin = None
    finally:
        del ISUB[:]
    if twin is not None:
        # what callbacks running during construction left on the class: both builds must show the same objects
        marks = [op[1] for op in hs.get("ft") or []] + ["meta_mark", "isc_mark", "aisub_mark"] + \
            [k for k in b.old_dict if k.startswith("_sn_")]
        for k in marks:
            if k in inh or k in hs["fields"]:
                continue
            if _static(new, k) is not _static(twin, k):
                cb.append("twin:" + k)
        # a failed lookup goes to the inherited __getattr__ (if any) on both builds alike, whatever the name looks like
        if inst is not None:
            try:
                tinst = twin()
            except BaseException:  # noqa: BLE001
                tinst = None
            if tinst is not None:
                got_t = dict(map(tuple, gq_probe(tinst, hs.get("name", "C"))))
                for pn, got in gq_probe(inst, hs.get("name", "C")):
                    if got != got_t[pn]:
                        obs["lookupDiff"].append("fallback:" + pn)
            del LOG[:]
    obs["callbackDiff"] = sorted(set(cb))
    # not compared: frozen leaves (every assignment raises; the frozen *dict* twin may hit K3), a body-level
    # __slots__ (the dict twin has no __dict__), body keys shadowing inherited fields (dropped by the slotted build)
    comparable = (hs.get("body_slots") is None and not hs.get("frozen")
                  and not any(k in inh for k, _s in hs["items"]))
    if comparable and inst is not None and names and twin is not None:
        on = assign_probe(new, names)
        try:
            twin()
            obs["assignAgree"] = on == assign_probe(twin, names)
        except BaseException:  # noqa: BLE001
            pass
    del LOG[:]
    return obs
