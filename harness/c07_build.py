"""C07 helper: turn one case (the JSON form of Lean's `Attrs.C07.Case` + harness-only `cfg`) into real classes
and read every observable of the property off them.  Class statements are exec'd in a synthetic module so that
annotations, source order and creation counters are real."""
from __future__ import annotations

import collections as _collections
import collections.abc as _abc
import inspect
import sys
import types
import typing

import attr
import attrs

from common import exc_kind, purge_linecache

ERRKINDS = {"valueError", "unannotated", "typeError", "attributeError"}
ATTR_SLOTS = attr.Attribute.__slots__


class _MarkerMeta(type):
    def __repr__(cls):
        return cls.__name__


_MARKERS: dict = {}


def marker(k: int):
    m = _MARKERS.get(k)
    if m is None:
        m = _MARKERS[k] = _MarkerMeta(f"T{k}", (), {})
    return m


def _ttag(t):
    if isinstance(t, _MarkerMeta):
        return int(t.__name__[1:])
    if isinstance(t, str) and t.startswith("T") and t[1:].isdigit():
        return int(t[1:])
    return None


def field_obs(a) -> dict:
    md = a.metadata
    return {
        "name": a.name,
        "tag": md.get("d") if hasattr(md, "get") else None,
        "ttag": _ttag(a.type),
        "inherited": bool(a.inherited),
        "hasDefault": a.default is not attr.NOTHING,
        "init": bool(a.init),
        "kwOnly": bool(a.kw_only),
        "alias": a.alias,
    }


LOG: list = []          # what the instrumented validators / converters / on_setattr hooks did when probed


class UserMapping(_abc.Mapping):
    """a user-defined read-only Mapping over a dict the user keeps"""

    def __init__(self, under):
        self._under = under

    def __getitem__(self, k):
        return self._under[k]

    def __iter__(self):
        return iter(self._under)

    def __len__(self):
        return len(self._under)


def _mk_validator(tok):
    def validator(inst, a, v):
        LOG.append(("val", tok))
    return validator


def _mk_converter(tok):
    def converter(v):
        return ("conv", tok, v)
    return converter


def _mk_hook(tok):
    def hook(inst, a, v):
        return ("hook", tok, v)
    return hook


def _opts_kwargs(o, ns, key, pc):
    """keyword arguments of attr.ib()/field() for FOpts `o`.  Every container handed to attrs is a user-kept
    object of the kind chosen in pc['ck']; a closure that mutates the user's underlying object afterwards is
    registered in ns['_user']['mutators']."""
    kw = {}
    ck = pc.get("ck", {})
    mut = ns["_user"]["mutators"]
    if o["hasDefault"]:
        if pc.get("dkind") == "factory":
            kw["factory"] = list
        else:
            kw["default"] = 0
    if not o["init"]:
        kw["init"] = False
    if o["kwOnly"]:
        kw["kw_only"] = True
    if o["alias"] is not None:
        kw["alias"] = o["alias"]
    if o["tag"] is not None:
        kind = ck.get("md", "dict")
        under = {"d": o["tag"]} if kind != "odict" else _collections.OrderedDict(d=o["tag"])
        if kind == "proxy":
            kw["metadata"] = types.MappingProxyType(under)
        elif kind == "mapping":
            kw["metadata"] = UserMapping(under)
        else:
            kw["metadata"] = under

        def mutate_md(under=under):
            under["d"] = 999
            under["extra"] = 1
        mut.append(mutate_md)
    vk = ck.get("val", "list" if pc.get("validators") else "none")
    if vk != "none":
        vl = [_mk_validator("v1"), _mk_validator("v2")]
        if vk == "list":
            kw["validator"] = vl
            mut.append(lambda vl=vl: (vl.append(_mk_validator("late")), vl.reverse()))
        elif vk == "tuple":
            kw["validator"] = tuple(vl)
        elif vk == "and":
            kw["validator"] = attr.validators.and_(*vl)
        else:                                   # a list holding an and_ object
            inner = [attr.validators.and_(vl[0]), vl[1]]
            kw["validator"] = inner
            mut.append(lambda inner=inner: inner.append(_mk_validator("late")))
    cvk = ck.get("conv", "none")
    if cvk != "none":
        cl = [_mk_converter("c1"), _mk_converter("c2")]
        if cvk == "list":
            kw["converter"] = cl
            mut.append(lambda cl=cl: (cl.append(_mk_converter("late")), cl.reverse()))
        elif cvk == "tuple":
            kw["converter"] = tuple(cl)
        else:
            kw["converter"] = cl[0]
    ok = ck.get("osa", "none")
    if ok != "none":
        hl = [_mk_hook("h1"), _mk_hook("h2")]
        if ok == "list":
            kw["on_setattr"] = hl
            mut.append(lambda hl=hl: (hl.append(_mk_hook("late")), hl.reverse()))
        else:
            kw["on_setattr"] = tuple(hl)
    return kw


def attr_snapshot(a):
    """everything of an Attribute that a user container could leak into, as plain data"""
    del LOG[:]
    out = [a.name, sorted((str(k), str(v)) for k, v in dict(a.metadata).items()), a.alias, bool(a.inherited),
           bool(a.kw_only), bool(a.init), a.default is not attr.NOTHING]
    try:
        if a.validator is not None:
            a.validator(None, a, 0)
        out.append(list(LOG))
    except BaseException as e:  # noqa: BLE001
        out.append(["validator raised", exc_kind(e)])
    del LOG[:]
    try:
        out.append(None if a.converter is None else repr(a.converter("t")))
    except BaseException as e:  # noqa: BLE001
        out.append(["converter raised", exc_kind(e)])
    try:
        out.append(None if a.on_setattr is None else repr(a.on_setattr(None, a, "t")))
    except BaseException as e:  # noqa: BLE001
        out.append(["on_setattr raised", exc_kind(e)])
    return out


def _rebuild(a, style, ns):
    """the way a user transformer may produce its result: through evolve() / Attribute(...) with containers it keeps
    (and mutates later); the field it describes is the same"""
    if style == "plain":
        return a
    kept = dict(a.metadata) or {"t": 1}

    def mutate(kept=kept):
        kept["d"] = 999
        kept["extra"] = 1
    ns["_user"]["mutators"].append(mutate)
    if style == "evolve_md":
        return a.evolve(metadata=kept)
    if style == "evolve_md_proxy":
        return a.evolve(metadata=types.MappingProxyType(kept))
    return attr.Attribute(
        name=a.name, default=a.default, validator=a.validator, repr=a.repr, cmp=None, hash=a.hash, init=a.init,
        inherited=a.inherited, metadata=kept if style == "ctor" else UserMapping(kept), type=a.type,
        converter=a.converter, kw_only=a.kw_only, eq=a.eq, eq_key=a.eq_key, order=a.order, order_key=a.order_key,
        on_setattr=a.on_setattr, alias=a.alias)


def make_transformer(tr, rec, ns=None, pc=None):
    if tr == "none":
        return None
    style = (pc or {}).get("tr_style", "plain")

    def transformer(cls, fields):
        if (pc or {}).get("tr_probe", True):
            # user code looking at the class it is handed: not an attrs class yet (unless re-exported by a base)
            for probe in (attr.has, attr.fields, attr.fields_dict):
                try:
                    probe(cls)
                except Exception:  # noqa: BLE001
                    pass
        rec["received"] = [field_obs(a) for a in fields]
        if tr == "ident":
            out = fields
        elif tr == "reverse":
            out = list(reversed(fields))
        elif tr == "kwOnly":
            out = [a.evolve(kw_only=True) for a in fields]
        elif "drop" in tr:
            out = [a for a in fields if a.name != tr["drop"]["n"]]
        elif "add" in tr:
            o = tr["add"]["o"]
            new = attr.Attribute(
                name=tr["add"]["n"], default=0 if o["hasDefault"] else attr.NOTHING, validator=None, repr=True,
                cmp=None, hash=None, init=o["init"], inherited=False,
                metadata=({"d": o["tag"]} if o["tag"] is not None else None), kw_only=o["kwOnly"], alias=o["alias"])
            out = [*fields, new]
        else:
            raise AssertionError(tr)
        if style != "plain" and ns is not None:
            out = [_rebuild(a, style, ns) for a in out]
        rec["returned"] = [field_obs(a) for a in out]
        return out

    return transformer


_SEQ = [0]


def _class_source(k, c, pc, base_names, ns, rec, name=None):
    """returns source text defining class `C{k}` (or `name`) in namespace ns"""
    name = name or f"C{k}"
    via = pc.get("via", "deco")            # deco | make_class_dict | make_class_list
    api = "field" if c["kind"] == "define" and pc.get("field_fn", True) else "ib"
    fn = "attrs.field" if api == "field" else "attr.ib"
    pre, body = [], []
    items = c["items"]
    ib_items = [i for i in items if isinstance(i["val"], dict)]
    counters = [i["val"]["ib"]["counter"] for i in ib_items]
    history = pc.get("history", "none") if c["kind"] != "plain" and not via.startswith("make_class") else "none"
    # body objects shared with another class must exist before both class statements
    inline = counters == sorted(counters) and history != "shared"
    uid = _SEQ[0] = _SEQ[0] + 1
    made = {}
    if not inline:
        for i in sorted(ib_items, key=lambda i: i["val"]["ib"]["counter"]):
            var = f"_ib_{uid}_{i['name']}"
            ns["_kw"][var] = _opts_kwargs(i["opts"], ns, var, pc)
            pre.append(f"{var} = {fn}(**_kw['{var}'])")
            made[i["name"]] = var
    for i in items:
        ann = i.get("annSrc")
        if isinstance(i["val"], dict):
            if inline:
                var = f"_kw_{uid}_{i['name']}"
                ns["_kw"][var] = _opts_kwargs(i["opts"], ns, var, pc)
                rhs = f"{fn}(**_kw['{var}'])"
            else:
                rhs = made[i["name"]]
        elif i["val"] == "plain":
            rhs = "5"
        else:
            rhs = None
        if ann is not None and rhs is not None:
            body.append(f"    {i.get('srcName', i['name'])}: {ann} = {rhs}")
        elif ann is not None:
            body.append(f"    {i.get('srcName', i['name'])}: {ann}")
        else:
            body.append(f"    {i.get('srcName', i['name'])} = {rhs}")
    # ---- harness-only: ANOTHER attrs class is created while this class body is still executing (a nested class
    # statement, or a call to a helper that builds one), between two of the body's statements
    il = pc.get("interleave") if c["kind"] != "plain" else None
    if il and body:
        pos = il["pos"] % (len(body) + 1)
        if il["how"] == "nested":
            ins = ["    @attr.s", f"    class _Nested_{uid}:", "        zz = attr.ib()", "        zy = attr.ib(default=0)"]
        elif il["how"] == "nested_define":
            ins = ["    @attrs.define", f"    class _Nested_{uid}:", "        zz = attrs.field(default=0)"]
        else:
            ins = [f"    _interleaved({il['how']!r})"]
        body[pos:pos] = ins
    # ---- harness-only: the class brings its own initializer (class-level init=False, or a hand-written __init__
    # that define / auto_detect=True respects): attrs writes __attrs_init__ instead, everything else is the same
    init_mode = pc.get("init_mode") if c["kind"] != "plain" else None
    if init_mode == "own":
        body.append("    def __init__(self, *a, **k):\n        self.__attrs_init__(*a, **k)")
    if not body:
        body.append("    pass")
    bases = ", ".join(base_names)
    if c["kind"] == "plain":
        return "\n".join([*pre, f"class {name}({bases}):", *body]), None
    # decorator arguments
    dk = {}
    these_var = None
    if c["these"] is not None:
        these_var = f"_these_{uid}"
        # create the attr.ib objects in an order different from the insertion order (creation counters must
        # not matter for these=/make_class)
        mk = attrs.field if api == "field" else attr.ib
        entries = list(c["these"])
        order = list(reversed(entries)) if pc.get("these_rev", True) else entries
        objs = {n: mk(**_opts_kwargs(o, ns, n, pc)) for n, o in order}
        d = {n: objs[n] for n, _ in entries}
        tk = pc.get("ck", {}).get("these", "dict")
        if via.startswith("make_class") and tk not in ("dict", "odict", "tuple"):
            tk = "dict"                      # make_class accepts dicts and lists only
        under = [d]                          # the user's own mutable object(s) behind whatever is passed
        if tk == "odict":
            d = _collections.OrderedDict(d)
            under = [d]
        elif tk == "proxy":
            d = types.MappingProxyType(d)
        elif tk == "mapping":
            d = UserMapping(under[0])
        elif tk == "userdict":
            d = _collections.UserDict(d)
            under = [d]
        elif tk == "chainmap":
            # a ChainMap iterates its LAST map first: (second half, first half) iterates in the order of `entries`
            half = len(entries) // 2
            first = {n: objs[n] for n, _ in entries[:half]}
            second = {n: objs[n] for n, _ in entries[half:]}
            d = _collections.ChainMap(second, first)
            under = [second, first]
        ns[these_var] = d
        ns["_user"]["these"].extend(under)
        dk["these"] = these_var
    if c["kwOnly"]:
        dk["kw_only"] = "True"
    if init_mode == "false":
        dk["init"] = "False"
    elif init_mode == "own" and c["kind"] == "attrS":
        dk["auto_detect"] = "True"
    tr = make_transformer(c["tr"], rec, ns, pc)
    if tr is not None:
        ns[f"_tr_{uid}"] = tr
        dk["field_transformer"] = f"_tr_{uid}"
    if c["kind"] == "attrS":
        if c["autoAttribs"] is True:
            dk["auto_attribs"] = "True"
        elif pc.get("explicit_auto_false"):
            dk["auto_attribs"] = "False"
        if c["collectByMro"]:
            dk["collect_by_mro"] = "True"
        for key in ("slots", "frozen"):
            if pc.get(key):
                dk[key] = "True"
        if pc.get("lean", True):
            dk.update(repr="False", eq="False")
        deco = "attr.s"
    else:
        if c["autoAttribs"] is not None:
            dk["auto_attribs"] = str(c["autoAttribs"])
        dk["slots"] = "True" if pc.get("slots") else "False"
        if pc.get("frozen"):
            dk["frozen"] = "True"
        if pc.get("lean", True):
            dk.update(repr="False", eq="False")
        deco = "attrs.mutable" if pc.get("define_api") == "mutable" else "attrs.define"
    args = ", ".join(f"{a}={b}" for a, b in dk.items())
    if via.startswith("make_class") and c["kind"] == "attrS" and c["these"] is not None and not c["items"]:
        rest = {a: b for a, b in dk.items() if a != "these"}
        rest_s = "".join(f", {a}={b}" for a, b in rest.items())
        if via == "make_class_list":
            ns[these_var + "_l"] = [n for n, _ in c["these"]]
            if pc.get("ck", {}).get("these") == "tuple":
                ns[these_var + "_l"] = tuple(ns[these_var + "_l"])
            else:
                ns["_user"]["lists"].append(ns[these_var + "_l"])
            first = these_var + "_l"
        else:
            first = these_var
        bases_t = f"({bases},)" if base_names else "(object,)"
        return "\n".join([*pre, f"{name} = attr.make_class('{name}', {first}, bases={bases_t}{rest_s})"]), None
    if history == "none":
        return "\n".join([*pre, f"@{deco}({args})", f"class {name}({bases}):", *body]), None
    # ---- histories: the class object (or its body objects) has been through something before the decoration
    # under test.  The expected tuple is a function of the body alone.
    h = f"_h_{uid}"
    lines = [*pre]
    dk_nolean = {a: b for a, b in dk.items() if a not in ("repr", "eq", "slots", "frozen")}

    def deco_call(extra):
        merged = dict(dk_nolean)
        merged.update(extra)
        return f"{deco}(" + ", ".join(f"{a}={b}" for a, b in merged.items()) + ")"

    if history == "shared":
        # the attr.ib() objects / the these= dict were already used by another (dict) class
        lines += [f"class _Donor_{uid}:", *body, "try:", f"    {deco_call({'slots': 'False'})}(_Donor_{uid})",
                  "except Exception:", "    pass"]
    if history.startswith("reused"):
        # ONE decorator object, applied first to a class with another kind of body, then to the class under test
        prime = {"reused_mixed": [f"    a: int = 1", f"    b = {fn}()"],
                 "reused_unannotated": [f"    a = {fn}()"],
                 "reused_annotated": ["    a: int = 1", "    b: int = 2"],
                 "reused_empty": ["    pass"]}[history]
        lines += [f"_d_{uid} = {deco}({args})", f"class _Prime_{uid}:", *prime, "try:", f"    _d_{uid}(_Prime_{uid})",
                  "except Exception:", "    pass", f"class {name}({bases}):", *body, f"{name} = _d_{uid}({name})"]
        return "\n".join(lines), None
    lines += [f"class {name}({bases}):", *body, f"{h} = {name}"]
    if history.startswith("pre_"):
        # introspection of the still-undecorated class, then the decoration (in place for dict classes)
        what = {"pre_has": ["has"], "pre_fields": ["fields"], "pre_asdict": ["asdict"], "pre_sub": ["sub"],
                "pre_all": ["has", "fields", "asdict", "sub"]}[history]
        lines += [f"_pre_introspect({h}, {what!r})"]
    if history.startswith("failed"):
        poison = {
            "failed_cache_hash": {"cache_hash": "True", "eq": "False", "slots": "False"},
            "failed_frozen_on_setattr": {"frozen": "True", "on_setattr": "attr.setters.validate", "slots": "False"},
            "failed_hash_value": {"hash": "'yes'", "slots": "False"},
            "failed_cache_hash_no_init": {"unsafe_hash": "True", "cache_hash": "True", "init": "False", "slots": "False"},
        }[history]
        lines += ["try:", f"    {deco_call(poison)}({h})", f"    _rejected_{uid} = False", "except Exception:",
                  f"    _rejected_{uid} = True",
                  f"assert _rejected_{uid}, 'harness: the poisoned decoration was expected to be refused'"]
    elif history == "twice_slots_first":
        # a slotted build makes a new class and must leave the original body alone
        lines += ["try:", f"    {deco_call({'slots': 'True'})}({h})", "except Exception:", "    pass"]
    # (decorating a dict class in place twice is not a history the property covers: the first decoration rewrites
    # the class by design -- attr.ib()s removed, __setattr__ installed -- and define refuses the second one)
    lines += [f"{name} = {deco}({args})({h})"]
    return "\n".join(lines), None


def make_pre_introspect(ns):
    def pre(cls, what):
        if "has" in what:
            attr.has(cls)
        if "fields" in what:
            for probe in (attr.fields, attr.fields_dict):
                try:
                    probe(cls)
                except Exception:  # noqa: BLE001 -- NotAnAttrsClassError expected without attrs ancestors
                    pass
        if "asdict" in what:
            # asdict() meeting an instance of the still-plain class as a value asks has() for its class
            try:
                holder = attr.make_class("Holder", ["v"])(object.__new__(cls))
                attr.asdict(holder)
                attr.astuple(holder)
            except Exception:  # noqa: BLE001
                pass
        if "sub" in what:
            # a plain subclass made (and looked at) before its base is decorated
            try:
                aux = type("AuxSub", (cls,), {})
                attr.has(aux)
                ns["_user"]["aux"].append(aux)
            except Exception:  # noqa: BLE001
                pass
    return pre


def _interleaved(how):
    """build a throw-away attrs class (called from inside another class body)"""
    if how == "call_define":
        return attrs.define(type("Helper", (), {"h1": attrs.field(default=0), "h2": attrs.field(default=0)}))
    if how == "call_make_class":
        return attr.make_class("Helper", ["h1", "h2"])
    if how == "call_auto":
        return attr.s(auto_attribs=True)(type("Helper", (), {"__annotations__": {"h1": int}}))
    return attr.s(type("Helper", (), {"h1": attr.ib(), "h2": attr.ib(default=0)}))


def new_namespace():
    mod = types.ModuleType("c07_synth")
    ns = mod.__dict__
    ns.update(attr=attr, attrs=attrs, typing=typing, t=typing, ClassVar=typing.ClassVar, _kw={},
              _user={"mutators": [], "these": [], "lists": [], "aux": []})
    for k in range(8):
        ns[f"T{k}"] = marker(k)
    ns["_pre_introspect"] = make_pre_introspect(ns)
    ns["_interleaved"] = _interleaved
    return mod, ns


def check_annotations(c, cls_dict_anns):
    """the case's `ann` strings must be what str(annotation) really gives (else the harness is wrong)"""
    for i in c["items"]:
        if i["ann"] is not None:
            real = str(cls_dict_anns.get(i["name"]))
            if real != i["ann"]:
                raise AssertionError(f"annotation string mismatch for {i['name']}: {real!r} vs {i['ann']!r}")


def build(case, leaf_override=None, leaf_pc=None):
    """create the hierarchy; returns dict(classes=[...], err=(k, kind)|None, rec=transformer record of the leaf, ns)"""
    cs = list(case["classes"])
    cfg = case.get("cfg", {})
    per = list(cfg.get("per", [{}] * len(cs)))
    if leaf_override is not None:
        cs[-1] = leaf_override
        per[-1] = leaf_pc if leaf_pc is not None else per[-1]
    bases = cfg["bases"]
    mod, ns = new_namespace()
    sys.modules[mod.__name__] = mod
    # process history, made the same for every build (so a replay in a fresh process sees what the run saw): some
    # attr.ib()s have been created before -- the global creation counter is well past anything one body creates
    for _ in range(8):
        attr.ib()
    made = []
    rec = {}
    err = None
    try:
        for k, c in enumerate(cs):
            this_rec = {}
            src, _ = _class_source(k, c, per[k] if k < len(per) else {}, [f"C{b}" for b in bases[k]], ns, this_rec)
            try:
                exec(compile(src, f"<c07 class {k}>", "exec", dont_inherit=True), ns)  # noqa: S102
            except BaseException as e:  # noqa: BLE001
                kind = exc_kind(e)
                err = (k, kind if kind in ERRKINDS else "other")
                if kind not in ERRKINDS:
                    rec["exc_repr"] = repr(e)[:300]
                if k == len(cs) - 1:
                    rec.update(this_rec)
                break
            made.append(ns[f"C{k}"])
            if k == len(cs) - 1:
                rec.update(this_rec)
    finally:
        sys.modules.pop(mod.__name__, None)
    return {"classes": made, "err": err, "rec": rec, "ns": ns, "cs": cs}
